//! Shared proptest strategies: boundary-biased sizes, byte-content classes, hex-encoded byte
//! strings (compact in replay files), monotone index mapping.

use proptest::prelude::*;
use serde::{Deserialize, Deserializer, Serialize, Serializer};

/// Byte string that serialises as a hex string.
#[derive(Clone, PartialEq, Eq, Hash, PartialOrd, Ord, Default)]
pub struct Bytes(pub Vec<u8>);

impl std::fmt::Debug for Bytes {
    fn fmt(&self, f: &mut std::fmt::Formatter<'_>) -> std::fmt::Result {
        write!(f, "x\"{}\"", hex(&self.0))
    }
}

pub fn hex(b: &[u8]) -> String {
    let mut s = String::with_capacity(b.len() * 2);
    for x in b {
        s.push_str(&format!("{:02x}", x));
    }
    s
}

pub fn unhex(s: &str) -> Vec<u8> {
    (0..s.len() / 2).map(|i| u8::from_str_radix(&s[2 * i..2 * i + 2], 16).unwrap_or(0)).collect()
}

impl Serialize for Bytes {
    fn serialize<S: Serializer>(&self, s: S) -> Result<S::Ok, S::Error> {
        s.serialize_str(&hex(&self.0))
    }
}
impl<'de> Deserialize<'de> for Bytes {
    fn deserialize<D: Deserializer<'de>>(d: D) -> Result<Self, D::Error> {
        let s = String::deserialize(d)?;
        Ok(Bytes(unhex(&s)))
    }
}
impl std::ops::Deref for Bytes {
    type Target = Vec<u8>;
    fn deref(&self) -> &Vec<u8> {
        &self.0
    }
}

/// Map a generated u16 monotonically onto 0..n (n > 0); shrinks towards 0.
pub fn idx(i: u16, n: usize) -> usize {
    if n == 0 {
        0
    } else {
        ((i as u64 * n as u64) >> 16) as usize
    }
}

/// Sizes biased towards `k*B + {-2..=2}` for the given block sizes, small values, and uniform.
pub fn size_around(blocks: &'static [usize], max: usize) -> BoxedStrategy<usize> {
    let mut pts: Vec<usize> = vec![];
    for &b in blocks {
        for k in 1..=4usize {
            for d in [-2i64, -1, 0, 1, 2] {
                let v = (b * k) as i64 + d;
                if v >= 0 && (v as usize) <= max {
                    pts.push(v as usize);
                }
            }
        }
    }
    if pts.is_empty() {
        pts.push(0);
    }
    prop_oneof![
        3 => 0usize..=8.min(max),
        4 => proptest::sample::select(pts),
        3 => 0usize..=max,
        2 => 0usize..=(max.min(64)),
    ]
    .boxed()
}

#[derive(Clone, Copy, Debug, PartialEq, Eq, Serialize, Deserialize)]
pub enum Content {
    Constant,
    TwoSymbol,
    KSymbol,
    All256,
    Geometric,
    Fibonacci,
    Order1Skew,
    Periodic,
    Text,
    Uniform,
    Runs,
}

pub const ALL_CONTENT: &[Content] = &[
    Content::Constant,
    Content::TwoSymbol,
    Content::KSymbol,
    Content::All256,
    Content::Geometric,
    Content::Fibonacci,
    Content::Order1Skew,
    Content::Periodic,
    Content::Text,
    Content::Uniform,
    Content::Runs,
];

/// Deterministic xorshift stream used to expand a (seed, class, len) triple into bytes *inside
/// the strategy* (the seed itself comes from proptest, so the value is reproducible and the
/// length/seed shrink).
pub struct Xs(pub u64);
impl Xs {
    pub fn next(&mut self) -> u64 {
        let mut x = self.0;
        x ^= x << 13;
        x ^= x >> 7;
        x ^= x << 17;
        self.0 = x;
        x.wrapping_mul(0x2545F4914F6CDD1D)
    }
    pub fn below(&mut self, n: u64) -> u64 {
        if n == 0 {
            0
        } else {
            ((self.next() >> 11) as u128 * n as u128 >> 53) as u64
        }
    }
    pub fn unit(&mut self) -> f64 {
        (self.next() >> 11) as f64 / (1u64 << 53) as f64
    }
}

pub fn expand(content: Content, len: usize, seed: u64) -> Vec<u8> {
    let mut r = Xs(seed | 1);
    let base = (seed >> 8) as u8;
    let mut out = Vec::with_capacity(len);
    match content {
        Content::Constant => out.resize(len, base),
        Content::TwoSymbol => {
            let (a, b) = (base, base.wrapping_add(1 + (seed >> 16) as u8 % 255));
            let p = 1 + r.below(63);
            for _ in 0..len {
                out.push(if r.below(64) < p { a } else { b });
            }
        }
        Content::KSymbol => {
            let k = 3 + r.below(254);
            for _ in 0..len {
                out.push(base.wrapping_add(r.below(k) as u8));
            }
        }
        Content::All256 => {
            for i in 0..len {
                out.push((i as u8).wrapping_mul(167).wrapping_add(base));
            }
        }
        Content::Geometric => {
            // symbol s with probability ~ 2^-(s+1)
            for _ in 0..len {
                let s = (r.next() | (1 << 40)).trailing_zeros() as u8;
                out.push(base.wrapping_add(s));
            }
        }
        Content::Fibonacci => {
            // symbol s with weight F(s): deepest Huffman trees per input byte
            let mut fib: Vec<u64> = vec![1, 1];
            while fib.iter().sum::<u64>() < len as u64 && fib.len() < 40 {
                let n = fib.len();
                fib.push(fib[n - 1] + fib[n - 2]);
            }
            let mut syms: Vec<u8> = vec![];
            'o: for (s, &c) in fib.iter().enumerate() {
                for _ in 0..c {
                    if syms.len() >= len {
                        break 'o;
                    }
                    syms.push(base.wrapping_add(s as u8));
                }
            }
            while syms.len() < len {
                syms.push(base);
            }
            // deterministic shuffle
            for i in (1..syms.len()).rev() {
                let j = r.below(i as u64 + 1) as usize;
                syms.swap(i, j);
            }
            out = syms;
        }
        Content::Order1Skew => {
            // pairs (context byte, geometric symbol) so per-context distributions are very skewed
            let nctx = 1 + r.below(4) as u8;
            while out.len() < len {
                let c = base.wrapping_add(r.below(nctx as u64) as u8);
                out.push(c);
                if out.len() < len {
                    let s = (r.next() | (1 << 30)).trailing_zeros() as u8;
                    out.push(c.wrapping_add(100).wrapping_add(s));
                }
            }
        }
        Content::Periodic => {
            let p = 1 + r.below(7) as usize;
            let pat: Vec<u8> = (0..p).map(|_| r.next() as u8).collect();
            for i in 0..len {
                out.push(pat[i % p]);
            }
        }
        Content::Text => {
            const WORDS: &[&str] = &["the ", "quick ", "brown ", "fox ", "jumps ", "over ", "lazy ", "dog ", "zipora ", "\n", "0123 ", "Hello, ", "World! ", "a", "aa ", "abab"];
            while out.len() < len {
                let w = WORDS[r.below(WORDS.len() as u64) as usize];
                out.extend_from_slice(w.as_bytes());
            }
            out.truncate(len);
        }
        Content::Uniform => {
            for _ in 0..len {
                out.push(r.next() as u8);
            }
        }
        Content::Runs => {
            while out.len() < len {
                let b = r.next() as u8;
                let long = r.below(4) == 0;
                let run = 1 + r.below(if long { 300 } else { 12 }) as usize;
                for _ in 0..run {
                    if out.len() < len {
                        out.push(b);
                    }
                }
            }
        }
    }
    out
}

/// A payload described compactly: (class, len, seed) expands deterministically; `raw` payloads
/// carry explicit bytes (proptest-generated, shrinkable per byte).
#[derive(Clone, Debug, Serialize, Deserialize)]
pub enum Payload {
    Gen { content: Content, len: usize, seed: u64 },
    Raw(Bytes),
    /// the inner payload wrapped the way a compressing layer would store it (input preparation
    /// only, never part of an oracle): kind 0 = complete zstd frame, 1 = lz4 block with length
    /// prefix, 2 = zstd frame + one trailing byte, 3 = zstd magic followed by the inner bytes
    Framed { kind: u8, inner: Box<Payload> },
}

impl Payload {
    pub fn bytes(&self) -> Vec<u8> {
        match self {
            Payload::Gen { content, len, seed } => expand(*content, *len, *seed),
            Payload::Raw(b) => b.0.clone(),
            Payload::Framed { kind, inner } => frame(*kind, &inner.bytes()),
        }
    }
    pub fn class(&self) -> String {
        match self {
            Payload::Gen { content, .. } => format!("{:?}", content),
            Payload::Raw(_) => "Raw".to_string(),
            Payload::Framed { kind, .. } => format!("Framed{}", kind % 4),
        }
    }
}

const ZSTD_MAGIC: [u8; 4] = [0x28, 0xB5, 0x2F, 0xFD];

/// `data` as a compressing layer would store it (see `Payload::Framed`).  zipora's own codec
/// wrappers are used as plain tools here; if one refuses, the bytes stay as they are.
pub fn frame(kind: u8, data: &[u8]) -> Vec<u8> {
    use zipora::compression::Compressor;
    let zstd = |d: &[u8]| match std::panic::catch_unwind(|| zipora::compression::ZstdCompressor::new(3).compress(d)) {
        Ok(Ok(z)) => z,
        _ => d.to_vec(),
    };
    match kind % 4 {
        0 => zstd(data),
        1 => match std::panic::catch_unwind(|| zipora::compression::Lz4Compressor.compress(data)) {
            Ok(Ok(z)) => z,
            _ => data.to_vec(),
        },
        2 => {
            let mut z = zstd(data);
            z.push(0x5a);
            z
        }
        _ => {
            let mut z = ZSTD_MAGIC.to_vec();
            z.extend_from_slice(data);
            z
        }
    }
}

/// payloads that are themselves stored forms (complete frames, nearly-frames)
pub fn framed(len: BoxedStrategy<usize>) -> BoxedStrategy<Payload> {
    (
        prop_oneof![4 => Just(0u8), 2 => Just(1u8), 1 => Just(2u8), 1 => Just(3u8)],
        proptest::sample::select(vec![Content::Text, Content::Constant, Content::Runs, Content::Uniform, Content::KSymbol]),
        len,
        any::<u64>(),
    )
        .prop_map(|(kind, content, len, seed)| Payload::Framed { kind, inner: Box::new(Payload::Gen { content, len, seed }) })
        .boxed()
}

/// Payload strategy: lengths from `len`, all content classes plus short raw byte vectors.
pub fn payload(len: BoxedStrategy<usize>, raw_max: usize) -> BoxedStrategy<Payload> {
    prop_oneof![
        8 => (proptest::sample::select(ALL_CONTENT.to_vec()), len, any::<u64>())
            .prop_map(|(content, len, seed)| Payload::Gen { content, len, seed }),
        2 => proptest::collection::vec(any::<u8>(), 0..=raw_max).prop_map(|v| Payload::Raw(Bytes(v))),
        1 => proptest::collection::vec(prop_oneof![Just(0u8), Just(1u8), Just(0x7f), Just(0x80), Just(0xfe), Just(0xff), Just(b'a'), Just(b'b')], 0..=raw_max)
            .prop_map(|v| Payload::Raw(Bytes(v))),
    ]
    .boxed()
}

/// u64 values biased towards 7-bit-group and power-of-two boundaries.
pub fn u64_boundary() -> BoxedStrategy<u64> {
    let mut pts: Vec<u64> = vec![0, 1, 2, u64::MAX, u64::MAX - 1, 1 << 63, (1 << 63) - 1, u32::MAX as u64, u32::MAX as u64 + 1, u16::MAX as u64, 255, 256];
    for k in 1..=9u32 {
        let p = 7 * k;
        if p < 64 {
            pts.push((1u64 << p) - 1);
            pts.push(1u64 << p);
            pts.push((1u64 << p) + 1);
        }
    }
    prop_oneof![
        4 => proptest::sample::select(pts),
        2 => any::<u64>(),
        2 => (0u32..64, any::<u64>()).prop_map(|(s, v)| v >> s),
        1 => 0u64..300,
    ]
    .boxed()
}

pub fn i64_boundary() -> BoxedStrategy<i64> {
    prop_oneof![
        3 => u64_boundary().prop_map(|v| v as i64),
        2 => u64_boundary().prop_map(|v| (v as i64).wrapping_neg()),
        1 => proptest::sample::select(vec![i64::MIN, i64::MAX, -1, 0, 1, i64::MIN + 1, -64, -65, 63, 64]),
        1 => -300i64..300,
    ]
    .boxed()
}
