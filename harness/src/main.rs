//! verif — property-based-testing harness for the 20 zipora properties (see /verif/DESIGN.md)
#![allow(clippy::all)]
#![allow(dead_code)]

mod engine;
mod gen;
mod props;
mod sched;

use engine::{supervisor, Tier};
use std::path::PathBuf;

#[global_allocator]
static ALLOC: engine::alloc::Counting = engine::alloc::Counting;

fn usage() -> ! {
    eprintln!("usage: verif check <Cxx> [--tier quick|thorough] [--cell GLOB] [--scale F]\n       verif replay <Cxx> <file> [--flavour A|B]\n       verif worker\n       verif list");
    std::process::exit(2)
}

fn main() {
    let args: Vec<String> = std::env::args().collect();
    if args.len() < 2 {
        usage();
    }
    let root = PathBuf::from(std::env::var("VERIF_ROOT").unwrap_or_else(|_| "/verif".into()));
    match args[1].as_str() {
        "worker" => std::process::exit(engine::worker::worker_main()),
        "list" => {
            for p in props::all() {
                println!("{}", p.id());
            }
        }
        "check" => {
            let id = args.get(2).cloned().unwrap_or_else(|| usage());
            let mut tier = match std::env::var("VERIF_TIER").as_deref() {
                Ok("thorough") => Tier::Thorough,
                _ => Tier::Quick,
            };
            let mut only_cell = None;
            let mut scale = 1.0;
            let mut i = 3;
            while i < args.len() {
                match args[i].as_str() {
                    "--tier" => {
                        tier = if args.get(i + 1).map(|s| s.as_str()) == Some("thorough") { Tier::Thorough } else { Tier::Quick };
                        i += 1;
                    }
                    "quick" => tier = Tier::Quick,
                    "thorough" => tier = Tier::Thorough,
                    "--cell" => {
                        only_cell = args.get(i + 1).cloned();
                        i += 1;
                    }
                    "--scale" => {
                        scale = args.get(i + 1).and_then(|s| s.parse().ok()).unwrap_or(1.0);
                        i += 1;
                    }
                    _ => usage(),
                }
                i += 1;
            }
            let seed: u64 = std::env::var("VERIF_SEED").ok().and_then(|s| s.parse::<i64>().ok()).map(|x| x as u64).unwrap_or(0);
            let seed = if seed == 0 { 0x5EED_2026_1001 } else { seed };
            let jobs = std::env::var("VERIF_JOBS")
                .ok()
                .and_then(|s| s.parse().ok())
                .unwrap_or_else(|| std::thread::available_parallelism().map(|n| n.get()).unwrap_or(4).min(16));
            let all = props::all();
            let Some(p) = all.iter().find(|p| p.id() == id) else {
                eprintln!("unknown property {id}");
                std::process::exit(2)
            };
            let opts = supervisor::Opts { tier, seed, root, jobs, only_cell, scale };
            std::process::exit(supervisor::check(p.as_ref(), &opts));
        }
        "replay" => {
            let id = args.get(2).cloned().unwrap_or_else(|| usage());
            let file = PathBuf::from(args.get(3).cloned().unwrap_or_else(|| usage()));
            let flavour = if args.iter().any(|a| a == "B") { 'B' } else { 'A' };
            let all = props::all();
            let Some(p) = all.iter().find(|p| p.id() == id) else {
                eprintln!("unknown property {id}");
                std::process::exit(2)
            };
            std::process::exit(supervisor::replay(p.as_ref(), &root, &file, flavour, Tier::Quick));
        }
        _ => usage(),
    }
}
