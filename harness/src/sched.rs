//! Cooperative scheduler behind `zipora::verif_hooks::yield_point` (hook H1).
//!
//! Exactly one *managed* thread runs at a time.  At every yield point the running thread asks
//! the scheduler which thread runs next; the answer comes from the generated schedule, so an
//! interleaving is part of the case: it shrinks and replays like any other input.  Only
//! sequentially consistent interleavings at the instrumented points are explored.

use serde::{Deserialize, Serialize};
use std::cell::Cell;
use std::sync::{Arc, Condvar, Mutex, OnceLock};

/// site id used by harness-level op boundaries
pub const SITE_OP: u32 = 1;

#[derive(Clone, Debug, Serialize, Deserialize, PartialEq, Eq, Hash)]
pub enum Schedule {
    /// one byte per yield point: < 160 keeps the running thread, otherwise selects one of the
    /// other runnable threads; exhausted => keep running.  Shrinks towards "no preemption".
    Bytes(Vec<u8>),
    /// switch to thread `.1` at global step `.0` (step = index of the yield point in the run)
    Forced(Vec<(u32, u8)>),
}

#[derive(Clone, Debug, Serialize, PartialEq, Eq, Hash)]
pub struct Switch {
    pub step: u32,
    pub site: u32,
    pub from: u8,
    pub to: u8,
}

#[derive(Clone, Debug, Default)]
pub struct RunResult {
    /// (thread, site) for every yield point reached
    pub trace: Vec<(u8, u32)>,
    /// context switches actually taken at yield points (not at thread exit)
    pub switches: Vec<Switch>,
    /// step limit exceeded: threads were released to run freely; result is inconclusive
    pub aborted: bool,
}

#[derive(Clone, Copy, PartialEq)]
enum St {
    Runnable,
    Finished,
}

struct Inner {
    active: bool,
    current: usize,
    status: Vec<St>,
    schedule: Schedule,
    cursor: usize,
    trace: Vec<(u8, u32)>,
    switches: Vec<Switch>,
    aborted: bool,
    step_limit: usize,
    monitor: Option<Arc<dyn Fn(usize, u32) + Send + Sync>>,
}

struct Sched {
    inner: Mutex<Inner>,
    cv: Condvar,
}

static SCHED: OnceLock<Sched> = OnceLock::new();

thread_local! {
    static ME: Cell<Option<usize>> = const { Cell::new(None) };
    static IN_MONITOR: Cell<bool> = const { Cell::new(false) };
}

fn sched() -> &'static Sched {
    SCHED.get_or_init(|| Sched {
        inner: Mutex::new(Inner {
            active: false,
            current: 0,
            status: vec![],
            schedule: Schedule::Bytes(vec![]),
            cursor: 0,
            trace: vec![],
            switches: vec![],
            aborted: false,
            step_limit: 20_000,
            monitor: None,
        }),
        cv: Condvar::new(),
    })
}

fn lowest_runnable(g: &Inner) -> Option<usize> {
    g.status.iter().position(|s| *s == St::Runnable)
}

fn choose(g: &mut Inner, me: usize, step: usize) -> usize {
    let others: Vec<usize> = (0..g.status.len()).filter(|&t| t != me && g.status[t] == St::Runnable).collect();
    if others.is_empty() {
        return me;
    }
    match &g.schedule {
        Schedule::Bytes(b) => {
            let i = g.cursor;
            g.cursor += 1;
            match b.get(i) {
                Some(&v) if v >= 160 => others[((v as usize - 160) * others.len()) / 96],
                _ => me,
            }
        }
        Schedule::Forced(f) => {
            for &(s, t) in f {
                if s as usize == step && (t as usize) != me && g.status.get(t as usize) == Some(&St::Runnable) {
                    return t as usize;
                }
            }
            me
        }
    }
}

/// The callback installed into zipora (`fn(u32)`); also called directly by harness op
/// boundaries.
pub fn on_yield(site: u32) {
    let Some(me) = ME.with(|m| m.get()) else { return };
    if IN_MONITOR.with(|m| m.get()) {
        return;
    }
    let s = sched();
    let mut g = s.inner.lock().unwrap();
    if !g.active || g.aborted {
        return;
    }
    let step = g.trace.len();
    g.trace.push((me as u8, site));
    if g.trace.len() > g.step_limit {
        g.aborted = true;
        s.cv.notify_all();
        return;
    }
    if let Some(mon) = g.monitor.clone() {
        drop(g);
        IN_MONITOR.with(|m| m.set(true));
        mon(me, site);
        IN_MONITOR.with(|m| m.set(false));
        g = s.inner.lock().unwrap();
    }
    let next = choose(&mut g, me, step);
    if next != me {
        g.switches.push(Switch { step: step as u32, site, from: me as u8, to: next as u8 });
        g.current = next;
        s.cv.notify_all();
        while g.current != me && !g.aborted {
            g = s.cv.wait(g).unwrap();
        }
    }
}

fn wait_turn(me: usize) {
    let s = sched();
    let mut g = s.inner.lock().unwrap();
    while g.current != me && !g.aborted {
        g = s.cv.wait(g).unwrap();
    }
}

fn finish(me: usize) {
    let s = sched();
    let mut g = s.inner.lock().unwrap();
    g.status[me] = St::Finished;
    if let Some(n) = lowest_runnable(&g) {
        g.current = n;
    }
    s.cv.notify_all();
}

/// Run the thread bodies under the schedule.  `monitor(thread, site)` is invoked at every yield
/// point while all other managed threads are parked (it must not call instrumented zipora
/// functions).  Thread 0 starts.
pub fn run(programs: Vec<Box<dyn FnOnce() + Send>>, schedule: Schedule, monitor: Option<Arc<dyn Fn(usize, u32) + Send + Sync>>, step_limit: usize) -> RunResult {
    let s = sched();
    {
        let mut g = s.inner.lock().unwrap();
        g.active = true;
        g.current = 0;
        g.status = vec![St::Runnable; programs.len()];
        g.schedule = schedule;
        g.cursor = 0;
        g.trace.clear();
        g.switches.clear();
        g.aborted = false;
        g.step_limit = step_limit;
        g.monitor = monitor;
    }
    zipora::verif_hooks::set_yield_callback(Some(on_yield));
    let mut handles = vec![];
    for (i, f) in programs.into_iter().enumerate() {
        handles.push(
            std::thread::Builder::new()
                .name(format!("sched-{i}"))
                .spawn(move || {
                    ME.with(|m| m.set(Some(i)));
                    wait_turn(i);
                    let _ = crate::engine::try_call(f);
                    finish(i);
                    ME.with(|m| m.set(None));
                })
                .expect("spawn managed thread"),
        );
    }
    for h in handles {
        let _ = h.join();
    }
    zipora::verif_hooks::set_yield_callback(None);
    let mut g = s.inner.lock().unwrap();
    g.active = false;
    g.monitor = None;
    RunResult { trace: std::mem::take(&mut g.trace), switches: std::mem::take(&mut g.switches), aborted: g.aborted }
}

/// Yield at a harness-level operation boundary.
pub fn op_boundary() {
    on_yield(SITE_OP);
}

/// All placements of at most `k` forced switches over a run whose dry-run trace is `trace`
/// (`threads` managed threads): the bounded-exhaustive schedule space.
pub fn enumerate_forced(trace_len: usize, threads: usize, k: usize, cap: usize) -> Vec<Schedule> {
    let mut out = vec![Schedule::Forced(vec![])];
    if k >= 1 {
        'a: for s1 in 0..trace_len {
            for t1 in 0..threads {
                out.push(Schedule::Forced(vec![(s1 as u32, t1 as u8)]));
                if out.len() >= cap {
                    break 'a;
                }
            }
        }
    }
    if k >= 2 {
        // the second switch may happen later than the dry-run length (the first switch lengthens
        // the run), so allow some slack
        let lim = trace_len + trace_len / 2 + 4;
        'b: for s1 in 0..trace_len {
            for t1 in 0..threads {
                for s2 in (s1 + 1)..lim {
                    for t2 in 0..threads {
                        out.push(Schedule::Forced(vec![(s1 as u32, t1 as u8), (s2 as u32, t2 as u8)]));
                        if out.len() >= cap {
                            break 'b;
                        }
                    }
                }
            }
        }
    }
    out
}

/// Run the thread bodies on real, unmanaged OS threads that are released together by a barrier:
/// the operating system picks the interleaving (true parallelism on the host's cores).  Nothing
/// is recorded and nothing is controlled; the caller repeats the run to widen the race windows.
/// Complements `run`: a race window that contains no instrumented yield point (for example one
/// introduced between two lock acquisitions) is invisible to the cooperative scheduler.
pub fn run_free(programs: Vec<Box<dyn FnOnce() + Send>>) {
    zipora::verif_hooks::set_yield_callback(None);
    let barrier = Arc::new(std::sync::Barrier::new(programs.len()));
    let mut handles = vec![];
    for (i, f) in programs.into_iter().enumerate() {
        let b = barrier.clone();
        handles.push(
            std::thread::Builder::new()
                .name(format!("free-{i}"))
                .spawn(move || {
                    b.wait();
                    let _ = crate::engine::try_call(f);
                })
                .expect("spawn thread"),
        );
    }
    for h in handles {
        let _ = h.join();
    }
}
