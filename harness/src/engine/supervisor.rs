//! Supervisor: owns generation (proptest), shrinking, known-finding classification, evidence
//! and the exit status.  Never calls zipora itself; every case is executed by a worker child.

use super::known::KnownFile;
use super::{fnv, mix, Discrepancy, Outcome, Prop, Tier};
use proptest::test_runner::{Config, RngAlgorithm, TestCaseError, TestError, TestRng, TestRunner};
use serde_json::{json, Value};
use std::collections::{BTreeMap, HashSet};
use std::io::{BufRead, BufReader, Write};
use std::os::unix::io::AsRawFd;
use std::os::unix::process::ExitStatusExt;
use std::path::{Path, PathBuf};
use std::process::{Child, ChildStdin, ChildStdout, Command, Stdio};
use std::sync::atomic::{AtomicUsize, Ordering};
use std::sync::Mutex;
use std::time::Instant;

pub struct Opts {
    pub tier: Tier,
    pub seed: u64,
    pub root: PathBuf,
    pub jobs: usize,
    /// only run plans whose cell matches this glob (debugging aid; not used by registered commands)
    pub only_cell: Option<String>,
    /// scale factor on case counts (debugging aid)
    pub scale: f64,
}

pub enum Exec {
    Done(Outcome),
    Crash { class: String, tail: String },
    Hang,
}

pub struct Worker {
    child: Child,
    stdin: ChildStdin,
    stdout: BufReader<ChildStdout>,
    log: PathBuf,
    pub flavour: char,
    served: usize,
}

fn worker_b_path(root: &Path) -> Option<PathBuf> {
    if let Ok(p) = std::env::var("VERIF_WORKER_B") {
        if p.is_empty() || p == "none" {
            return None;
        }
        return Some(PathBuf::from(p));
    }
    let p = root.join("harness/target-asan/x86_64-unknown-linux-gnu/release/verif");
    if p.exists() {
        Some(p)
    } else {
        None
    }
}

impl Worker {
    pub fn spawn(root: &Path, run_dir: &Path, flavour: char, slot: usize) -> Option<Worker> {
        Self::spawn_capped(root, run_dir, flavour, slot, None)
    }

    pub fn spawn_capped(root: &Path, run_dir: &Path, flavour: char, slot: usize, cap: Option<&str>) -> Option<Worker> {
        let exe = match flavour {
            'A' => std::env::current_exe().ok()?,
            _ => worker_b_path(root)?,
        };
        let capn = cap.unwrap_or("native");
        let log = run_dir.join(format!("worker-{flavour}-{capn}-{slot}.log"));
        let scratch = run_dir.join(format!("scratch-{flavour}-{capn}-{slot}"));
        let mut cmd = Command::new(exe);
        cmd.arg("worker")
            .env("VERIF_WORKER_LOG", &log)
            .env("VERIF_WORKER_SCRATCH", &scratch)
            .env("RUST_BACKTRACE", "0")
            .env("ASAN_SYMBOLIZER_PATH", "/usr/bin/llvm-symbolizer-14")
            .env("VERIF_FLAVOUR", flavour.to_string())
            .env("ZIPORA_VERIF_TIER_CAP", capn)
            .env(
                "ASAN_OPTIONS",
                "detect_leaks=0:abort_on_error=1:allocator_may_return_null=1:max_allocation_size_mb=3072:detect_stack_use_after_return=0:symbolize=1",
            )
            .stdin(Stdio::piped())
            .stdout(Stdio::piped())
            .stderr(Stdio::null());
        let mut child = cmd.spawn().ok()?;
        let stdin = child.stdin.take()?;
        let stdout = BufReader::new(child.stdout.take()?);
        Some(Worker { child, stdin, stdout, log, flavour, served: 0 })
    }

    fn cpu_ticks(&self) -> u64 {
        let s = match std::fs::read_to_string(format!("/proc/{}/stat", self.child.id())) {
            Ok(s) => s,
            Err(_) => return 0,
        };
        let rest = match s.rfind(')') {
            Some(i) => &s[i + 1..],
            None => return 0,
        };
        let f: Vec<&str> = rest.split_whitespace().collect();
        // after ") ": state=0 ... utime=11 stime=12
        let u: u64 = f.get(11).and_then(|x| x.parse().ok()).unwrap_or(0);
        let k: u64 = f.get(12).and_then(|x| x.parse().ok()).unwrap_or(0);
        u + k
    }

    fn log_tail(&self) -> String {
        let data = std::fs::read(&self.log).unwrap_or_default();
        let start = data.len().saturating_sub(60_000);
        String::from_utf8_lossy(&data[start..]).to_string()
    }

    fn kill(&mut self) {
        let _ = self.child.kill();
        let _ = self.child.wait();
    }

    /// Execute one case. `budget_s` = CPU seconds allowed.
    pub fn exec(&mut self, prop: &str, tier: Tier, case: &Value, budget_s: u64) -> Exec {
        let req = json!({"prop": prop, "tier": tier.name(), "case": case});
        let mut s = serde_json::to_string(&req).unwrap();
        s.push('\n');
        if self.stdin.write_all(s.as_bytes()).is_err() || self.stdin.flush().is_err() {
            return self.crashed();
        }
        self.served += 1;
        let t0 = Instant::now();
        let cpu0 = self.cpu_ticks();
        let tck = unsafe { libc::sysconf(libc::_SC_CLK_TCK) }.max(1) as u64;
        let fd = self.stdout.get_ref().as_raw_fd();
        let mut last_ticks = 0u64;
        let mut last_progress = Instant::now();
        loop {
            if self.stdout.buffer().is_empty() {
                let mut pfd = libc::pollfd { fd, events: libc::POLLIN, revents: 0 };
                let r = unsafe { libc::poll(&mut pfd, 1, 250) };
                if r == 0 {
                    let ticks = self.cpu_ticks().saturating_sub(cpu0);
                    let cpu = ticks / tck;
                    let wall = t0.elapsed().as_secs();
                    // no CPU progress at all for a long wall-clock stretch = blocked (deadlock,
                    // lost wake-up): the CPU budget would never run out
                    if ticks != last_ticks {
                        last_ticks = ticks;
                        last_progress = Instant::now();
                    }
                    let stalled = last_progress.elapsed().as_secs() > 45;
                    if cpu > budget_s || wall > budget_s * 6 + 60 || stalled {
                        self.kill();
                        return Exec::Hang;
                    }
                    continue;
                }
            }
            let mut line = String::new();
            match self.stdout.read_line(&mut line) {
                Ok(0) | Err(_) => return self.crashed(),
                Ok(_) => {
                    return match serde_json::from_str::<Outcome>(&line) {
                        Ok(o) => Exec::Done(o),
                        Err(_) => self.crashed(),
                    }
                }
            }
        }
    }

    fn crashed(&mut self) -> Exec {
        // the worker normally is already dead (EOF on its pipe); if it is still alive (it sent
        // garbage, e.g. after memory corruption) give it a moment and then kill it
        let mut status = None;
        for _ in 0..100 {
            match self.child.try_wait() {
                Ok(Some(st)) => {
                    status = Some(st);
                    break;
                }
                Ok(None) => std::thread::sleep(std::time::Duration::from_millis(10)),
                Err(_) => break,
            }
        }
        if status.is_none() {
            let _ = self.child.kill();
            status = self.child.wait().ok();
        }
        let tail = self.log_tail();
        let sig = status.and_then(|s| s.signal());
        let mut class = match sig {
            Some(libc::SIGSEGV) => "SIGSEGV".to_string(),
            Some(libc::SIGBUS) => "SIGBUS".to_string(),
            Some(libc::SIGABRT) => "SIGABRT".to_string(),
            Some(libc::SIGILL) => "SIGILL".to_string(),
            Some(libc::SIGFPE) => "SIGFPE".to_string(),
            Some(libc::SIGKILL) => "SIGKILL".to_string(),
            Some(n) => format!("signal{n}"),
            None => format!("exit{}", status.and_then(|s| s.code()).unwrap_or(-1)),
        };
        let mut detail_from = tail.len().saturating_sub(1500);
        if let Some(i) = tail.find("AddressSanitizer: ") {
            let rest = &tail[i + 18..];
            let kind: String = rest.chars().take_while(|c| !c.is_whitespace()).collect();
            // first stack frame inside zipora (symbolised), digits/hashes normalised away
            let mut frame = String::new();
            for line in rest.lines().take(40) {
                let l = line.trim_start();
                if l.starts_with('#') {
                    if let Some(p) = l.find(" in ") {
                        let f = l[p + 4..].split_whitespace().next().unwrap_or("");
                        if f.contains("zipora") {
                            let f = f.split("::h").next().unwrap_or(f);
                            frame = f.chars().filter(|c| !c.is_ascii_digit()).take(90).collect();
                            break;
                        }
                    }
                }
            }
            class = if frame.is_empty() { format!("asan:{kind}") } else { format!("asan:{kind}:{frame}") };
            detail_from = tail[..i].rfind('\n').map(|x| x + 1).unwrap_or(0);
        } else if tail.contains("memory allocation of") && tail.contains("failed") {
            class = "alloc_refused".to_string();
        } else if tail.contains("stack overflow") || tail.contains("has overflowed its stack") {
            class = "stack_overflow".to_string();
        } else if tail.contains("panic in a function that cannot unwind") || tail.contains("panic in a destructor") {
            class = format!("{class}:nounwind_panic");
        }
        while !tail.is_char_boundary(detail_from) {
            detail_from += 1;
        }
        Exec::Crash { class, tail: super::clip(&tail[detail_from..], 1800) }
    }
}

impl Drop for Worker {
    fn drop(&mut self) {
        self.kill();
    }
}

#[derive(Default)]
struct CellStat {
    cases: u64,
    nontrivial: u64,
    known_hits: u64,
    skipped: u64,
    checks: u64,
}

#[derive(Default)]
struct Stats {
    evaluations: u64,
    evaluations_b: u64,
    skipped: u64,
    checks: u64,
    distinct: HashSet<u64>,
    labels: BTreeMap<String, u64>,
    cells: BTreeMap<String, CellStat>,
    known_hits: BTreeMap<usize, (u64, String)>,
    samples: Vec<Value>,
    crashes: u64,
    watchdog_hits: u64,
    unreproduced: u64,
    replayed_files: u64,
    enumerated: u64,
    sub_executions: u64,
    by_cap: BTreeMap<String, u64>,
    violations: Vec<Violation>,
}

#[derive(Clone)]
pub struct Violation {
    pub sig: String,
    pub disc: Discrepancy,
    pub case: Value,
    pub flavour: char,
    pub source: String,
}

pub struct Session<'a> {
    pub prop: &'a dyn Prop,
    pub opts: &'a Opts,
    pub known: KnownFile,
    pub run_dir: PathBuf,
    stats: Mutex<Stats>,
}

fn full_sig(d: &Discrepancy, flavour: char, cap: Option<&str>) -> String {
    match cap {
        Some(c) => format!("{}@{}+{}", d.signature(), flavour, c),
        None => format!("{}@{}", d.signature(), flavour),
    }
}

impl<'a> Session<'a> {
    /// Execute a case, converting crashes / hangs into discrepancies.  Restarts the worker
    /// when it died.
    fn exec(&self, w: &mut Option<Worker>, flavour: char, slot: usize, case: &Value) -> Option<Outcome> {
        self.exec_capped(w, flavour, slot, case, None)
    }

    fn exec_capped(&self, w: &mut Option<Worker>, flavour: char, slot: usize, case: &Value, cap: Option<&str>) -> Option<Outcome> {
        if w.as_ref().map(|x| x.served > 4000).unwrap_or(false) {
            *w = None; // recycle: bounds state leaking between cases
        }
        if w.is_none() {
            *w = Worker::spawn_capped(&self.opts.root, &self.run_dir, flavour, slot, cap);
        }
        let worker = w.as_mut()?;
        let budget = self.prop.cpu_budget_s();
        let cell = case["cell"].as_str().unwrap_or("?").to_string();
        match worker.exec(self.prop.id(), self.opts.tier, case, budget) {
            Exec::Done(o) => Some(o),
            Exec::Crash { class, tail } => {
                *w = None;
                self.stats.lock().unwrap().crashes += 1;
                let kind = if class == "alloc_refused" { "alloc" } else { "crash" };
                Some(Outcome {
                    nontrivial: true,
                    discrepancies: vec![Discrepancy {
                        cell,
                        aspect: "exec".into(),
                        kind: kind.into(),
                        class,
                        detail: tail,
                    }],
                    ..Default::default()
                })
            }
            Exec::Hang => {
                *w = None;
                // confirm alone in a fresh worker with 4x the budget
                let mut fresh = Worker::spawn_capped(&self.opts.root, &self.run_dir, flavour, slot + 1000, cap)?;
                match fresh.exec(self.prop.id(), self.opts.tier, case, budget * 4) {
                    Exec::Done(o) => {
                        self.stats.lock().unwrap().watchdog_hits += 1;
                        Some(o)
                    }
                    Exec::Crash { class, tail } => Some(Outcome {
                        nontrivial: true,
                        discrepancies: vec![Discrepancy {
                            cell,
                            aspect: "exec".into(),
                            kind: "crash".into(),
                            class,
                            detail: tail,
                        }],
                        ..Default::default()
                    }),
                    Exec::Hang => Some(Outcome {
                        nontrivial: true,
                        discrepancies: vec![Discrepancy {
                            cell,
                            aspect: "exec".into(),
                            kind: "hang".into(),
                            class: String::new(),
                            detail: format!("no answer within {} CPU-s (confirmed in a fresh worker)", budget * 4),
                        }],
                        ..Default::default()
                    }),
                }
            }
        }
    }

    /// Split an outcome into known hits and unknown discrepancies; update statistics if `count`.
    fn digest(&self, case: &Value, out: &Outcome, flavour: char, count: bool, cap: Option<&str>) -> Vec<Discrepancy> {
        let mut unknown = vec![];
        let mut st = self.stats.lock().unwrap();
        let cell = case["cell"].as_str().unwrap_or("?").to_string();
        if count {
            st.evaluations += 1;
            *st.by_cap.entry(cap.unwrap_or("native").to_string()).or_default() += 1;
            if flavour == 'B' {
                st.evaluations_b += 1;
            }
            st.checks += out.checks;
            let cs = st.cells.entry(cell.clone()).or_default();
            cs.cases += 1;
            cs.checks += out.checks;
            if out.skipped.is_some() {
                cs.skipped += 1;
                st.skipped += 1;
            }
            st.evaluations += out.extra_evals;
            st.sub_executions += out.extra_evals;
            for k in &out.extra_keys {
                st.distinct.insert(*k);
            }
            if out.nontrivial && out.skipped.is_none() {
                st.cells.get_mut(&cell).unwrap().nontrivial += 1;
                let s = serde_json::to_string(case).unwrap();
                let h = out.key.unwrap_or_else(|| fnv(s.as_bytes()));
                if st.distinct.insert(h) && st.samples.len() < 4 && s.len() < 2500 {
                    st.samples.push(case.clone());
                }
            }
            for l in &out.labels {
                *st.labels.entry(l.clone()).or_default() += 1;
            }
        }
        for d in &out.discrepancies {
            let fs = full_sig(d, flavour, cap);
            match self.known.matches(self.prop.id(), &fs) {
                Some(i) => {
                    if count {
                        let e = st.known_hits.entry(i).or_insert((0, String::new()));
                        e.0 += 1;
                        if e.1.is_empty() {
                            e.1 = fs.clone();
                        }
                        st.cells.entry(cell.clone()).or_default().known_hits += 1;
                    }
                }
                None => unknown.push(d.clone()),
            }
        }
        unknown
    }

    fn record_violation(&self, v: Violation) {
        let mut st = self.stats.lock().unwrap();
        if !st.violations.iter().any(|x| x.sig == v.sig) {
            st.violations.push(v);
        }
    }

    /// Confirm a failing case in a fresh worker, then record it.
    fn confirm_and_record(&self, case: &Value, flavour: char, target_sig: &str, source: &str, slot: usize, cap: Option<&str>) {
        let mut fresh: Option<Worker> = None;
        let out = self.exec_capped(&mut fresh, flavour, slot + 2000, case, cap);
        let mut found = None;
        if let Some(o) = out {
            for d in self.digest(case, &o, flavour, false, cap) {
                if full_sig(&d, flavour, cap) == target_sig {
                    found = Some(d);
                    break;
                } else if found.is_none() {
                    found = Some(d);
                }
            }
        }
        match found {
            Some(d) => {
                let sig = full_sig(&d, flavour, cap);
                self.record_violation(Violation { sig, disc: d, case: case.clone(), flavour, source: source.into() });
            }
            None => {
                let mut st = self.stats.lock().unwrap();
                st.unreproduced += 1;
                eprintln!("UNREPRODUCED {} {} (failed in a long-lived worker, passed in a fresh one)", self.prop.id(), target_sig);
            }
        }
    }
}

struct Unit {
    plan: usize,
    cap: Option<String>,
    flavour: char,
    cases: usize,
    seed: u64,
}

pub fn check(prop: &dyn Prop, opts: &Opts) -> i32 {
    let t0 = Instant::now();
    let id = prop.id();
    let run_dir = opts.root.join("run").join(format!("{}-{}", id, std::process::id()));
    let _ = std::fs::remove_dir_all(&run_dir);
    std::fs::create_dir_all(&run_dir).expect("run dir");
    let known = super::known::load(&opts.root);
    let sess = Session { prop, opts, known, run_dir: run_dir.clone(), stats: Mutex::new(Stats::default()) };
    let have_b = worker_b_path(&opts.root).is_some();

    // ---- 1. replay tier: committed corpus + earlier replays --------------------------------
    let mut files: Vec<PathBuf> = vec![];
    for sub in ["corpus", "replays"] {
        if let Ok(rd) = std::fs::read_dir(opts.root.join(sub).join(id)) {
            for e in rd.flatten() {
                if e.path().extension().map(|x| x == "json").unwrap_or(false) {
                    files.push(e.path());
                }
            }
        }
    }
    files.sort();
    {
        let mut wa: Option<Worker> = None;
        let mut wb: Option<Worker> = None;
        for f in &files {
            let Ok(txt) = std::fs::read_to_string(f) else { continue };
            let Ok(v) = serde_json::from_str::<Value>(&txt) else {
                eprintln!("warning: unreadable replay file {}", f.display());
                continue;
            };
            let case = if v.get("case").is_some() { v["case"].clone() } else { v.clone() };
            let want = v["flavour"].as_str().unwrap_or("A").to_string();
            for fl in ['A', 'B'] {
                if !(want.contains(fl) || want == "both") || (fl == 'B' && !have_b) {
                    continue;
                }
                let w = if fl == 'A' { &mut wa } else { &mut wb };
                if let Some(o) = sess.exec(w, fl, 900, &case) {
                    sess.stats.lock().unwrap().replayed_files += 1;
                    for d in sess.digest(&case, &o, fl, true, None) {
                        let sig = full_sig(&d, fl, None);
                        sess.record_violation(Violation {
                            sig,
                            disc: d,
                            case: case.clone(),
                            flavour: fl,
                            source: format!("replay:{}", f.display()),
                        });
                    }
                }
            }
        }
    }

    // ---- 2. generated search -----------------------------------------------------------------
    let plans0 = prop.plans(opts.tier);
    let mut units: Vec<Unit> = vec![];
    for (pi, p) in plans0.iter().enumerate() {
        if let Some(g) = &opts.only_cell {
            if !super::known::glob_match(g, &p.cell) {
                continue;
            }
        }
        let mut variants: Vec<(char, usize, Option<String>)> = vec![('A', p.cases, p.cap.clone()), ('B', p.cases_b, p.cap.clone())];
        if p.cap.is_none() {
            for (cap, frac) in prop.tier_caps() {
                variants.push(('A', ((p.cases as f64) * frac).ceil() as usize, Some(cap.to_string())));
            }
        }
        for (fl, n, vcap) in variants {
            let n = ((n as f64) * opts.scale).ceil() as usize;
            if n == 0 || (fl == 'B' && !have_b) {
                continue;
            }
            let shards = (n / 40).clamp(1, opts.jobs.max(1));
            for s in 0..shards {
                let c = n / shards + if s < n % shards { 1 } else { 0 };
                if c > 0 {
                    units.push(Unit {
                        plan: pi,
                        cap: vcap.clone(),
                        flavour: fl,
                        cases: c,
                        seed: mix(mix(opts.seed, fnv(id.as_bytes())), mix(fnv(p.cell.as_bytes()) ^ fnv(vcap.clone().unwrap_or_default().as_bytes()), (s as u64) << 8 | fl as u64)),
                    });
                }
            }
        }
    }
    drop(plans0);
    // interleave cells so that a slow cell does not serialise at the end
    let enumerated = prop.enumerated(opts.tier);
    let next = AtomicUsize::new(0);
    let next_enum = AtomicUsize::new(0);
    let stop = std::sync::atomic::AtomicBool::new(false);
    std::thread::scope(|sc| {
        for slot in 0..opts.jobs {
            let sess = &sess;
            let units = &units;
            let next = &next;
            let next_enum = &next_enum;
            let enumerated = &enumerated;
            let stop = &stop;
            sc.spawn(move || {
                let plans = sess.prop.plans(sess.opts.tier);
                let mut wa: Option<Worker> = None;
                let mut capped: std::collections::HashMap<(char, String), Option<Worker>> = std::collections::HashMap::new();
                loop {
                    let ui = next.fetch_add(1, Ordering::SeqCst);
                    if ui >= units.len() {
                        break;
                    }
                    let u = &units[ui];
                    let plan = &plans[u.plan];
                    let mut seed_bytes = [0u8; 32];
                    for i in 0..4 {
                        seed_bytes[i * 8..i * 8 + 8].copy_from_slice(&mix(u.seed, i as u64).to_le_bytes());
                    }
                    let cfg = Config {
                        cases: u.cases as u32,
                        failure_persistence: None,
                        max_shrink_iters: if sess.opts.tier == Tier::Quick { 1200 } else { 4000 },
                        max_shrink_time: 180_000,
                        max_global_rejects: 100_000,
                        ..Config::default()
                    };
                    let mut runner = TestRunner::new_with_rng(cfg, TestRng::from_seed(RngAlgorithm::ChaCha, &seed_bytes));
                    let failed: std::cell::RefCell<Option<String>> = std::cell::RefCell::new(None);
                    let capname = u.cap.clone().unwrap_or_else(|| "native".to_string());
                    let w = if u.flavour == 'A' && u.cap.is_none() { &mut wa } else { capped.entry((u.flavour, capname)).or_insert(None) };
                    let wcell = std::cell::RefCell::new(w);
                    let res = runner.run(&plan.strategy, |case| {
                        let shrinking = failed.borrow().is_some();
                        let mut wref = wcell.borrow_mut();
                        let out = match sess.exec_capped(&mut **wref, u.flavour, slot, &case, u.cap.as_deref()) {
                            Some(o) => o,
                            None => return Ok(()),
                        };
                        let unknown = sess.digest(&case, &out, u.flavour, !shrinking, u.cap.as_deref());
                        if unknown.is_empty() {
                            return Ok(());
                        }
                        if shrinking {
                            let target = failed.borrow().clone().unwrap();
                            if unknown.iter().any(|d| full_sig(d, u.flavour, u.cap.as_deref()) == target) {
                                Err(TestCaseError::fail(target))
                            } else {
                                Ok(())
                            }
                        } else {
                            let sig = full_sig(&unknown[0], u.flavour, u.cap.as_deref());
                            *failed.borrow_mut() = Some(sig.clone());
                            Err(TestCaseError::fail(sig))
                        }
                    });
                    if let Err(TestError::Fail(_, minimal)) = res {
                        let target = failed.borrow().clone().unwrap_or_default();
                        sess.confirm_and_record(&minimal, u.flavour, &target, "generated", slot, u.cap.as_deref());
                    } else if let Err(TestError::Abort(r)) = res {
                        eprintln!("warning: proptest aborted unit {}: {}", plan.cell, r);
                    }
                    if stop.load(Ordering::Relaxed) {
                        break;
                    }
                }
                // enumerated (bounded-exhaustive) cases
                loop {
                    let ei = next_enum.fetch_add(1, Ordering::SeqCst);
                    if ei >= enumerated.len() {
                        break;
                    }
                    let case = &enumerated[ei];
                    if let Some(g) = &sess.opts.only_cell {
                        if !super::known::glob_match(g, case["cell"].as_str().unwrap_or("?")) {
                            continue;
                        }
                    }
                    if let Some(o) = sess.exec(&mut wa, 'A', slot, case) {
                        sess.stats.lock().unwrap().enumerated += 1;
                        let unknown = sess.digest(case, &o, 'A', true, None);
                        if let Some(d) = unknown.first() {
                            let sig = full_sig(d, 'A', None);
                            sess.confirm_and_record(case, 'A', &sig, "enumerated", slot, None);
                        }
                    }
                }
            });
        }
    });

    // ---- 3. report ---------------------------------------------------------------------------
    let st = sess.stats.into_inner().unwrap();
    let wall = t0.elapsed().as_secs_f64();
    for (i, f) in sess.known.findings.iter().enumerate() {
        if f.property != id || f.status != "known" {
            continue;
        }
        let hits = st.known_hits.get(&i).map(|x| x.0).unwrap_or(0);
        println!(
            "KNOWN-FINDING: property={} {} -- {} [{}]",
            id,
            f.signature,
            f.what,
            if hits > 0 { format!("reproduced {hits}x in this run") } else { "not hit in this run".to_string() }
        );
    }
    let vdir = opts.root.join("replays").join(id);
    let mut exit = 0;
    for v in &st.violations {
        exit = 1;
        let path = if let Some(p) = v.source.strip_prefix("replay:") {
            PathBuf::from(p)
        } else {
            let _ = std::fs::create_dir_all(&vdir);
            let p = vdir.join(format!("{:016x}.json", fnv(v.sig.as_bytes())));
            let doc = json!({
                "property": id, "signature": v.sig, "flavour": v.flavour.to_string(), "seed": opts.seed,
                "tier": opts.tier.name(), "case": v.case, "discrepancy": v.disc,
            });
            let _ = std::fs::write(&p, serde_json::to_string_pretty(&doc).unwrap());
            p
        };
        println!("VIOLATION property={} replay={}", id, path.display());
        println!("  signature: {}", v.sig);
        println!("  detail: {}", v.disc.detail.replace('\n', "\n    "));
        println!("  case: {}", super::clip(&serde_json::to_string(&v.case).unwrap(), 1500));
    }
    if st.watchdog_hits > 0 {
        println!("NOTE: {} case(s) exceeded the CPU budget once but completed on retry", st.watchdog_hits);
    }
    // evidence
    let mut samples = st.samples.clone();
    if samples.is_empty() {
        samples.push(json!("no non-trivial case small enough to print was generated"));
    }
    let cells: BTreeMap<String, Value> = st
        .cells
        .iter()
        .map(|(k, c)| {
            (
                k.clone(),
                json!({"cases": c.cases, "nontrivial": c.nontrivial, "known_finding_hits": c.known_hits, "skipped": c.skipped, "oracle_comparisons": c.checks}),
            )
        })
        .collect();
    let known_hit: Vec<Value> = st
        .known_hits
        .iter()
        .map(|(i, (n, ex))| json!({"signature": sess.known.findings[*i].signature, "hits": n, "example": ex}))
        .collect();
    let ev = json!({
        "property_id": id,
        "tier": opts.tier.name(),
        "seed": opts.seed as i64,
        "level": prop.level(),
        "coverage": {
            "evaluations": st.evaluations,
            "distinct_nontrivial": st.distinct.len(),
            "rule": prop.rule(),
            "samples": samples,
            "oracle_comparisons": st.checks,
            "evaluations_flavour_b_asan_checked": st.evaluations_b,
            "flavour_b_available": have_b,
            "evaluations_by_cpu_tier_cap": st.by_cap,
            "skipped": st.skipped,
            "labels": st.labels,
            "cells": cells,
            "known_findings_hit": known_hit,
            "crashes": st.crashes,
            "watchdog_hits": st.watchdog_hits,
            "unreproduced": st.unreproduced,
            "replayed_files": st.replayed_files,
            "enumerated_cases": st.enumerated,
            "sub_executions_inside_enumerating_cases": st.sub_executions,
            "exhaustive": false,
            "jobs": opts.jobs,
        },
        "assumptions": prop.assumptions(),
        "wall_s": wall,
        "violations": st.violations.len(),
    });
    let evdir = opts.root.join("evidence");
    let _ = std::fs::create_dir_all(&evdir);
    std::fs::write(evdir.join(format!("{id}.json")), serde_json::to_string_pretty(&ev).unwrap()).expect("write evidence");
    println!(
        "{} {}: {} cases ({} flavour B), {} distinct non-trivial, {} oracle comparisons, {} known-finding hits, {} violations, {:.1}s",
        id,
        opts.tier.name(),
        st.evaluations,
        st.evaluations_b,
        st.distinct.len(),
        st.checks,
        st.known_hits.values().map(|x| x.0).sum::<u64>(),
        st.violations.len(),
        wall
    );
    let _ = std::fs::remove_dir_all(&run_dir);
    exit
}

/// `verif replay <id> <file> [--flavour A|B]`: plain deserialise-and-run, strict (known findings
/// are reported too).
pub fn replay(prop: &dyn Prop, root: &Path, file: &Path, flavour: char, tier: Tier) -> i32 {
    let txt = std::fs::read_to_string(file).expect("read replay file");
    let v: Value = serde_json::from_str(&txt).expect("replay file is JSON");
    let case = if v.get("case").is_some() { v["case"].clone() } else { v.clone() };
    let run_dir = root.join("run").join(format!("replay-{}", std::process::id()));
    std::fs::create_dir_all(&run_dir).unwrap();
    let mut w = Worker::spawn(root, &run_dir, flavour, 0).expect("spawn worker");
    let r = w.exec(prop.id(), tier, &case, prop.cpu_budget_s() * 4);
    let code = match r {
        Exec::Done(o) => {
            println!("{}", serde_json::to_string_pretty(&o).unwrap());
            if o.discrepancies.is_empty() {
                0
            } else {
                for d in &o.discrepancies {
                    println!("DISCREPANCY {}@{}", d.signature(), flavour);
                }
                1
            }
        }
        Exec::Crash { class, tail } => {
            println!("CRASH {class}\n{tail}");
            1
        }
        Exec::Hang => {
            println!("HANG");
            1
        }
    };
    drop(w);
    let _ = std::fs::remove_dir_all(&run_dir);
    code
}
