//! Counting global allocator: tracks live bytes / peak, and refuses single requests above a
//! cap (returns null => Rust aborts deterministically with "memory allocation of N bytes
//! failed", which the supervisor classifies as kind `alloc`).

use std::alloc::{GlobalAlloc, Layout, System};
use std::sync::atomic::{AtomicUsize, Ordering::Relaxed};

pub struct Counting;

static LIVE: AtomicUsize = AtomicUsize::new(0);
static PEAK: AtomicUsize = AtomicUsize::new(0);
static BIGGEST: AtomicUsize = AtomicUsize::new(0);
static CAP_SINGLE: AtomicUsize = AtomicUsize::new(usize::MAX);
static CAP_LIVE: AtomicUsize = AtomicUsize::new(usize::MAX);

unsafe impl GlobalAlloc for Counting {
    unsafe fn alloc(&self, l: Layout) -> *mut u8 {
        let sz = l.size();
        if sz > CAP_SINGLE.load(Relaxed) || LIVE.load(Relaxed).saturating_add(sz) > CAP_LIVE.load(Relaxed) {
            BIGGEST.fetch_max(sz, Relaxed);
            return std::ptr::null_mut();
        }
        let p = System.alloc(l);
        if !p.is_null() {
            note_alloc(sz);
        }
        p
    }
    unsafe fn alloc_zeroed(&self, l: Layout) -> *mut u8 {
        let sz = l.size();
        if sz > CAP_SINGLE.load(Relaxed) || LIVE.load(Relaxed).saturating_add(sz) > CAP_LIVE.load(Relaxed) {
            BIGGEST.fetch_max(sz, Relaxed);
            return std::ptr::null_mut();
        }
        let p = System.alloc_zeroed(l);
        if !p.is_null() {
            note_alloc(sz);
        }
        p
    }
    unsafe fn dealloc(&self, p: *mut u8, l: Layout) {
        LIVE.fetch_sub(l.size(), Relaxed);
        System.dealloc(p, l)
    }
    unsafe fn realloc(&self, p: *mut u8, l: Layout, new: usize) -> *mut u8 {
        if new > l.size() {
            let extra = new - l.size();
            if new > CAP_SINGLE.load(Relaxed) || LIVE.load(Relaxed).saturating_add(extra) > CAP_LIVE.load(Relaxed) {
                BIGGEST.fetch_max(new, Relaxed);
                return std::ptr::null_mut();
            }
        }
        let q = System.realloc(p, l, new);
        if !q.is_null() {
            if new >= l.size() {
                note_alloc(new - l.size());
            } else {
                LIVE.fetch_sub(l.size() - new, Relaxed);
            }
        }
        q
    }
}

#[inline]
fn note_alloc(sz: usize) {
    let live = LIVE.fetch_add(sz, Relaxed) + sz;
    PEAK.fetch_max(live, Relaxed);
    BIGGEST.fetch_max(sz, Relaxed);
}

pub fn live() -> usize {
    LIVE.load(Relaxed)
}
pub fn peak() -> usize {
    PEAK.load(Relaxed)
}
pub fn biggest() -> usize {
    BIGGEST.load(Relaxed)
}
/// reset peak / biggest to the current state (start of a measured region)
pub fn reset_marks() {
    PEAK.store(LIVE.load(Relaxed), Relaxed);
    BIGGEST.store(0, Relaxed);
}
pub fn set_caps(single: usize, live: usize) {
    CAP_SINGLE.store(single, Relaxed);
    CAP_LIVE.store(live, Relaxed);
}
pub fn clear_caps() {
    set_caps(usize::MAX, usize::MAX);
}
