//! Worker process: executes cases received as JSON lines on stdin, answers with one Outcome
//! JSON line on the *original* stdout.  fd 1 and fd 2 are redirected to a log file first,
//! because zipora prints from library code.

use super::{install_panic_hook, try_call, Ctx, Outcome, Tier};
use serde_json::Value;
use std::io::{BufRead, Write};
use std::os::unix::io::FromRawFd;

pub fn worker_main() -> i32 {
    let log = std::env::var("VERIF_WORKER_LOG").unwrap_or_else(|_| "/dev/null".into());
    let scratch = std::path::PathBuf::from(
        std::env::var("VERIF_WORKER_SCRATCH").unwrap_or_else(|_| "/verif/run/scratch-default".into()),
    );
    let _ = std::fs::create_dir_all(&scratch);
    let proto_fd = unsafe { libc::dup(1) };
    assert!(proto_fd >= 0);
    unsafe {
        let c = std::ffi::CString::new(log).unwrap();
        let fd = libc::open(c.as_ptr(), libc::O_WRONLY | libc::O_CREAT | libc::O_TRUNC, 0o644);
        if fd >= 0 {
            libc::dup2(fd, 1);
            libc::dup2(fd, 2);
            libc::close(fd);
        }
        // no core dumps
        let lim = libc::rlimit { rlim_cur: 0, rlim_max: 0 };
        libc::setrlimit(libc::RLIMIT_CORE, &lim);
    }
    let mut proto = unsafe { std::fs::File::from_raw_fd(proto_fd) };
    install_panic_hook();
    let stdin = std::io::stdin();
    let mut line = String::new();
    let props = crate::props::all();
    loop {
        line.clear();
        match stdin.lock().read_line(&mut line) {
            Ok(0) | Err(_) => return 0,
            Ok(_) => {}
        }
        let req: Value = match serde_json::from_str(&line) {
            Ok(v) => v,
            Err(e) => {
                eprintln!("worker: bad request: {e}");
                return 3;
            }
        };
        let pid = req["prop"].as_str().unwrap_or("");
        let tier = if req["tier"].as_str() == Some("thorough") { Tier::Thorough } else { Tier::Quick };
        let case = &req["case"];
        let cell = case["cell"].as_str().unwrap_or("?").to_string();
        let out = match props.iter().find(|p| p.id() == pid) {
            None => Outcome { skipped: Some(format!("unknown property {pid}")), ..Default::default() },
            Some(p) => {
                let mut ctx = Ctx::new(cell, tier, scratch.clone());
                // a panic escaping the oracle itself (not wrapped by the property) is reported
                // as a harness-level panic discrepancy so it is never silently lost
                let r = try_call(|| p.run(case, &mut ctx));
                if let Err(pi) = r {
                    let cls = pi.class();
                    ctx.fail("exec", "panic", &cls, format!("{}:{}: {}", pi.file, pi.line, pi.msg));
                }
                super::alloc::clear_caps();
                ctx.out
            }
        };
        let mut s = serde_json::to_string(&out).unwrap();
        s.push('\n');
        if proto.write_all(s.as_bytes()).is_err() || proto.flush().is_err() {
            return 0;
        }
    }
}
