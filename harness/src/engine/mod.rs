//! Engine shared by all properties: case/outcome types, the worker-side oracle context,
//! and the `Prop` trait each property implements.

pub mod alloc;
pub mod known;
pub mod supervisor;
pub mod worker;

use proptest::strategy::BoxedStrategy;
use serde::{Deserialize, Serialize};
use serde_json::Value;
use std::cell::RefCell;
use std::panic::{catch_unwind, AssertUnwindSafe};

#[derive(Clone, Copy, Debug, PartialEq, Eq)]
pub enum Tier {
    Quick,
    Thorough,
}

impl Tier {
    pub fn name(self) -> &'static str {
        match self {
            Tier::Quick => "quick",
            Tier::Thorough => "thorough",
        }
    }
    /// `q` cases in quick, `t` in thorough.
    pub fn pick(self, q: usize, t: usize) -> usize {
        match self {
            Tier::Quick => q,
            Tier::Thorough => t,
        }
    }
}

/// One disagreement between implementation and oracle.
#[derive(Clone, Debug, Serialize, Deserialize)]
pub struct Discrepancy {
    pub cell: String,
    /// which clause of the statement was compared (get, len, roundtrip, consumed, ...)
    pub aspect: String,
    /// mismatch | err | panic | crash | hang | alloc
    pub kind: String,
    /// deterministic input class (may be empty)
    pub class: String,
    pub detail: String,
}

impl Discrepancy {
    pub fn signature(&self) -> String {
        if self.class.is_empty() {
            format!("{}/{}/{}", self.cell, self.aspect, self.kind)
        } else {
            format!("{}/{}/{}/{}", self.cell, self.aspect, self.kind, self.class)
        }
    }
}

/// What the worker reports for one case.
#[derive(Clone, Debug, Default, Serialize, Deserialize)]
pub struct Outcome {
    pub nontrivial: bool,
    pub labels: Vec<String>,
    pub discrepancies: Vec<Discrepancy>,
    pub skipped: Option<String>,
    /// number of individual oracle comparisons made in this case
    pub checks: u64,
    /// optional distinctness key (e.g. hash of programs + *effective* schedule); default = case hash
    #[serde(default)]
    pub key: Option<u64>,
    /// a case that runs many sub-executions (bounded-exhaustive schedule enumeration) reports
    /// how many, and the distinctness keys of the non-trivial ones
    #[serde(default)]
    pub extra_evals: u64,
    #[serde(default)]
    pub extra_keys: Vec<u64>,
}

/// A generation plan: one cell (implementation variant x configuration) of a property.
pub struct Plan {
    pub cell: String,
    /// number of cases for flavour A (release semantics)
    pub cases: usize,
    /// number of cases additionally run under flavour B (checked + ASan); 0 = none
    pub cases_b: usize,
    pub strategy: BoxedStrategy<Value>,
    /// CPU tier cap for the workers that execute this plan (hook H2): None = native,
    /// Some("scalar" | "sse42" | "avx2")
    pub cap: Option<String>,
}

impl Plan {
    pub fn new<S>(cell: &str, cases: usize, cases_b: usize, s: S) -> Plan
    where
        S: proptest::strategy::Strategy + 'static,
        S::Value: Serialize,
    {
        use proptest::strategy::Strategy;
        let cell_s = cell.to_string();
        Plan {
            cell: cell.to_string(),
            cases,
            cases_b,
            strategy: s
                .prop_map(move |c| {
                    let v = serde_json::to_value(&c).expect("case serialises");
                    serde_json::json!({"cell": cell_s.clone(), "c": v})
                })
                .boxed(),
            cap: None,
        }
    }
    /// Run this plan in worker processes whose run-time CPU feature detection is capped.
    pub fn cap(mut self, cap: &str) -> Plan {
        self.cap = Some(cap.to_string());
        self
    }
}

pub trait Prop: Sync + Send {
    fn id(&self) -> &'static str;
    /// evidence level: "exploration" or "fault_enumeration"
    fn level(&self) -> &'static str {
        "exploration"
    }
    /// how cases are generated and what makes one non-trivial
    fn rule(&self) -> &'static str;
    fn assumptions(&self) -> Vec<String> {
        vec![]
    }
    fn plans(&self, tier: Tier) -> Vec<Plan>;
    /// Worker side: execute one case against zipora and the oracle.
    fn run(&self, case: &Value, ctx: &mut Ctx);
    /// per-case CPU budget in seconds (watchdog)
    fn cpu_budget_s(&self) -> u64 {
        30
    }
    /// is exceeding the CPU budget a violation for this property (C15 hang, C18 stuck)?
    fn hang_is_violation(&self) -> bool {
        false
    }
    /// CPU tier caps (hook H2) under which every plan is additionally run in the release
    /// flavour: (cap, fraction of the plan's cases).  Caps: "scalar", "sse42", "avx2".
    fn tier_caps(&self) -> Vec<(&'static str, f64)> {
        vec![]
    }
    /// Optional extra phase run by the supervisor after the generated search (e.g. bounded
    /// exhaustive enumeration). Returns extra cases to execute.
    fn enumerated(&self, _tier: Tier) -> Vec<Value> {
        vec![]
    }
}

// ---------------------------------------------------------------------------------------
// Worker-side oracle context
// ---------------------------------------------------------------------------------------

#[derive(Clone, Debug)]
pub struct PanicInfo {
    pub file: String,
    pub line: u32,
    pub msg: String,
}

impl PanicInfo {
    /// `panic:<file>:<message with digits normalised>` (line numbers deliberately omitted so
    /// unrelated edits do not change the signature)
    pub fn class(&self) -> String {
        let mut m = String::new();
        let mut last_digit = false;
        for ch in self.msg.chars().take(80) {
            if ch.is_ascii_digit() {
                if !last_digit {
                    m.push('N');
                }
                last_digit = true;
            } else {
                last_digit = false;
                m.push(if ch == '/' { '|' } else { ch });
            }
        }
        let file = self.file.rsplit("/src/").next().unwrap_or(&self.file).to_string();
        format!("panic:{}:{}", file.replace('/', "."), m.trim())
    }
}

thread_local! {
    static LAST_PANIC: RefCell<Option<PanicInfo>> = const { RefCell::new(None) };
}

pub fn install_panic_hook() {
    std::panic::set_hook(Box::new(|info| {
        let (file, line) = info
            .location()
            .map(|l| (l.file().to_string(), l.line()))
            .unwrap_or_default();
        let msg = if let Some(s) = info.payload().downcast_ref::<&str>() {
            s.to_string()
        } else if let Some(s) = info.payload().downcast_ref::<String>() {
            s.clone()
        } else {
            "<non-string panic>".to_string()
        };
        LAST_PANIC.with(|p| *p.borrow_mut() = Some(PanicInfo { file, line, msg }));
    }));
}

/// Run `f`, converting a panic into `Err(PanicInfo)`.
pub fn try_call<R>(f: impl FnOnce() -> R) -> Result<R, PanicInfo> {
    LAST_PANIC.with(|p| *p.borrow_mut() = None);
    match catch_unwind(AssertUnwindSafe(f)) {
        Ok(r) => Ok(r),
        Err(_) => Err(LAST_PANIC.with(|p| p.borrow_mut().take()).unwrap_or(PanicInfo {
            file: "?".into(),
            line: 0,
            msg: "?".into(),
        })),
    }
}

pub struct Ctx {
    pub cell: String,
    pub out: Outcome,
    pub tier: Tier,
    /// scratch directory private to this worker (cleaned per case by users of it)
    pub scratch: std::path::PathBuf,
    /// 'A' = release semantics, 'B' = overflow checks + debug assertions + AddressSanitizer
    pub flavour: char,
    max_disc: usize,
}

impl Ctx {
    pub fn new(cell: String, tier: Tier, scratch: std::path::PathBuf) -> Ctx {
        let flavour = std::env::var("VERIF_FLAVOUR").ok().and_then(|s| s.chars().next()).unwrap_or('A');
        Ctx { cell, out: Outcome::default(), tier, scratch, flavour, max_disc: 12 }
    }
    pub fn label(&mut self, l: impl Into<String>) {
        let l = l.into();
        if !self.out.labels.contains(&l) {
            self.out.labels.push(l);
        }
    }
    pub fn nontrivial(&mut self) {
        self.out.nontrivial = true;
    }
    pub fn skip(&mut self, why: impl Into<String>) {
        self.out.skipped = Some(why.into());
    }
    /// true when enough discrepancies were collected that the oracle may stop early
    pub fn saturated(&self) -> bool {
        self.out.discrepancies.len() >= self.max_disc
    }
    pub fn fail(&mut self, aspect: &str, kind: &str, class: &str, detail: impl Into<String>) {
        let d = Discrepancy {
            cell: self.cell.clone(),
            aspect: aspect.to_string(),
            kind: kind.to_string(),
            class: class.to_string(),
            detail: {
                let mut s: String = detail.into();
                if s.len() > 600 {
                    let mut cut = 600;
                    while !s.is_char_boundary(cut) {
                        cut -= 1;
                    }
                    s.truncate(cut);
                    s.push_str("...");
                }
                s
            },
        };
        let sig = d.signature();
        if self.out.discrepancies.iter().any(|x| x.signature() == sig) {
            return;
        }
        if self.out.discrepancies.len() < self.max_disc {
            self.out.discrepancies.push(d);
        }
    }
    /// Compare; on mismatch record `<aspect>/mismatch/<class>`. Returns true when equal.
    pub fn eq<T: PartialEq + std::fmt::Debug>(&mut self, aspect: &str, class: &str, got: &T, want: &T) -> bool {
        self.out.checks += 1;
        if got == want {
            true
        } else {
            let (g, w) = (format!("{:?}", got), format!("{:?}", want));
            self.fail(aspect, "mismatch", class, format!("got {} want {}", clip(&g, 250), clip(&w, 250)));
            false
        }
    }
    pub fn ensure(&mut self, aspect: &str, class: &str, cond: bool, detail: impl FnOnce() -> String) -> bool {
        self.out.checks += 1;
        if !cond {
            let d = detail();
            self.fail(aspect, "mismatch", class, d);
        }
        cond
    }
    /// Run `f`; a panic is recorded as `<aspect>/panic/<panic class>` and `None` returned.
    pub fn no_panic<R>(&mut self, aspect: &str, f: impl FnOnce() -> R) -> Option<R> {
        match try_call(f) {
            Ok(r) => Some(r),
            Err(p) => {
                let cls = p.class();
                self.fail(aspect, "panic", &cls, format!("{}:{}: {}", p.file, p.line, clip(&p.msg, 300)));
                None
            }
        }
    }
}

pub fn clip(s: &str, n: usize) -> String {
    if s.len() <= n {
        s.to_string()
    } else {
        let mut cut = n;
        while !s.is_char_boundary(cut) {
            cut -= 1;
        }
        format!("{}...(+{})", &s[..cut], s.len() - cut)
    }
}

/// Deserialise a typed case out of the JSON value.
pub fn decode<T: for<'de> Deserialize<'de>>(v: &Value) -> T {
    serde_json::from_value(v["c"].clone()).unwrap_or_else(|e| panic!("case does not deserialise: {e}"))
}

pub fn fnv(bytes: &[u8]) -> u64 {
    let mut h: u64 = 0xcbf29ce484222325;
    for b in bytes {
        h ^= *b as u64;
        h = h.wrapping_mul(0x100000001b3);
    }
    h
}

pub fn mix(a: u64, b: u64) -> u64 {
    let mut x = a ^ b.wrapping_mul(0x9E3779B97F4A7C15).rotate_left(31);
    x ^= x >> 33;
    x = x.wrapping_mul(0xff51afd7ed558ccd);
    x ^= x >> 33;
    x = x.wrapping_mul(0xc4ceb9fe1a85ec53);
    x ^= x >> 33;
    x
}
