//! /verif/known_findings.json: committed list of genuine defects that are recorded rather
//! than repaired ("known") or that were repaired by a `fix:` commit ("fixed"; suppresses
//! nothing).  Never written at run time.

use serde::{Deserialize, Serialize};

#[derive(Clone, Debug, Serialize, Deserialize)]
pub struct Finding {
    pub property: String,
    /// glob over `<cell>/<aspect>/<kind>[/<class>]@<flavour>`; `*` matches any run of chars
    pub signature: String,
    /// "known" | "fixed"
    pub status: String,
    #[serde(default)]
    pub commit: Option<String>,
    pub what: String,
    #[serde(default)]
    pub example: Option<String>,
}

#[derive(Clone, Debug, Default, Serialize, Deserialize)]
pub struct KnownFile {
    pub findings: Vec<Finding>,
}

pub fn load(verif_root: &std::path::Path) -> KnownFile {
    let p = verif_root.join("known_findings.json");
    match std::fs::read_to_string(&p) {
        Ok(s) => serde_json::from_str(&s).unwrap_or_else(|e| panic!("known_findings.json invalid: {e}")),
        Err(_) => KnownFile::default(),
    }
}

pub fn glob_match(pat: &str, s: &str) -> bool {
    // simple `*` glob, iterative with backtracking
    let (p, t): (Vec<char>, Vec<char>) = (pat.chars().collect(), s.chars().collect());
    let (mut pi, mut ti) = (0usize, 0usize);
    let (mut star, mut mark) = (usize::MAX, 0usize);
    while ti < t.len() {
        if pi < p.len() && p[pi] != '*' && p[pi] == t[ti] {
            pi += 1;
            ti += 1;
        } else if pi < p.len() && p[pi] == '*' {
            star = pi;
            mark = ti;
            pi += 1;
        } else if star != usize::MAX {
            pi = star + 1;
            mark += 1;
            ti = mark;
        } else {
            return false;
        }
    }
    while pi < p.len() && p[pi] == '*' {
        pi += 1;
    }
    pi == p.len()
}

impl KnownFile {
    /// index of the `known` entry (for `property`) matching this full signature, if any
    pub fn matches(&self, property: &str, full_sig: &str) -> Option<usize> {
        self.findings.iter().position(|f| {
            f.status == "known" && f.property == property && {
                // a pattern without '@' applies to every flavour
                if f.signature.contains('@') {
                    glob_match(&f.signature, full_sig)
                } else {
                    glob_match(&f.signature, full_sig.split('@').next().unwrap_or(full_sig))
                }
            }
        })
    }
}

#[cfg(test)]
mod tests {
    use super::glob_match;
    #[test]
    fn globs() {
        assert!(glob_match("a*c", "abbbc"));
        assert!(glob_match("fse_*/roundtrip/*", "fse_default/roundtrip/mismatch/len>=100"));
        assert!(!glob_match("a*c", "abbbd"));
        assert!(glob_match("*", ""));
        assert!(!glob_match("abc", "ab"));
    }
}
