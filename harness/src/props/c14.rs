//! C14 — accelerated code paths compute the same function as the scalar definition.
//!
//! Every cell drives the public entry points of one accelerated family (native CPU tier plus
//! every public `scalar_*` twin / forced-implementation constructor the API offers) and
//! compares each answer with a reference written here (byte loops, naive substring search,
//! bitwise CRC32C, table-driven RFC 4648 Base64, `std::str::from_utf8`, bit loops).
//!
//! Placement: every input/output buffer is materialised at a generated alignment 0..63 inside
//! a larger canary-filled allocation (over-writes are detected by the canaries), and in the
//! `*_guard` cells flush against a `PROT_NONE` page (mmap + mprotect in the worker) so that an
//! over-read or over-write faults; the supervisor turns the SIGSEGV into
//! `<cell>/exec/crash/SIGSEGV`.  Guard cases execute exactly one operation so a fault is
//! attributable.

use crate::engine::{decode, Ctx, Plan, Prop, Tier};
use crate::gen::{self, idx, Bytes, Payload, Xs};
use proptest::prelude::*;
use serde::{Deserialize, Serialize};
use serde_json::Value;
use std::cmp::Ordering;

pub struct P;

// ---------------------------------------------------------------------------------------
// placement: alignment inside a canary-filled allocation, or flush against a PROT_NONE page
// ---------------------------------------------------------------------------------------

/// guard: 0 = heap block, data at 64-aligned base + `align`; 1 = data ends exactly where a
/// PROT_NONE page begins; 2 = data begins right after a PROT_NONE page (page aligned).
#[derive(Clone, Copy, Debug, Serialize, Deserialize)]
pub struct Place {
    pub align: u8,
    pub guard: u8,
}

const CANARY: u8 = 0xC7;
const PAGE: usize = 4096;

struct Buf {
    base: *mut u8,
    total: usize,
    guard: u8,
    off: usize,
    len: usize,
}

impl Buf {
    fn alloc(len: usize, p: Place) -> Option<Buf> {
        unsafe {
            if p.guard == 0 {
                let total = 64 + 64 + len + 128;
                let layout = std::alloc::Layout::from_size_align(total, 64).ok()?;
                let base = std::alloc::alloc(layout);
                if base.is_null() {
                    return None;
                }
                std::ptr::write_bytes(base, CANARY, total);
                Some(Buf { base, total, guard: 0, off: 64 + (p.align as usize & 63), len })
            } else {
                let data_pages = len / PAGE + 1;
                let total = (data_pages + 1) * PAGE;
                let base = libc::mmap(
                    std::ptr::null_mut(),
                    total,
                    libc::PROT_READ | libc::PROT_WRITE,
                    libc::MAP_PRIVATE | libc::MAP_ANONYMOUS,
                    -1,
                    0,
                );
                if base == libc::MAP_FAILED {
                    return None;
                }
                let base = base as *mut u8;
                std::ptr::write_bytes(base, CANARY, total);
                let (guard_at, off) = if p.guard == 1 { (total - PAGE, total - PAGE - len) } else { (0, PAGE) };
                if libc::mprotect(base.add(guard_at) as *mut libc::c_void, PAGE, libc::PROT_NONE) != 0 {
                    libc::munmap(base as *mut libc::c_void, total);
                    return None;
                }
                Some(Buf { base, total, guard: p.guard, off, len })
            }
        }
    }
    fn new(data: &[u8], p: Place) -> Option<Buf> {
        let mut b = Buf::alloc(data.len(), p)?;
        b.m().copy_from_slice(data);
        Some(b)
    }
    fn s(&self) -> &[u8] {
        unsafe { std::slice::from_raw_parts(self.base.add(self.off), self.len) }
    }
    fn m(&mut self) -> &mut [u8] {
        unsafe { std::slice::from_raw_parts_mut(self.base.add(self.off), self.len) }
    }
    fn addr(&self) -> usize {
        self.base as usize + self.off
    }
    /// are all bytes of the accessible region outside the data window still the canary?
    fn intact(&self) -> bool {
        let (lo, hi) = match self.guard {
            0 => (0, self.total),
            1 => (0, self.total - PAGE),
            _ => (PAGE, self.total),
        };
        let all = unsafe { std::slice::from_raw_parts(self.base.add(lo), hi - lo) };
        let (ds, de) = (self.off - lo, self.off - lo + self.len);
        all[..ds].iter().all(|&b| b == CANARY) && all[de..].iter().all(|&b| b == CANARY)
    }
}

impl Drop for Buf {
    fn drop(&mut self) {
        unsafe {
            if self.guard == 0 {
                std::alloc::dealloc(self.base, std::alloc::Layout::from_size_align(self.total, 64).unwrap());
            } else {
                libc::munmap(self.base as *mut libc::c_void, self.total);
            }
        }
    }
}

macro_rules! buf {
    ($ctx:expr, $data:expr, $p:expr) => {
        match Buf::new($data, $p) {
            Some(b) => b,
            None => {
                $ctx.skip("cannot allocate placement buffer");
                return;
            }
        }
    };
}
macro_rules! buf_out {
    ($ctx:expr, $len:expr, $p:expr) => {
        match Buf::alloc($len, $p) {
            Some(mut b) => {
                b.m().fill(0x5A);
                b
            }
            None => {
                $ctx.skip("cannot allocate placement buffer");
                return;
            }
        }
    };
}

/// tier cap requested through hook H2 (`ZIPORA_VERIF_TIER_CAP`), `None` = native
fn tier_cap() -> Option<&'static str> {
    match std::env::var("ZIPORA_VERIF_TIER_CAP").as_deref() {
        Ok("scalar") => Some("scalar"),
        Ok("sse42") => Some("sse42"),
        Ok("avx2") => Some("avx2"),
        _ => None,
    }
}

fn want(op: Option<u8>, i: usize) -> bool {
    op.map_or(true, |o| o as usize == i)
}

// ---------------------------------------------------------------------------------------
// references (written for clarity, not speed)
// ---------------------------------------------------------------------------------------

fn ref_find_byte(h: &[u8], c: u8) -> Option<usize> {
    for i in 0..h.len() {
        if h[i] == c {
            return Some(i);
        }
    }
    None
}

fn ref_find_sub(h: &[u8], n: &[u8]) -> Option<usize> {
    if n.len() > h.len() {
        return None;
    }
    'o: for i in 0..=(h.len() - n.len()) {
        for j in 0..n.len() {
            if h[i + j] != n[j] {
                continue 'o;
            }
        }
        return Some(i);
    }
    None
}

fn ref_find_any(h: &[u8], set: &[u8]) -> Option<usize> {
    let mut member = [false; 256];
    for &c in set {
        member[c as usize] = true;
    }
    for i in 0..h.len() {
        if member[h[i] as usize] {
            return Some(i);
        }
    }
    None
}

/// lexicographic order on unsigned bytes, shorter prefix first
fn ref_cmp(a: &[u8], b: &[u8]) -> Ordering {
    let n = a.len().min(b.len());
    for i in 0..n {
        if a[i] != b[i] {
            return if a[i] < b[i] { Ordering::Less } else { Ordering::Greater };
        }
    }
    if a.len() < b.len() {
        Ordering::Less
    } else if a.len() > b.len() {
        Ordering::Greater
    } else {
        Ordering::Equal
    }
}

fn sign(v: i32) -> Ordering {
    if v < 0 {
        Ordering::Less
    } else if v > 0 {
        Ordering::Greater
    } else {
        Ordering::Equal
    }
}

fn ref_common_prefix(a: &[u8], b: &[u8]) -> usize {
    let mut i = 0;
    while i < a.len() && i < b.len() && a[i] == b[i] {
        i += 1;
    }
    i
}

/// bitwise CRC-32C register update, reflected Castagnoli polynomial, no pre/post inversion
fn ref_crc32c_raw(mut crc: u32, data: &[u8]) -> u32 {
    for &b in data {
        crc ^= b as u32;
        for _ in 0..8 {
            crc = if crc & 1 != 0 { (crc >> 1) ^ 0x82F6_3B78 } else { crc >> 1 };
        }
    }
    crc
}

const B64_STD: &[u8; 64] = b"ABCDEFGHIJKLMNOPQRSTUVWXYZabcdefghijklmnopqrstuvwxyz0123456789+/";
const B64_URL: &[u8; 64] = b"ABCDEFGHIJKLMNOPQRSTUVWXYZabcdefghijklmnopqrstuvwxyz0123456789-_";

fn ref_b64_encode(data: &[u8], url: bool, pad: bool) -> String {
    let t = if url { B64_URL } else { B64_STD };
    let mut out = String::new();
    let mut i = 0;
    while i + 3 <= data.len() {
        let v = (data[i] as u32) << 16 | (data[i + 1] as u32) << 8 | data[i + 2] as u32;
        for k in 0..4 {
            out.push(t[((v >> (18 - 6 * k)) & 63) as usize] as char);
        }
        i += 3;
    }
    match data.len() - i {
        1 => {
            let v = (data[i] as u32) << 16;
            out.push(t[((v >> 18) & 63) as usize] as char);
            out.push(t[((v >> 12) & 63) as usize] as char);
            if pad {
                out.push_str("==");
            }
        }
        2 => {
            let v = (data[i] as u32) << 16 | (data[i + 1] as u32) << 8;
            out.push(t[((v >> 18) & 63) as usize] as char);
            out.push(t[((v >> 12) & 63) as usize] as char);
            out.push(t[((v >> 6) & 63) as usize] as char);
            if pad {
                out.push('=');
            }
        }
        _ => {}
    }
    out
}

/// Lenient RFC 4648 decode: trailing '=' stripped, every other byte must be in the alphabet,
/// length mod 4 != 1, trailing bits ignored.  `None` = no decoder may accept this text.
fn ref_b64_decode_lenient(text: &[u8], url: bool) -> Option<Vec<u8>> {
    let t = if url { B64_URL } else { B64_STD };
    let mut end = text.len();
    while end > 0 && text[end - 1] == b'=' {
        end -= 1;
    }
    let body = &text[..end];
    if body.len() % 4 == 1 {
        return None;
    }
    let mut out = vec![];
    let mut acc: u32 = 0;
    let mut bits = 0;
    for &c in body {
        let v = t.iter().position(|&x| x == c)? as u32;
        acc = (acc << 6) | v;
        bits += 6;
        if bits >= 8 {
            bits -= 8;
            out.push((acc >> bits) as u8);
            acc &= (1 << bits) - 1;
        }
    }
    Some(out)
}

/// Is `text` the canonical encoding of something under (alphabet, padding)?
fn ref_b64_is_canonical(text: &[u8], url: bool, pad: bool) -> bool {
    match ref_b64_decode_lenient(text, url) {
        Some(d) => ref_b64_encode(&d, url, pad).as_bytes() == text,
        None => false,
    }
}

fn ref_hex_nibble(c: u8) -> Option<u8> {
    match c {
        b'0'..=b'9' => Some(c - b'0'),
        b'a'..=b'f' => Some(c - b'a' + 10),
        b'A'..=b'F' => Some(c - b'A' + 10),
        _ => None,
    }
}

fn ref_hex_decode(h: &[u8]) -> Option<Vec<u8>> {
    if h.len() % 2 != 0 {
        return None;
    }
    let mut out = vec![];
    for i in 0..h.len() / 2 {
        out.push(ref_hex_nibble(h[2 * i])? << 4 | ref_hex_nibble(h[2 * i + 1])?);
    }
    Some(out)
}

fn ref_hex_encode(d: &[u8], upper: bool) -> Vec<u8> {
    let t: &[u8; 16] = if upper { b"0123456789ABCDEF" } else { b"0123456789abcdef" };
    let mut out = vec![];
    for &b in d {
        out.push(t[(b >> 4) as usize]);
        out.push(t[(b & 15) as usize]);
    }
    out
}

fn ref_popcount(x: u64) -> u32 {
    (0..64).filter(|i| (x >> i) & 1 == 1).count() as u32
}
fn ref_select(x: u64, k: u32, width: u32) -> Option<u32> {
    let mut seen = 0;
    for i in 0..width {
        if (x >> i) & 1 == 1 {
            if seen == k {
                return Some(i);
            }
            seen += 1;
        }
    }
    None
}
fn ref_pdep(src: u64, mask: u64) -> u64 {
    let (mut out, mut k) = (0u64, 0);
    for i in 0..64 {
        if (mask >> i) & 1 == 1 {
            if (src >> k) & 1 == 1 {
                out |= 1 << i;
            }
            k += 1;
        }
    }
    out
}
fn ref_pext(src: u64, mask: u64) -> u64 {
    let (mut out, mut k) = (0u64, 0);
    for i in 0..64 {
        if (mask >> i) & 1 == 1 {
            if (src >> i) & 1 == 1 {
                out |= 1 << k;
            }
            k += 1;
        }
    }
    out
}
fn ref_reverse(x: u64, width: u32) -> u64 {
    let mut out = 0u64;
    for i in 0..width {
        if (x >> i) & 1 == 1 {
            out |= 1 << (width - 1 - i);
        }
    }
    out
}
fn ref_tz(x: u64, width: u32) -> u32 {
    for i in 0..width {
        if (x >> i) & 1 == 1 {
            return i;
        }
    }
    width
}
fn ref_lz(x: u64) -> u32 {
    for i in 0..64 {
        if (x >> (63 - i)) & 1 == 1 {
            return i;
        }
    }
    64
}
fn low_mask(n: u32) -> u64 {
    if n >= 64 {
        u64::MAX
    } else {
        (1u64 << n) - 1
    }
}

/// glob match over chars: '*' = any run (incl. empty), '?' = exactly one char
fn ref_glob(text: &[char], pat: &[char]) -> bool {
    let (n, m) = (text.len(), pat.len());
    let mut dp = vec![vec![false; m + 1]; n + 1];
    dp[0][0] = true;
    for j in 1..=m {
        dp[0][j] = dp[0][j - 1] && pat[j - 1] == '*';
    }
    for i in 1..=n {
        for j in 1..=m {
            dp[i][j] = match pat[j - 1] {
                '*' => dp[i - 1][j] || dp[i][j - 1],
                '?' => dp[i - 1][j - 1],
                c => dp[i - 1][j - 1] && text[i - 1] == c,
            };
        }
    }
    dp[n][m]
}

// ---------------------------------------------------------------------------------------
// labels / input classes
// ---------------------------------------------------------------------------------------

fn len_class(n: usize) -> &'static str {
    match n {
        0 => "len0",
        1..=14 => "len1-14",
        15..=17 => "len15-17",
        18..=30 => "len18-30",
        31..=33 => "len31-33",
        34..=62 => "len34-62",
        63..=65 => "len63-65",
        66..=130 => "len66-130",
        131..=254 => "len131-254",
        255..=257 => "len255-257",
        258..=510 => "len258-510",
        511..=513 => "len511-513",
        514..=4094 => "len514-4094",
        4095..=4097 => "len4095-4097",
        4098..=7999 => "len>4097",
        _ => "len>=8000",
    }
}

fn align_class(p: Place) -> &'static str {
    match (p.guard, p.align & 63) {
        (1, _) => "place:guard_end",
        (2, _) => "place:guard_start",
        (_, 0) => "place:a0",
        (_, 1..=15) => "place:a1-15",
        (_, 16) => "place:a16",
        (_, 17..=31) => "place:a17-31",
        (_, 32) => "place:a32",
        _ => "place:a33-63",
    }
}

/// where does a match [pos, pos+n) sit relative to the vector lanes
fn pos_class(pos: Option<usize>, n: usize, hay: usize) -> &'static str {
    match pos {
        None => "absent",
        Some(p) => {
            if n > 0 && p + n == hay {
                "at_end"
            } else if p == 0 {
                "at_start"
            } else if n > 1 && (p / 16 != (p + n - 1) / 16) {
                "straddles_lane"
            } else if p % 16 == 15 || p % 16 == 0 {
                "at_lane_edge"
            } else {
                "inside"
            }
        }
    }
}

fn nontrivial_bytes(ctx: &mut Ctx, b: &[u8]) {
    if b.len() >= 17 && b.iter().any(|&x| x != b[0]) {
        ctx.nontrivial();
    }
}

// ---------------------------------------------------------------------------------------
// case description
// ---------------------------------------------------------------------------------------

/// byte content: a payload plus a tweak that forces an adversarial class
#[derive(Clone, Debug, Serialize, Deserialize)]
pub struct Data {
    pub p: Payload,
    /// 0 as is; 1 every byte |= 0x80 (signed-compare traps); 2 a 0x00 every 7th byte
    /// (C-string kernels); 3 every byte &= 0x7f; 4 bytes alternate 0x7f/0x80 around the payload
    pub tweak: u8,
}

impl Data {
    fn bytes(&self) -> Vec<u8> {
        let mut v = self.p.bytes();
        match self.tweak {
            1 => v.iter_mut().for_each(|b| *b |= 0x80),
            2 => v.iter_mut().enumerate().for_each(|(i, b)| {
                if i % 7 == 3 {
                    *b = 0
                }
            }),
            3 => v.iter_mut().for_each(|b| *b &= 0x7f),
            4 => v.iter_mut().enumerate().for_each(|(i, b)| *b = if (*b as usize + i) % 2 == 0 { 0x7f } else { 0x80 }),
            _ => {}
        }
        v
    }
    fn class(&self) -> String {
        format!("content:{}", self.p.class())
    }
    fn tweak_class(&self) -> String {
        format!("tweak:{}", ["none", "all|0x80", "embedded_nul", "all&0x7f", "0x7f/0x80"][(self.tweak as usize).min(4)])
    }
}

/// second buffer, relative to the first
#[derive(Clone, Debug, Serialize, Deserialize)]
pub enum Rel {
    Same,
    DiffAt { at: u16, xor: u8 },
    DiffLast { xor: u8 },
    Shorter { cut: u16 },
    Longer { extra: Bytes },
    ShorterDiff { cut: u16, at: u16, xor: u8 },
    Other(Data),
}

impl Rel {
    fn derive(&self, a: &[u8]) -> Vec<u8> {
        let mut b = a.to_vec();
        match self {
            Rel::Same => {}
            Rel::DiffAt { at, xor } => {
                if !b.is_empty() {
                    let i = idx(*at, b.len());
                    b[i] ^= (*xor).max(1);
                }
            }
            Rel::DiffLast { xor } => {
                if let Some(l) = b.last_mut() {
                    *l ^= (*xor).max(1);
                }
            }
            Rel::Shorter { cut } => {
                let n = idx(*cut, b.len() + 1);
                b.truncate(n);
            }
            Rel::Longer { extra } => b.extend_from_slice(&extra.0),
            Rel::ShorterDiff { cut, at, xor } => {
                let n = idx(*cut, b.len() + 1);
                b.truncate(n);
                if !b.is_empty() {
                    let i = idx(*at, b.len());
                    b[i] ^= (*xor).max(1);
                }
            }
            Rel::Other(d) => b = d.bytes(),
        }
        b
    }
    fn class(&self) -> &'static str {
        match self {
            Rel::Same => "same",
            Rel::DiffAt { .. } => "diff_at",
            Rel::DiffLast { .. } => "diff_last",
            Rel::Shorter { .. } => "shorter_prefix",
            Rel::Longer { .. } => "longer",
            Rel::ShorterDiff { .. } => "shorter_diff",
            Rel::Other(_) => "unrelated",
        }
    }
}

/// the byte searched for
#[derive(Clone, Debug, Serialize, Deserialize)]
pub enum Needle1 {
    /// the byte found at this position of the haystack (may also occur earlier)
    At(u16),
    /// a byte that does not occur, planted at exactly this position (unique occurrence)
    PlantAt(u16),
    PlantLast,
    Absent,
    Byte(u8),
}

impl Needle1 {
    /// returns (possibly modified haystack, needle byte)
    fn apply(&self, mut h: Vec<u8>) -> (Vec<u8>, u8) {
        let absent = |h: &[u8]| (0..=255u8).rev().find(|c| !h.contains(c)).unwrap_or(0);
        match self {
            Needle1::At(i) => {
                let c = if h.is_empty() { 0 } else { h[idx(*i, h.len())] };
                (h, c)
            }
            Needle1::PlantAt(i) => {
                let c = absent(&h);
                if !h.is_empty() {
                    let k = idx(*i, h.len());
                    h[k] = c;
                }
                (h, c)
            }
            Needle1::PlantLast => {
                let c = absent(&h);
                if let Some(l) = h.last_mut() {
                    *l = c;
                }
                (h, c)
            }
            Needle1::Absent => {
                let c = absent(&h);
                (h, c)
            }
            Needle1::Byte(c) => (h, *c),
        }
    }
}

/// the pattern searched for
#[derive(Clone, Debug, Serialize, Deserialize)]
pub enum Pat {
    /// a substring of the haystack
    Sub { start: u16, len: usize },
    /// the last `len` bytes (match ends at the last byte)
    Tail { len: usize },
    /// a substring whose last byte is changed (equal-prefix trap, usually absent)
    SubMut { start: u16, len: usize, xor: u8 },
    /// these bytes are written over the haystack at `at`
    Plant { at: u16, pat: Bytes },
    Raw(Bytes),
    Empty,
}

impl Pat {
    fn apply(&self, mut h: Vec<u8>) -> (Vec<u8>, Vec<u8>) {
        match self {
            Pat::Sub { start, len } => {
                let n = (*len).min(h.len());
                let s = idx(*start, h.len() - n + 1);
                let p = h[s..s + n].to_vec();
                (h, p)
            }
            Pat::Tail { len } => {
                let n = (*len).min(h.len());
                let p = h[h.len() - n..].to_vec();
                (h, p)
            }
            Pat::SubMut { start, len, xor } => {
                let n = (*len).min(h.len());
                let s = idx(*start, h.len() - n + 1);
                let mut p = h[s..s + n].to_vec();
                if let Some(l) = p.last_mut() {
                    *l ^= (*xor).max(1);
                }
                (h, p)
            }
            Pat::Plant { at, pat } => {
                let p = pat.0.clone();
                if p.len() <= h.len() {
                    let s = idx(*at, h.len() - p.len() + 1);
                    h[s..s + p.len()].copy_from_slice(&p);
                }
                (h, p)
            }
            Pat::Raw(b) => (h, b.0.clone()),
            Pat::Empty => (h, vec![]),
        }
    }
}

fn needle_len_class(n: usize) -> &'static str {
    match n {
        0 => "n0",
        1 => "n1",
        2..=16 => "n2-16",
        17..=32 => "n17-32",
        _ => "n>32",
    }
}

/// UTF-8 test text
#[derive(Clone, Debug, Serialize, Deserialize)]
pub enum Text {
    /// valid filler of `pre` bytes, then the `bad` fragment, then valid filler of `post` bytes
    Built { pre: usize, pre_kind: u8, bad: u8, sub: u8, post: usize, post_kind: u8, seed: u64 },
    Raw(Data),
}

const BAD_GROUPS: &[(&str, &[&[u8]])] = &[
    ("valid", &[b""]),
    ("overlong2", &[&[0xC0, 0x80], &[0xC1, 0xBF], &[0xC0, 0xAF]]),
    ("overlong3", &[&[0xE0, 0x80, 0x80], &[0xE0, 0x9F, 0xBF]]),
    ("overlong4", &[&[0xF0, 0x80, 0x80, 0x80], &[0xF0, 0x8F, 0xBF, 0xBF]]),
    ("surrogate", &[&[0xED, 0xA0, 0x80], &[0xED, 0xBF, 0xBF], &[0xED, 0xB0, 0x80]]),
    ("above_10ffff", &[&[0xF4, 0x90, 0x80, 0x80], &[0xF7, 0xBF, 0xBF, 0xBF], &[0xF5, 0x80, 0x80, 0x80]]),
    ("invalid_lead", &[&[0xFF], &[0xFE], &[0xF8, 0x88, 0x80, 0x80, 0x80], &[0xFC, 0x84, 0x80, 0x80, 0x80, 0x80]]),
    ("stray_continuation", &[&[0x80], &[0xBF], &[0xC3, 0xA9, 0xA9]]),
    ("truncated", &[&[0xC3], &[0xE4, 0xB8], &[0xE4], &[0xF0, 0x9F, 0xA6], &[0xF0, 0x9F], &[0xF0]]),
    ("lead_then_ascii", &[&[0xC3, 0x41], &[0xE4, 0xB8, 0x41], &[0xF0, 0x9F, 0xA6, 0x41], &[0xE4, 0x41, 0x80]]),
    ("bad_second_byte", &[&[0xE0, 0xC0, 0x80], &[0xF4, 0x7F, 0x80, 0x80], &[0xC3, 0xC3]]),
];

fn push_cp(out: &mut Vec<u8>, cp: u32) {
    if let Some(c) = char::from_u32(cp) {
        let mut b = [0u8; 4];
        out.extend_from_slice(c.encode_utf8(&mut b).as_bytes());
    }
}

/// exactly `want` bytes of valid UTF-8
fn filler(kind: u8, want: usize, r: &mut Xs, out: &mut Vec<u8>) {
    let start = out.len();
    while out.len() - start < want {
        let room = want - (out.len() - start);
        let w = match kind % 6 {
            0 => 1,
            2 => 2,
            3 => 3,
            4 => 4,
            5 => {
                if r.below(8) == 0 {
                    2 + r.below(3) as usize
                } else {
                    1
                }
            }
            _ => 1 + r.below(4) as usize,
        };
        let w = w.min(room);
        let cp = match w {
            1 => {
                if r.below(40) == 0 {
                    0
                } else {
                    0x20 + r.below(0x5f) as u32
                }
            }
            2 => match r.below(4) {
                0 => 0x80,
                1 => 0x7FF,
                2 => 0xE9,
                _ => 0x80 + r.below(0x780) as u32,
            },
            3 => match r.below(6) {
                0 => 0x800,
                1 => 0xD7FF,
                2 => 0xE000,
                3 => 0xFFFF,
                _ => 0x4E00 + r.below(0x5000) as u32,
            },
            _ => match r.below(4) {
                0 => 0x10000,
                1 => 0x10FFFF,
                _ => 0x1F300 + r.below(0x400) as u32,
            },
        };
        push_cp(out, cp);
    }
}

impl Text {
    fn bytes(&self) -> Vec<u8> {
        match self {
            Text::Raw(d) => d.bytes(),
            Text::Built { pre, pre_kind, bad, sub, post, post_kind, seed } => {
                let mut r = Xs(*seed | 1);
                let mut out = vec![];
                filler(*pre_kind, *pre, &mut r, &mut out);
                let g = BAD_GROUPS[*bad as usize % BAD_GROUPS.len()].1;
                out.extend_from_slice(g[*sub as usize % g.len()]);
                filler(*post_kind, *post, &mut r, &mut out);
                out
            }
        }
    }
    fn class(&self) -> String {
        match self {
            Text::Raw(_) => "utf8:raw_bytes".into(),
            Text::Built { bad, pre, post, .. } => {
                let name = BAD_GROUPS[*bad as usize % BAD_GROUPS.len()].0;
                let wher = if *bad as usize % BAD_GROUPS.len() == 0 {
                    ""
                } else if *post == 0 {
                    "@end"
                } else if *pre % 16 >= 13 || *pre % 16 == 0 {
                    "@lane_boundary"
                } else {
                    "@inside"
                };
                format!("utf8:{name}{wher}")
            }
        }
    }
}

#[derive(Clone, Debug, Serialize, Deserialize)]
pub enum B64Mut {
    None,
    DropPad,
    ExtraPad,
    BadChar { at: u16, ch: u8 },
    OtherAlphabet,
    Truncate { keep: u16 },
    /// set low (discarded) bits of the last symbol
    TrailingBits { bits: u8 },
}

#[derive(Clone, Debug, Serialize, Deserialize)]
pub enum HexMut {
    None,
    MixCase { mask: u64 },
    BadChar { at: u16, ch: u8 },
    OddLength,
}

#[derive(Clone, Debug, Serialize, Deserialize)]
pub enum Case {
    Mem { a: Data, b: Rel, needle: Needle1, fill: u8, pa: Place, pb: Place, cfg: u8, op: Option<u8> },
    IoCopy { a: Data, pa: Place, pb: Place, op: Option<u8> },
    IoSearch { hay: Data, pat: Pat, set: Bytes, b: Rel, ch: Needle1, ph: Place, pn: Place, op: Option<u8> },
    StrSearch { hay: Data, pat: Pat, set: Bytes, b: Rel, ch: Needle1, ph: Place, pn: Place, op: Option<u8> },
    Bmi2 { text: Text, pat: Pat, wild_text: String, wild_pat: String, extra: Vec<String>, p: Place, op: Option<u8> },
    Utf8 { text: Text, p: Place, op: Option<u8> },
    Crc { data: Data, init: u32, splits: Vec<u16>, p: Place, op: Option<u8> },
    Base64 { data: Data, cfg: u8, force: u8, m: B64Mut, p: Place },
    Hex { data: Data, m: HexMut, slack: u8 },
    BitOps { xs: Vec<u64>, masks: Vec<u64>, ks: Vec<u8>, cfg: u8 },
    Hist { text: Text },
    HmStr { a: Data, b: Rel, prefix_mode: u8, pa: Place, pb: Place, op: Option<u8> },
    FastStr { hay: Data, pat: Pat, b: Rel, ch: Needle1 },
}

// ---------------------------------------------------------------------------------------
// generators
// ---------------------------------------------------------------------------------------

fn place(guard: bool) -> BoxedStrategy<Place> {
    if guard {
        (prop_oneof![4 => Just(1u8), 1 => Just(2u8)], 0u8..64).prop_map(|(guard, align)| Place { align, guard }).boxed()
    } else {
        prop_oneof![
            2 => Just(0u8),
            3 => proptest::sample::select(vec![1u8, 7, 8, 15, 16, 17, 31, 32, 33, 48, 63]),
            3 => 0u8..64,
        ]
        .prop_map(|align| Place { align, guard: 0 })
        .boxed()
    }
}

/// lengths of 8 KiB..68 KiB (about one case in 150): kernels that work in blocks with narrow
/// per-lane accumulators, interleaved lanes or multi-round loops only leave their first round
/// on inputs of thousands of vector widths
fn huge_len() -> BoxedStrategy<usize> {
    prop_oneof![
        2 => proptest::sample::select(vec![8191usize, 8192, 8193, 8224, 12_288, 16_383, 16_384, 16_385, 24_575, 24_576, 24_577, 32_768, 36_864, 49_152, 65_535, 65_536, 65_537]),
        1 => 8_000usize..=68_000,
    ]
    .boxed()
}

fn len_s(tier: Tier) -> BoxedStrategy<usize> {
    let big = tier.pick(6000, 20_000);
    prop_oneof![
        900 => 0usize..=130,
        450 => proptest::sample::select(vec![15usize, 16, 17, 31, 32, 33, 47, 48, 49, 63, 64, 65, 95, 96, 97, 127, 128, 129]),
        150 => proptest::sample::select(vec![255usize, 256, 257, 511, 512, 513, 4095, 4096, 4097]),
        150 => 131usize..=big,
        11 => huge_len(),
    ]
    .boxed()
}

fn data(len: BoxedStrategy<usize>) -> BoxedStrategy<Data> {
    (gen::payload(len, 48), prop_oneof![6 => Just(0u8), 2 => Just(1u8), 1 => Just(2u8), 1 => Just(3u8), 1 => Just(4u8)])
        .prop_map(|(p, tweak)| Data { p, tweak })
        .boxed()
}

fn xor_s() -> BoxedStrategy<u8> {
    prop_oneof![2 => Just(0x80u8), 1 => Just(1u8), 1 => Just(0xFFu8), 2 => 1u8..=255].boxed()
}

fn rel(tier: Tier) -> BoxedStrategy<Rel> {
    prop_oneof![
        3 => Just(Rel::Same),
        4 => (any::<u16>(), xor_s()).prop_map(|(at, xor)| Rel::DiffAt { at, xor }),
        3 => xor_s().prop_map(|xor| Rel::DiffLast { xor }),
        2 => any::<u16>().prop_map(|cut| Rel::Shorter { cut }),
        1 => proptest::collection::vec(any::<u8>(), 1..40).prop_map(|v| Rel::Longer { extra: Bytes(v) }),
        2 => (any::<u16>(), any::<u16>(), xor_s()).prop_map(|(cut, at, xor)| Rel::ShorterDiff { cut, at, xor }),
        1 => data(len_s(tier)).prop_map(Rel::Other),
    ]
    .boxed()
}

fn needle1() -> BoxedStrategy<Needle1> {
    prop_oneof![
        2 => any::<u16>().prop_map(Needle1::At),
        4 => any::<u16>().prop_map(Needle1::PlantAt),
        2 => Just(Needle1::PlantLast),
        2 => Just(Needle1::Absent),
        1 => prop_oneof![Just(0u8), Just(0x7f), Just(0x80), Just(0xff), any::<u8>()].prop_map(Needle1::Byte),
    ]
    .boxed()
}

fn pat_len() -> BoxedStrategy<usize> {
    prop_oneof![
        3 => 1usize..=5,
        3 => proptest::sample::select(vec![8usize, 15, 16, 17, 31, 32, 33, 34, 48, 64, 65]),
        2 => 1usize..=70,
    ]
    .boxed()
}

fn pat() -> BoxedStrategy<Pat> {
    prop_oneof![
        4 => (any::<u16>(), pat_len()).prop_map(|(start, len)| Pat::Sub { start, len }),
        2 => pat_len().prop_map(|len| Pat::Tail { len }),
        3 => (any::<u16>(), pat_len(), xor_s()).prop_map(|(start, len, xor)| Pat::SubMut { start, len, xor }),
        2 => (any::<u16>(), pat_len(), any::<u64>()).prop_map(|(at, n, s)| {
            let mut r = Xs(s | 1);
            Pat::Plant { at, pat: Bytes((0..n).map(|_| r.next() as u8).collect()) }
        }),
        1 => proptest::collection::vec(any::<u8>(), 1..6).prop_map(|v| Pat::Raw(Bytes(v))),
        1 => Just(Pat::Empty),
    ]
    .boxed()
}

fn char_set() -> BoxedStrategy<Bytes> {
    prop_oneof![
        3 => proptest::collection::vec(any::<u8>(), 1..=6),
        2 => proptest::collection::vec(any::<u8>(), 14..=18),
        2 => proptest::collection::vec(any::<u8>(), 17..=40),
        1 => Just(vec![]),
        1 => Just(vec![0u8]),
        1 => Just(b"aeiou \n".to_vec()),
    ]
    .prop_map(Bytes)
    .boxed()
}

fn text(tier: Tier) -> BoxedStrategy<Text> {
    let n = || prop_oneof![3 => 0usize..=40, 2 => proptest::sample::select(vec![13usize, 14, 15, 16, 29, 30, 31, 32, 61, 62, 63, 64]), 1 => 0usize..=300];
    let bad = prop_oneof![5 => Just(0u8), 6 => 1u8..(BAD_GROUPS.len() as u8)];
    let pre = prop_oneof![150 => n(), 1 => huge_len()];
    prop_oneof![
        8 => (pre, 0u8..6, bad, any::<u8>(), prop_oneof![2 => Just(0usize), 3 => n()], 0u8..6, any::<u64>())
            .prop_map(|(pre, pre_kind, bad, sub, post, post_kind, seed)| Text::Built { pre, pre_kind, bad, sub, post, post_kind, seed }),
        1 => data(len_s(tier)).prop_map(Text::Raw),
    ]
    .boxed()
}

fn opt_op(guard: bool, n: usize) -> BoxedStrategy<Option<u8>> {
    if guard {
        (0..n as u8).prop_map(Some).boxed()
    } else {
        Just(None).boxed()
    }
}

/// guard cells that run only the listed operations (used to give a diagnosed faulting
/// operation its own cell, so its crash signature does not hide the other operations)
fn op_from(ops: Vec<u8>) -> BoxedStrategy<Option<u8>> {
    proptest::sample::select(ops).prop_map(Some).boxed()
}

// ---------------------------------------------------------------------------------------
// cell: mem  (memory::simd_ops)
// ---------------------------------------------------------------------------------------

const MEM_OPS: usize = 14;

fn first_diff(a: &[u8], b: &[u8]) -> String {
    let i = ref_common_prefix(a, b);
    format!("lengths {}/{}, first difference at {} (got {:?} want {:?})", a.len(), b.len(), i, a.get(i), b.get(i))
}

#[allow(clippy::too_many_arguments)]
fn run_mem(ctx: &mut Ctx, a: &Data, rel: &Rel, needle: &Needle1, fill: u8, pa: Place, pb: Place, cfg: u8, op: Option<u8>) {
    use zipora::memory::cache_layout::CacheLayoutConfig;
    use zipora::memory::simd_ops::*;
    let (hay, nb) = needle.apply(a.bytes());
    let b = rel.derive(&hay);
    nontrivial_bytes(ctx, &hay);
    let lc = len_class(hay.len());
    ctx.label(lc);
    ctx.label(a.class());
    ctx.label(a.tweak_class());
    ctx.label(align_class(pa));
    ctx.label(format!("rel:{}", rel.class()));
    let Some(ops) = ctx.no_panic("construct", || match cfg % 5 {
        0 => SimdMemOps::new(),
        1 => SimdMemOps::with_cache_config(CacheLayoutConfig::sequential()),
        2 => SimdMemOps::with_cache_config(CacheLayoutConfig::random()),
        3 => SimdMemOps::with_cache_config(CacheLayoutConfig::write_heavy()),
        _ => SimdMemOps::with_cache_config(CacheLayoutConfig::read_heavy()),
    }) else {
        return;
    };
    ctx.label(format!("tier:{:?}", ops.tier()));
    let src = buf!(ctx, &hay, pa);

    // --- copies -------------------------------------------------------------------------
    let names = ["copy_nonoverlapping", "fast_copy", "copy_cache_optimized", "fast_copy_cache_optimized", "copy_aligned"];
    for (i, name) in names.iter().enumerate() {
        if !want(op, i) {
            continue;
        }
        let mut dst = buf_out!(ctx, hay.len(), pb);
        let both_aligned = src.addr() % 64 == 0 && dst.addr() % 64 == 0;
        let r = ctx.no_panic(name, || match i {
            0 => ops.copy_nonoverlapping(src.s(), dst.m()),
            1 => fast_copy(src.s(), dst.m()),
            2 => ops.copy_cache_optimized(src.s(), dst.m()),
            3 => fast_copy_cache_optimized(src.s(), dst.m()),
            _ => ops.copy_aligned(src.s(), dst.m()),
        });
        match r {
            Some(Ok(())) => {
                let ok = dst.s() == &hay[..];
                ctx.ensure(name, lc, ok, || first_diff(dst.s(), &hay));
            }
            Some(Err(e)) => {
                if i < 4 || both_aligned {
                    ctx.fail(name, "err", lc, format!("copy of {} bytes refused: {e}", hay.len()));
                } else {
                    ctx.label("copy_aligned_refused_unaligned");
                }
            }
            None => {}
        }
        let (di, si) = (dst.intact(), src.intact() && src.s() == &hay[..]);
        ctx.ensure(&format!("{name}_writes_only_dst"), lc, di && si, || format!("bytes outside the destination were modified (dst canaries ok: {di}, src ok: {si})"));
    }
    if want(op, 5) {
        // a destination of a different length must be refused, never written past
        let mut dst = buf_out!(ctx, hay.len() + 1, pb);
        let r = ctx.no_panic("copy_len_mismatch", || ops.copy_nonoverlapping(src.s(), dst.m()));
        if let Some(r) = r {
            ctx.ensure("copy_len_mismatch", "", r.is_err(), || "copy into a longer destination returned Ok".into());
        }
        ctx.ensure("copy_len_mismatch_writes_only_dst", "", dst.intact(), || "canary damaged".into());
    }

    // --- compare ------------------------------------------------------------------------
    let other = buf!(ctx, &b, pb);
    let want_ord = ref_cmp(&hay, &b);
    let cmp_names = ["compare", "fast_compare", "compare_cache_optimized", "fast_compare_cache_optimized"];
    for (k, name) in cmp_names.iter().enumerate() {
        if !want(op, 6 + k) {
            continue;
        }
        let r = ctx.no_panic(name, || match k {
            0 => ops.compare(src.s(), other.s()),
            1 => fast_compare(src.s(), other.s()),
            2 => ops.compare_cache_optimized(src.s(), other.s()),
            _ => fast_compare_cache_optimized(src.s(), other.s()),
        });
        if let Some(v) = r {
            ctx.eq(name, rel.class(), &sign(v), &want_ord);
        }
        // antisymmetry through the swapped call
        if k == 0 {
            if let Some(v) = ctx.no_panic(name, || ops.compare(other.s(), src.s())) {
                ctx.eq(name, &format!("{},swapped", rel.class()), &sign(v), &want_ord.reverse());
            }
        }
    }

    // --- find_byte ----------------------------------------------------------------------
    let want_pos = ref_find_byte(&hay, nb);
    let pc = pos_class(want_pos, 1, hay.len());
    ctx.label(format!("needle:{pc}"));
    for (k, name) in ["find_byte", "fast_find_byte"].iter().enumerate() {
        if !want(op, 10 + k) {
            continue;
        }
        let r = ctx.no_panic(name, || if k == 0 { ops.find_byte(src.s(), nb) } else { fast_find_byte(src.s(), nb) });
        if let Some(v) = r {
            ctx.eq(name, pc, &v, &want_pos);
        }
    }

    // --- fill ---------------------------------------------------------------------------
    for (k, name) in ["fill", "fast_fill"].iter().enumerate() {
        if !want(op, 12 + k) {
            continue;
        }
        let mut dst = buf_out!(ctx, hay.len(), pb);
        let v = fill;
        if ctx.no_panic(name, || if k == 0 { ops.fill(dst.m(), v) } else { fast_fill(dst.m(), v) }).is_some() {
            let bad = dst.s().iter().position(|&x| x != v);
            ctx.ensure(name, lc, bad.is_none(), || format!("byte {:?} of {} not filled", bad, hay.len()));
            ctx.ensure(&format!("{name}_writes_only_dst"), lc, dst.intact(), || "bytes outside the slice were modified".into());
        }
    }
}

// ---------------------------------------------------------------------------------------
// cell: io_copy  (io::simd_memory::copy)
// ---------------------------------------------------------------------------------------

const IOCOPY_OPS: usize = 3;

fn run_io_copy(ctx: &mut Ctx, a: &Data, pa: Place, pb: Place, op: Option<u8>) {
    use zipora::io::simd_memory::copy::*;
    let hay = a.bytes();
    nontrivial_bytes(ctx, &hay);
    let lc = &format!("{},tail16={}", len_class(hay.len()), match hay.len() % 16 { 0 => "0", 1..=7 => "1-7", 8 => "8", _ => "9-15" });
    ctx.label(len_class(hay.len()));
    ctx.label(format!("tail16:{}", hay.len() % 16));
    ctx.label(a.class());
    ctx.label(a.tweak_class());
    ctx.label(align_class(pa));
    if let Some(t) = ctx.no_panic("construct", || SimdCopy::new().tier()) {
        ctx.label(format!("tier:{t:?}"));
    }
    let src = buf!(ctx, &hay, pa);
    for (i, name) in ["copy_large_simd", "copy_small_simd", "copy_aligned_simd"].iter().enumerate() {
        if !want(op, i) {
            continue;
        }
        let mut dst = buf_out!(ctx, hay.len(), pb);
        let both_aligned = src.addr() % 64 == 0 && dst.addr() % 64 == 0;
        let r = ctx.no_panic(name, || match i {
            0 => copy_large_simd(dst.m(), src.s()),
            1 => copy_small_simd(dst.m(), src.s()),
            _ => copy_aligned_simd(dst.m(), src.s()),
        });
        match r {
            Some(Ok(())) => {
                let ok = dst.s() == &hay[..];
                ctx.ensure(name, lc, ok, || first_diff(dst.s(), &hay));
            }
            Some(Err(e)) => {
                let must = match i {
                    0 => true,
                    1 => hay.len() <= 256,
                    _ => both_aligned,
                };
                if must {
                    ctx.fail(name, "err", lc, format!("copy of {} bytes refused: {e}", hay.len()));
                } else {
                    ctx.label(format!("{name}_refused_as_documented"));
                }
            }
            None => {}
        }
        let (di, si) = (dst.intact(), src.intact() && src.s() == &hay[..]);
        ctx.ensure(&format!("{name}_writes_only_dst"), lc, di && si, || format!("bytes outside the destination were modified (dst canaries ok: {di}, src ok: {si})"));
    }
}

// ---------------------------------------------------------------------------------------
// cell: io_search  (io::simd_memory::search)
// ---------------------------------------------------------------------------------------

const IOS_IMPLS: [&str; 6] = ["native", "sse42_cfg", "scalar_cfg", "free_fn", "sse42_fn", "scalar_fn"];
const IOSEARCH_OPS: usize = 24;

#[allow(clippy::too_many_arguments)]
fn run_io_search(ctx: &mut Ctx, hay: &Data, pat: &Pat, set: &[u8], rel: &Rel, ch: &Needle1, ph: Place, pn: Place, op: Option<u8>) {
    use zipora::io::simd_memory::search as s;
    let (h0, needle) = pat.apply(hay.bytes());
    let (h, c) = ch.apply(h0);
    // planting the byte may have destroyed a planted pattern; the reference is computed on the final bytes
    let b = rel.derive(&h);
    nontrivial_bytes(ctx, &h);
    let lc = len_class(h.len());
    ctx.label(lc);
    ctx.label(hay.class());
    ctx.label(hay.tweak_class());
    ctx.label(align_class(ph));
    let cfg = |sse: bool| s::SearchConfig { enable_sse42: sse, enable_avx2: false, enable_avx512: false, enable_neon: false };
    let Some((nat, sse, sca)) = ctx.no_panic("construct", || (s::SimdStringSearch::new(), s::SimdStringSearch::with_config(cfg(true)), s::SimdStringSearch::with_config(cfg(false)))) else {
        return;
    };
    ctx.label(format!("tier:{:?}/{:?}/{:?}", nat.tier(), sse.tier(), sca.tier()));
    let hb = buf!(ctx, &h, ph);
    let nbuf = buf!(ctx, &needle, pn);
    let sbuf = buf!(ctx, set, pn);
    let bb = buf!(ctx, &b, pn);

    let w_char = ref_find_byte(&h, c);
    let w_pat = if needle.is_empty() { Some(0) } else { ref_find_sub(&h, &needle) };
    let w_any = ref_find_any(&h, set);
    let w_cmp = ref_cmp(&h, &b);
    let pc_char = pos_class(w_char, 1, h.len());
    let pc_pat = format!("{},{}", needle_len_class(needle.len()), pos_class(w_pat, needle.len(), h.len()));
    let pc_any = format!("{},{}", if set.len() > 16 { "set>16" } else if set.is_empty() { "set0" } else { "set<=16" }, pos_class(w_any, 1, h.len()));
    ctx.label(format!("char:{pc_char}"));
    ctx.label(format!("pattern:{pc_pat}"));
    ctx.label(format!("any_of:{pc_any}"));
    ctx.label(format!("rel:{}", rel.class()));

    for (im, iname) in IOS_IMPLS.iter().enumerate() {
        if want(op, im) {
            let r = ctx.no_panic("find_char", || match im {
                0 => nat.find_char(hb.s(), c),
                1 => sse.find_char(hb.s(), c),
                2 => sca.find_char(hb.s(), c),
                3 => s::find_char(hb.s(), c),
                4 => s::sse42_strchr(hb.s(), c),
                _ => s::scalar_strchr(hb.s(), c),
            });
            if let Some(v) = r {
                ctx.eq("find_char", &format!("{iname},{pc_char}"), &v, &w_char);
            }
        }
        if want(op, 6 + im) {
            let r = ctx.no_panic("find_pattern", || match im {
                0 => nat.find_pattern(hb.s(), nbuf.s()),
                1 => sse.find_pattern(hb.s(), nbuf.s()),
                2 => sca.find_pattern(hb.s(), nbuf.s()),
                3 => s::find_pattern(hb.s(), nbuf.s()),
                4 => s::sse42_strstr(hb.s(), nbuf.s()),
                _ => s::scalar_strstr(hb.s(), nbuf.s()),
            });
            if let Some(v) = r {
                ctx.eq("find_pattern", &format!("{iname},{pc_pat}"), &v, &w_pat);
            }
        }
        if want(op, 12 + im) {
            let r = ctx.no_panic("find_any_of", || match im {
                0 => nat.find_any_of(hb.s(), sbuf.s()),
                1 => sse.find_any_of(hb.s(), sbuf.s()),
                2 => sca.find_any_of(hb.s(), sbuf.s()),
                3 => s::find_any_of(hb.s(), sbuf.s()),
                4 => s::sse42_multi_search(hb.s(), sbuf.s()),
                _ => s::scalar_multi_search(hb.s(), sbuf.s()),
            });
            if let Some(v) = r {
                ctx.eq("find_any_of", &format!("{iname},{pc_any}"), &v, &w_any);
            }
        }
        if want(op, 18 + im) {
            let r = ctx.no_panic("compare_strings", || match im {
                0 => nat.compare_strings(hb.s(), bb.s()),
                1 => sse.compare_strings(hb.s(), bb.s()),
                2 => sca.compare_strings(hb.s(), bb.s()),
                3 => s::compare_strings(hb.s(), bb.s()),
                4 => s::sse42_strcmp(hb.s(), bb.s()),
                _ => s::scalar_strcmp(hb.s(), bb.s()),
            });
            if let Some(v) = r {
                ctx.eq("compare_strings", &format!("{iname},{}", rel.class()), &v, &w_cmp);
            }
        }
    }
}

// ---------------------------------------------------------------------------------------
// cell: str_search  (string::simd_search)
// ---------------------------------------------------------------------------------------

const STRSEARCH_OPS: usize = 8;

#[allow(clippy::too_many_arguments)]
fn run_str_search(ctx: &mut Ctx, hay: &Data, pat: &Pat, set: &[u8], rel: &Rel, ch: &Needle1, ph: Place, pn: Place, op: Option<u8>) {
    use zipora::string::simd as s;
    let (h0, needle) = pat.apply(hay.bytes());
    let (h, c) = ch.apply(h0);
    let b = rel.derive(&h);
    nontrivial_bytes(ctx, &h);
    let lc = len_class(h.len());
    ctx.label(lc);
    ctx.label(hay.class());
    ctx.label(hay.tweak_class());
    ctx.label(align_class(ph));
    let Some(inst) = ctx.no_panic("construct", s::SimdStringSearch::new) else { return };
    ctx.label(format!("tier:{:?}", inst.tier()));
    let hb = buf!(ctx, &h, ph);
    let nbuf = buf!(ctx, &needle, pn);
    let sbuf = buf!(ctx, set, pn);
    let bb = buf!(ctx, &b, pn);

    let w_char = ref_find_byte(&h, c);
    let pc_char = pos_class(w_char, 1, h.len());
    let w_pat = ref_find_sub(&h, &needle);
    let pc_pat = format!("{},{}", needle_len_class(needle.len()), pos_class(w_pat, needle.len(), h.len()));
    let mut member = [false; 256];
    set.iter().for_each(|&x| member[x as usize] = true);
    let w_pos: Vec<usize> = (0..h.len()).filter(|&i| member[h[i] as usize]).collect();
    let w_chars: Vec<u8> = w_pos.iter().map(|&i| h[i]).collect();
    let set_class = if set.len() > 16 { "set>16" } else if set.is_empty() { "set0" } else { "set<=16" };
    let w_cmp = ref_cmp(&h, &b);
    ctx.label(format!("char:{pc_char}"));
    ctx.label(format!("pattern:{pc_pat}"));
    ctx.label(format!("multi:{set_class},hits{}", match w_pos.len() { 0 => "0", 1 => "1", _ => ">1" }));
    ctx.label(format!("rel:{}", rel.class()));

    for (im, iname) in ["method", "global_fn"].iter().enumerate() {
        if want(op, im) {
            let r = ctx.no_panic("strchr", || if im == 0 { inst.sse42_strchr(hb.s(), c) } else { s::sse42_strchr(hb.s(), c) });
            if let Some(v) = r {
                ctx.eq("strchr", &format!("{iname},{pc_char}"), &v, &w_char);
            }
        }
        if want(op, 2 + im) {
            if needle.is_empty() {
                // the module's own unit test pins `None` for an empty needle while its scalar twin
                // answers Some(0): the API is contradictory here, so nothing is asserted
                ctx.label("strstr_empty_needle_not_asserted");
            } else {
                let r = ctx.no_panic("strstr", || if im == 0 { inst.sse42_strstr(hb.s(), nbuf.s()) } else { s::sse42_strstr(hb.s(), nbuf.s()) });
                if let Some(v) = r {
                    ctx.eq("strstr", &format!("{iname},{pc_pat}"), &v, &w_pat);
                }
            }
        }
        if want(op, 4 + im) {
            let r = ctx.no_panic("multi_search", || if im == 0 { inst.sse42_multi_search(hb.s(), sbuf.s()) } else { s::sse42_multi_search(hb.s(), sbuf.s()) });
            if let Some(v) = r {
                ctx.eq("multi_search_positions", &format!("{iname},{set_class}"), &v.positions, &w_pos);
                ctx.eq("multi_search_characters", &format!("{iname},{set_class}"), &v.characters, &w_chars);
            }
        }
        if want(op, 6 + im) {
            let r = ctx.no_panic("strcmp", || if im == 0 { inst.sse42_strcmp(hb.s(), bb.s()) } else { s::sse42_strcmp(hb.s(), bb.s()) });
            if let Some(v) = r {
                // The portable definition every tier shares (simd_search.rs, before the tier
                // dispatch) orders strings of different length by length and equal-length strings
                // bytewise; C14 requires the accelerated tiers to agree with that definition, not
                // with the doc comment's word "lexicographic" (that would be demanding more than
                // the property states).
                let cls = if h.len() != b.len() { "len_differs" } else { rel.class() };
                let want_cmp = if h.len() != b.len() { h.len().cmp(&b.len()) } else { w_cmp };
                ctx.eq("strcmp", &format!("{iname},{cls}"), &v, &want_cmp);
            }
        }
    }
}

// ---------------------------------------------------------------------------------------
// cell: bmi2_str  (string::bmi2_string_ops)
// ---------------------------------------------------------------------------------------

const BMI2_OPS: usize = 19;

fn as_str(b: &[u8]) -> &str {
    // only called on bytes std has already accepted
    unsafe { std::str::from_utf8_unchecked(b) }
}

#[allow(clippy::too_many_arguments)]
fn run_bmi2(ctx: &mut Ctx, text: &Text, pat: &Pat, wild_text: &str, wild_pat: &str, extra: &[String], p: Place, op: Option<u8>) {
    use zipora::string::bmi2 as z;
    let (bytes, needle) = pat.apply(text.bytes());
    let std_view = std::str::from_utf8(&bytes).ok().map(|s| s.to_string());
    let valid = std_view.is_some();
    nontrivial_bytes(ctx, &bytes);
    let lc = len_class(bytes.len());
    ctx.label(lc);
    ctx.label(text.class());
    ctx.label(align_class(p));
    ctx.label(if valid { "std:valid" } else { "std:invalid" });
    ctx.label(if bytes.len() >= 8 { "path:accelerated(len>=8)" } else { "path:fallback(len<8)" });
    let vc = if valid { "valid" } else { "invalid" };
    let Some(proc_) = ctx.no_panic("construct", z::Bmi2StringProcessor::new) else { return };
    ctx.label(format!("bmi2:{}", proc_.is_bmi2_available()));
    let tb = buf!(ctx, &bytes, p);

    for im in 0..2 {
        let iname = ["method", "global_fn"][im];
        if want(op, im) {
            if let Some(v) = ctx.no_panic("validate_utf8", || if im == 0 { proc_.validate_utf8_bmi2(tb.s()) } else { z::validate_utf8_bmi2(tb.s()) }) {
                ctx.eq("validate_utf8", &format!("{iname},{vc}"), &v, &valid);
            }
        }
        if want(op, 2 + im) {
            if let Some(v) = ctx.no_panic("count_utf8_chars", || if im == 0 { proc_.count_utf8_chars_bmi2(tb.s()) } else { z::count_utf8_chars_bmi2(tb.s()) }) {
                let w = std_view.as_ref().map(|s| s.chars().count());
                ctx.eq("count_utf8_chars", &format!("{iname},{vc}"), &v.ok(), &w);
            }
        }
    }
    if want(op, 4) {
        if let Some(v) = ctx.no_panic("extract_utf8_chars", || proc_.extract_utf8_chars_bmi2(tb.s())) {
            let w: Option<Vec<u32>> = std_view.as_ref().map(|s| s.chars().map(|c| c as u32).collect());
            let cls = match (&v, &w) {
                (Err(_), Some(_)) => "valid_refused",
                (Ok(_), None) => "invalid_accepted",
                _ => vc,
            };
            ctx.eq("extract_utf8_chars", cls, &v.ok(), &w);
        }
    }
    if want(op, 5) {
        if let Some(v) = ctx.no_panic("utf8_to_utf16", || proc_.utf8_to_utf16_bmi2(tb.s())) {
            let w: Option<Vec<u16>> = std_view.as_ref().map(|s| s.encode_utf16().collect());
            let cls = match (&v, &w) {
                (Err(_), Some(_)) => "valid_refused",
                (Ok(_), None) => "invalid_accepted",
                _ => vc,
            };
            ctx.eq("utf8_to_utf16", cls, &v.ok(), &w);
        }
    }
    if valid {
        let t = as_str(tb.s());
        // substring search (needle must itself be a string)
        if std::str::from_utf8(&needle).is_ok() {
            let nb = buf!(ctx, &needle, p);
            let n = as_str(nb.s());
            let w = if needle.is_empty() { Some(0) } else { ref_find_sub(&bytes, &needle) };
            let pc = format!("{},{}", needle_len_class(needle.len()), pos_class(w, needle.len(), bytes.len()));
            ctx.label(format!("search:{pc}"));
            for im in 0..2 {
                if want(op, 6 + im) {
                    if let Some(v) = ctx.no_panic("search", || if im == 0 { proc_.search_bmi2(t, n) } else { z::search_string_bmi2(t, n) }) {
                        ctx.eq("search", &pc, &v, &w);
                    }
                }
            }
        } else {
            ctx.label("search:needle_not_utf8_skipped");
        }
        let lower: Vec<u8> = bytes.iter().map(|&b| if b.is_ascii_uppercase() { b + 32 } else { b }).collect();
        let upper: Vec<u8> = bytes.iter().map(|&b| if b.is_ascii_lowercase() { b - 32 } else { b }).collect();
        for im in 0..2 {
            if want(op, 8 + im) {
                if let Some(v) = ctx.no_panic("to_lowercase_ascii", || if im == 0 { proc_.to_lowercase_ascii_bmi2(t) } else { z::to_lowercase_ascii_bmi2(t) }) {
                    ctx.ensure("to_lowercase_ascii", lc, v.as_bytes() == &lower[..], || first_diff(v.as_bytes(), &lower));
                }
            }
            if want(op, 10 + im) {
                if let Some(v) = ctx.no_panic("to_uppercase_ascii", || if im == 0 { proc_.to_uppercase_ascii_bmi2(t) } else { z::to_uppercase_ascii_bmi2(t) }) {
                    ctx.ensure("to_uppercase_ascii", lc, v.as_bytes() == &upper[..], || first_diff(v.as_bytes(), &upper));
                }
            }
        }
        if bytes.is_ascii() {
            if want(op, 17) {
                let classes = vec![z::CharClass::Digit, z::CharClass::Range(b'a', b'f'), z::CharClass::Custom(vec![b' ', b'z'])];
                if let Some(v) = ctx.no_panic("char_class_match", || proc_.char_class_match_bmi2(t, &classes)) {
                    let w: Vec<bool> = bytes.iter().map(|&b| b.is_ascii_digit() || (b'a'..=b'f').contains(&b) || b == b' ' || b == b'z').collect();
                    ctx.eq("char_class_match", lc, &v, &w);
                }
            }
            if want(op, 18) {
                if let Some(v) = ctx.no_panic("filter_chars", || proc_.filter_chars_bmi2(t, z::CharFilter::AlnumOnly)) {
                    let w: Vec<u8> = bytes.iter().copied().filter(|b| b.is_ascii_alphanumeric()).collect();
                    ctx.ensure("filter_chars", lc, v.as_bytes() == &w[..], || first_diff(v.as_bytes(), &w));
                }
            }
        }
    }
    // wildcard matching over a two-letter alphabet (ASCII, so bytes == chars)
    {
        let wt = buf!(ctx, wild_text.as_bytes(), p);
        let wp = buf!(ctx, wild_pat.as_bytes(), p);
        let (t, pt) = (as_str(wt.s()), as_str(wp.s()));
        let tc: Vec<char> = wild_text.chars().collect();
        let pcs: Vec<char> = wild_pat.chars().collect();
        let w = ref_glob(&tc, &pcs);
        let accel = wild_text.len() >= 8 && wild_pat.len() >= 4;
        let cls = format!("{},{}", if accel { "accelerated(text>=8,pat>=4)" } else { "fallback" }, if w { "matches" } else { "no_match" });
        ctx.label(format!("wildcard:{cls}"));
        for im in 0..2 {
            if want(op, 12 + im) {
                if let Some(v) = ctx.no_panic("wildcard_match", || if im == 0 { proc_.wildcard_match_bmi2(t, pt) } else { z::wildcard_match_bmi2(t, pt) }) {
                    ctx.eq("wildcard_match", &cls, &v, &w);
                }
            }
        }
    }
    // bulk entry points equal the per-string entry points
    {
        let mut owned: Vec<String> = extra.to_vec();
        if let Some(s) = &std_view {
            owned.push(s.clone());
        }
        let strs: Vec<&str> = owned.iter().map(|s| s.as_str()).collect();
        ctx.label(format!("bulk:{}", if strs.len() >= 4 { "n>=4(accelerated)" } else { "n<4" }));
        if want(op, 14) {
            if let Some(v) = ctx.no_panic("hash_bulk", || proc_.hash_bulk_bmi2(&strs, 0x9E37)) {
                let singles: Option<Vec<u64>> = ctx.no_panic("hash_bulk", || strs.iter().map(|s| proc_.hash_string_bmi2(s, 0x9E37)).collect());
                if let Some(w) = singles {
                    ctx.eq("hash_bulk_vs_single", "", &v, &w);
                }
            }
        }
        if want(op, 15) {
            if let Some(v) = ctx.no_panic("validate_bulk", || proc_.validate_bulk_bmi2(&strs)) {
                ctx.eq("validate_bulk", "", &v, &vec![true; strs.len()]);
            }
        }
        if want(op, 16) {
            let pairs: Vec<(&str, &str)> = (0..strs.len()).map(|i| (strs[i], strs[(i + 1) % strs.len()])).chain(strs.iter().map(|s| (*s, *s))).collect();
            if let Some(v) = ctx.no_panic("compare_bulk", || proc_.compare_bulk_bmi2(&pairs)) {
                let w: Vec<bool> = pairs.iter().map(|(a, b)| a.as_bytes() == b.as_bytes()).collect();
                ctx.eq("compare_bulk", "", &v, &w);
            }
        }
    }
}

// ---------------------------------------------------------------------------------------
// cell: utf8  (io::simd_validation::utf8, string::unicode)
// ---------------------------------------------------------------------------------------

const UTF8_OPS: usize = 7;

fn run_utf8(ctx: &mut Ctx, text: &Text, p: Place, op: Option<u8>) {
    use zipora::io::simd_validation::utf8 as z;
    let bytes = text.bytes();
    let std_view = std::str::from_utf8(&bytes).ok().map(|s| s.to_string());
    let valid = std_view.is_some();
    nontrivial_bytes(ctx, &bytes);
    let lc = len_class(bytes.len());
    ctx.label(lc);
    ctx.label(text.class());
    ctx.label(align_class(p));
    ctx.label(if valid { "std:valid" } else { "std:invalid" });
    let cls = text.class();
    let tb = buf!(ctx, &bytes, p);
    for im in 0..4 {
        if !want(op, im) {
            continue;
        }
        let iname = ["validator", "validator_unmonitored", "validate_utf8_fn", "is_valid_utf8_fn"][im];
        let r = ctx.no_panic("validate_utf8", || match im {
            0 => {
                let v = z::Utf8Validator::new();
                (format!("{:?}", v.tier()), v.validate_utf8(tb.s()).ok())
            }
            1 => (String::new(), z::Utf8Validator::new_unmonitored().validate_utf8(tb.s()).ok()),
            2 => (String::new(), z::validate_utf8(tb.s()).ok()),
            _ => (String::new(), Some(z::is_valid_utf8(tb.s()))),
        });
        if let Some((tier, v)) = r {
            if !tier.is_empty() {
                ctx.label(format!("tier:{tier}"));
            }
            ctx.eq("validate_utf8", &format!("{iname},{cls}"), &v, &Some(valid));
        }
    }
    if want(op, 4) {
        if let Some(v) = ctx.no_panic("validate_and_count", || zipora::string::validate_utf8_and_count_chars(tb.s())) {
            let w = std_view.as_ref().map(|s| s.chars().count());
            ctx.eq("validate_and_count", &cls, &v.ok(), &w);
        }
    }
    if want(op, 5) {
        match ctx.no_panic("utf32_iter", || zipora::string::Utf8ToUtf32Iterator::new(tb.s())) {
            Some(Ok(mut it)) => {
                if let Some(s) = &std_view {
                    let want_fwd: Vec<char> = s.chars().collect();
                    let r = ctx.no_panic("utf32_iter", || {
                        let mut fwd = vec![];
                        while let Some(c) = it.next_char() {
                            fwd.push(c);
                            if fwd.len() > want_fwd.len() + 2 {
                                break;
                            }
                        }
                        let end = it.byte_position();
                        let mut back = vec![];
                        while let Some(c) = it.prev_char() {
                            back.push(c);
                            if back.len() > want_fwd.len() + 2 {
                                break;
                            }
                        }
                        (fwd, end, back, it.byte_position())
                    });
                    if let Some((fwd, end, back, start)) = r {
                        ctx.eq("utf32_iter_forward", &cls, &fwd, &want_fwd);
                        ctx.eq("utf32_iter_end_position", &cls, &end, &bytes.len());
                        let mut wb = want_fwd.clone();
                        wb.reverse();
                        ctx.eq("utf32_iter_backward", &cls, &back, &wb);
                        ctx.eq("utf32_iter_start_position", &cls, &start, &0usize);
                    }
                } else {
                    ctx.fail("utf32_iter_new", "mismatch", &cls, "iterator constructed over invalid UTF-8 (documented to validate first)");
                }
            }
            Some(Err(e)) => {
                if valid {
                    ctx.fail("utf32_iter_new", "err", &cls, format!("valid UTF-8 refused: {e}"));
                }
            }
            None => {}
        }
    }
    if want(op, 6) {
        for &b in bytes.iter().take(64) {
            let w = match b {
                0x00..=0x7F => 1,
                0x80..=0xBF => 0,
                0xC0..=0xDF => 2,
                0xE0..=0xEF => 3,
                0xF0..=0xF7 => 4,
                _ => 0,
            };
            if let Some(v) = ctx.no_panic("utf8_byte_count", || zipora::string::utf8_byte_count(b)) {
                if !ctx.eq("utf8_byte_count", "", &v, &w) {
                    break;
                }
            }
        }
    }
}

// ---------------------------------------------------------------------------------------
// cell: crc32c  (io::simd_validation::checksum)
// ---------------------------------------------------------------------------------------

const CRC_OPS: usize = 4;

fn run_crc(ctx: &mut Ctx, data: &Data, init: u32, splits: &[u16], p: Place, op: Option<u8>) {
    use zipora::io::simd_validation::checksum as z;
    let d = data.bytes();
    nontrivial_bytes(ctx, &d);
    let lc = len_class(d.len());
    ctx.label(lc);
    ctx.label(data.class());
    ctx.label(data.tweak_class());
    ctx.label(align_class(p));
    ctx.label(format!("tail:{}", d.len() % 8));
    if let Some(i) = ctx.no_panic("detect", z::detect_crc32c_impl) {
        ctx.label(format!("impl:{i:?}"));
    }
    let db = buf!(ctx, &d, p);
    if want(op, 0) {
        if let Some(v) = ctx.no_panic("crc32c", || z::crc32c(db.s(), init)) {
            ctx.eq("crc32c", lc, &v.ok(), &Some(ref_crc32c_raw(init, &d)));
        }
    }
    if want(op, 1) {
        if let Some(v) = ctx.no_panic("crc32c_hash", || z::crc32c_hash(db.s())) {
            ctx.eq("crc32c_hash", lc, &v.ok(), &Some(!ref_crc32c_raw(0xFFFF_FFFF, &d)));
        }
    }
    if want(op, 2) {
        // generated chunking: update over consecutive pieces == one shot; finalize == !x
        let mut cuts: Vec<usize> = splits.iter().map(|&s| idx(s, d.len() + 1)).collect();
        cuts.sort();
        cuts.push(d.len());
        ctx.label(format!("chunks:{}", cuts.len().min(5)));
        let r = ctx.no_panic("crc32c_update", || {
            let (mut crc, mut at) = (init, 0usize);
            for &c in &cuts {
                crc = z::crc32c_update(crc, &db.s()[at..c]).ok()?;
                at = c;
            }
            Some((crc, z::crc32c_finalize(crc)))
        });
        if let Some(v) = r {
            let w = ref_crc32c_raw(init, &d);
            ctx.eq("crc32c_update_chunked", lc, &v, &Some((w, !w)));
        }
    }
    if want(op, 3) && d.len() <= 200 {
        // split at every position
        let w = ref_crc32c_raw(init, &d);
        for k in 0..=d.len() {
            let r = ctx.no_panic("crc32c_update", || z::crc32c_update(z::crc32c_update(init, &db.s()[..k]).ok()?, &db.s()[k..]).ok());
            if let Some(v) = r {
                if !ctx.eq("crc32c_update_every_split", lc, &v, &Some(w)) {
                    break;
                }
            }
        }
    }
}

// ---------------------------------------------------------------------------------------
// cell: base64  (system::base64, io::simd_encoding::base64)
// ---------------------------------------------------------------------------------------

fn run_base64(ctx: &mut Ctx, data: &Data, cfg: u8, force: u8, m: &B64Mut, p: Place) {
    use zipora::io::simd_encoding::base64 as io64;
    use zipora::system::base64::*;
    let d = data.bytes();
    if d.len() >= 4 {
        ctx.nontrivial();
    }
    let (url, pad) = (cfg & 1 != 0, cfg & 2 != 0);
    let forced = match force % 6 {
        0 => None,
        1 => Some(SimdImplementation::Scalar),
        2 => Some(SimdImplementation::SSE42),
        3 => Some(SimdImplementation::AVX2),
        4 => Some(SimdImplementation::AVX512),
        _ => Some(SimdImplementation::NEON),
    };
    let lc = len_class(d.len());
    ctx.label(lc);
    ctx.label(format!("tail:{}", d.len() % 3));
    ctx.label(format!("config:{}{}", if url { "url" } else { "std" }, if pad { "+pad" } else { "-pad" }));
    ctx.label(format!("forced:{forced:?}"));
    let mk = move |f: Option<SimdImplementation>| Base64Config { url_safe: url, padding: pad, force_implementation: f };
    let cc = format!("{}{}", if url { "url" } else { "std" }, if pad { "+pad" } else { "-pad" });
    let want_enc = ref_b64_encode(&d, url, pad);
    let db = buf!(ctx, &d, p);

    // encode: forced implementation, auto implementation, encoder type
    let r = ctx.no_panic("encode", || {
        let a = AdaptiveBase64::with_config(mk(forced)).encode(db.s());
        let b = AdaptiveBase64::with_config(mk(None)).encode(db.s());
        let c = SimdBase64Encoder::with_config(mk(forced)).encode(db.s());
        (a, b, c)
    });
    if let Some((a, b, c)) = r {
        ctx.eq("encode", &format!("forced,{cc}"), &a, &want_enc);
        ctx.eq("encode", &format!("auto,{cc}"), &b, &want_enc);
        ctx.eq("encode", &format!("encoder_type,{cc}"), &c, &want_enc);
    }
    // decode of the canonical text: inverse
    let eb = buf!(ctx, want_enc.as_bytes(), p);
    let et = as_str(eb.s());
    let r = ctx.no_panic("decode", || {
        let a = AdaptiveBase64::with_config(mk(forced)).decode(et).ok();
        let b = SimdBase64Decoder::with_config(mk(forced)).decode(et).ok();
        (a, b)
    });
    if let Some((a, b)) = r {
        ctx.eq("decode_inverse", &format!("forced,{cc}"), &a, &Some(d.clone()));
        ctx.eq("decode_inverse", &format!("decoder_type,{cc}"), &b, &Some(d.clone()));
    }
    // standard-alphabet convenience entry points and the io layer
    if !url && pad {
        let r = ctx.no_panic("std_entry_points", || {
            let e1 = base64_encode_simd(db.s());
            let d1 = base64_decode_simd(et).ok();
            let e2 = io64::encode_base64(db.s()).ok();
            let d2 = io64::decode_base64(et).ok();
            let mut ob = vec![0x5Au8; want_enc.len() + 3];
            let n = io64::encode_base64_to_buffer(db.s(), &mut ob).ok();
            let mut od = vec![0x5Au8; d.len() + 3];
            let k = io64::decode_base64_from_buffer(eb.s(), &mut od).ok();
            let small = if want_enc.is_empty() { None } else { Some(io64::encode_base64_to_buffer(db.s(), &mut vec![0u8; want_enc.len() - 1]).is_err()) };
            (e1, d1, e2, d2, (n, ob), (k, od), small, io64::calculate_encoded_len(d.len()), io64::calculate_decoded_len(want_enc.len()))
        });
        if let Some((e1, d1, e2, d2, (n, ob), (k, od), small, el, dl)) = r {
            ctx.eq("encode", "base64_encode_simd", &e1, &want_enc);
            ctx.eq("decode_inverse", "base64_decode_simd", &d1, &Some(d.clone()));
            ctx.eq("encode", "io_encode_base64", &e2, &Some(want_enc.clone()));
            ctx.eq("decode_inverse", "io_decode_base64", &d2, &Some(d.clone()));
            ctx.eq("encode_to_buffer", "written", &n, &Some(want_enc.len()));
            ctx.ensure("encode_to_buffer", "content", ob[..want_enc.len()] == *want_enc.as_bytes() && ob[want_enc.len()..].iter().all(|&x| x == 0x5A), || "buffer content differs or bytes after the reported length were written".into());
            ctx.eq("decode_from_buffer", "written", &k, &Some(d.len()));
            ctx.ensure("decode_from_buffer", "content", od[..d.len()] == d[..] && od[d.len()..].iter().all(|&x| x == 0x5A), || "buffer content differs or bytes after the reported length were written".into());
            if let Some(s) = small {
                ctx.ensure("encode_to_buffer", "too_small_refused", s, || "a too small output buffer was accepted".into());
            }
            ctx.eq("calculate_encoded_len", "", &el, &want_enc.len());
            ctx.ensure("calculate_decoded_len", "", dl >= d.len(), || format!("maximum decoded length {dl} < actual {}", d.len()));
        }
    }
    // mutated text: Ok => equals the lenient RFC decode; canonical => must be accepted
    let mut t = want_enc.clone().into_bytes();
    let mname = match m {
        B64Mut::None => "none",
        B64Mut::DropPad => {
            while t.last() == Some(&b'=') {
                t.pop();
            }
            "drop_pad"
        }
        B64Mut::ExtraPad => {
            t.push(b'=');
            "extra_pad"
        }
        B64Mut::BadChar { at, ch } => {
            if !t.is_empty() {
                let i = idx(*at, t.len());
                t[i] = if ch.is_ascii() { *ch } else { b'!' };
            }
            "bad_char"
        }
        B64Mut::OtherAlphabet => {
            for c in t.iter_mut() {
                *c = match *c {
                    b'+' => b'-',
                    b'/' => b'_',
                    b'-' => b'+',
                    b'_' => b'/',
                    x => x,
                };
            }
            "other_alphabet"
        }
        B64Mut::Truncate { keep } => {
            let n = idx(*keep, t.len() + 1);
            t.truncate(n);
            "truncate"
        }
        B64Mut::TrailingBits { bits } => {
            let tab = if url { B64_URL } else { B64_STD };
            if let Some(i) = t.iter().rposition(|&c| c != b'=') {
                if d.len() % 3 != 0 {
                    let v = tab.iter().position(|&x| x == t[i]).unwrap_or(0) as u8;
                    let low = if d.len() % 3 == 1 { 0x0F } else { 0x03 };
                    t[i] = tab[(v | (bits & low).max(1)) as usize & 63];
                }
            }
            "trailing_bits"
        }
    };
    ctx.label(format!("mutation:{mname}"));
    if let Ok(ts) = std::str::from_utf8(&t) {
        let lenient = ref_b64_decode_lenient(&t, url);
        let canonical = ref_b64_is_canonical(&t, url, pad);
        let mb = buf!(ctx, ts.as_bytes(), p);
        let mt = as_str(mb.s());
        if let Some(v) = ctx.no_panic("decode", || AdaptiveBase64::with_config(mk(forced)).decode(mt).ok()) {
            match (&v, &lenient) {
                (Some(got), Some(w)) => {
                    ctx.label("mutated:accepted");
                    ctx.eq("decode_mutated", &format!("{mname},{cc}"), got, w);
                }
                (Some(_), None) => ctx.fail("decode_mutated", "mismatch", &format!("{mname},{cc},undecodable_accepted"), format!("text {:?} is not Base64 under any reading but decode returned Ok", ts)),
                (None, _) => {
                    ctx.label("mutated:refused");
                    if canonical {
                        ctx.fail("decode_mutated", "err", &format!("{mname},{cc},canonical_refused"), format!("canonical text {:?} refused", ts));
                    }
                }
            }
        }
    }
}

// ---------------------------------------------------------------------------------------
// cell: hex  (string::hex)
// ---------------------------------------------------------------------------------------

fn run_hex(ctx: &mut Ctx, data: &Data, m: &HexMut, slack: u8) {
    use zipora::string as z;
    let d = data.bytes();
    if d.len() >= 2 {
        ctx.nontrivial();
    }
    let lc = len_class(d.len());
    ctx.label(lc);
    let (lo, up) = (ref_hex_encode(&d, false), ref_hex_encode(&d, true));
    let r = ctx.no_panic("encode", || {
        let mut exact = vec![0x5Au8; d.len() * 2 + slack as usize];
        let n = z::hex_encode_to_slice(&d, &mut exact).ok();
        let small = if d.is_empty() { None } else { Some(z::hex_encode_to_slice(&d, &mut vec![0u8; d.len() * 2 - 1]).is_err()) };
        (z::hex_encode(&d), z::hex_encode_upper(&d), z::hex_encode_to_bytes(&d), n, exact, small)
    });
    if let Some((a, b, c, n, buf, small)) = r {
        ctx.ensure("hex_encode", lc, a.as_bytes() == &lo[..], || first_diff(a.as_bytes(), &lo));
        ctx.ensure("hex_encode_upper", lc, b.as_bytes() == &up[..], || first_diff(b.as_bytes(), &up));
        ctx.ensure("hex_encode_to_bytes", lc, c == lo, || first_diff(&c, &lo));
        ctx.eq("hex_encode_to_slice", "written", &n, &Some(lo.len()));
        ctx.ensure("hex_encode_to_slice", "content", buf[..lo.len()] == lo[..] && buf[lo.len()..].iter().all(|&x| x == 0x5A), || "content differs or wrote past the reported length".into());
        if let Some(s) = small {
            ctx.ensure("hex_encode_to_slice", "too_small_refused", s, || "too small buffer accepted".into());
        }
    }
    let mut t = lo.clone();
    let mname = match m {
        HexMut::None => "none",
        HexMut::MixCase { mask } => {
            for (i, c) in t.iter_mut().enumerate() {
                if (mask >> (i % 64)) & 1 == 1 {
                    *c = c.to_ascii_uppercase();
                }
            }
            "mixed_case"
        }
        HexMut::BadChar { at, ch } => {
            if !t.is_empty() {
                let i = idx(*at, t.len());
                t[i] = *ch;
            }
            "bad_char"
        }
        HexMut::OddLength => {
            t.push(b'0');
            "odd_length"
        }
    };
    ctx.label(format!("mutation:{mname}"));
    let w = ref_hex_decode(&t);
    ctx.label(if w.is_some() { "hex:valid" } else { "hex:invalid" });
    let r = ctx.no_panic("decode", || {
        let mut out = vec![0x5Au8; t.len() / 2 + slack as usize];
        let n = z::hex_decode_to_slice(&t, &mut out).ok();
        let small = if t.len() >= 2 { Some(z::hex_decode_to_slice(&t, &mut vec![0u8; t.len() / 2 - 1]).is_err()) } else { None };
        let s = std::str::from_utf8(&t).ok();
        (z::hex_decode_bytes(&t).ok(), s.map(|s| z::hex_decode(s).ok()), s.map(z::is_valid_hex), n, out, small)
    });
    if let Some((a, b, v, n, out, small)) = r {
        ctx.eq("hex_decode_bytes", mname, &a, &w);
        if let Some(b) = b {
            ctx.eq("hex_decode", mname, &b, &w);
        }
        if let Some(v) = v {
            ctx.eq("is_valid_hex", mname, &v, &w.is_some());
        }
        ctx.eq("hex_decode_to_slice", &format!("{mname},written"), &n, &w.as_ref().map(|x| x.len()));
        if let Some(wv) = &w {
            ctx.ensure("hex_decode_to_slice", "content", out[..wv.len()] == wv[..] && out[wv.len()..].iter().all(|&x| x == 0x5A), || "content differs or wrote past the reported length".into());
        }
        if let Some(s) = small {
            ctx.ensure("hex_decode_to_slice", "too_small_refused", s, || "too small buffer accepted".into());
        }
    }
    // single characters / pairs around the class boundaries
    for &c in t.iter().take(8).chain([b'/', b'0', b'9', b':', b'@', b'A', b'F', b'G', b'`', b'a', b'f', b'g', 0x80, 0xff].iter()) {
        if let Some(v) = ctx.no_panic("hex_char_to_nibble", || (z::hex_char_to_nibble(c), z::parse_hex_byte(c, b'7'), z::parse_hex_byte(b'c', c))) {
            let n = ref_hex_nibble(c);
            ctx.eq("hex_char_to_nibble", "", &v.0, &n);
            ctx.eq("parse_hex_byte", "", &(v.1, v.2), &(n.map(|x| x << 4 | 7), n.map(|x| 0xC0 | x)));
        }
    }
}

// ---------------------------------------------------------------------------------------
// cell: bitops  (entropy::bit_ops, succinct::rank_select::bmi2_acceleration word helpers)
// ---------------------------------------------------------------------------------------

const BITOPS_CFGS: [&str; 4] = ["native", "forced_software", "bmi2_only", "popcnt_only"];

fn run_bitops(ctx: &mut Ctx, xs: &[u64], masks: &[u64], ks: &[u8], cfg: u8) {
    use zipora::entropy::bit_ops::{BitOps, BitOpsConfig, EntropyBitOps};
    use zipora::succinct::rank_select::bmi2_acceleration as acc;
    let ci = cfg as usize % 4;
    let cname = BITOPS_CFGS[ci];
    ctx.label(format!("config:{cname}"));
    let mkcfg = || {
        let d = BitOpsConfig::default();
        match ci {
            0 => d,
            1 => BitOpsConfig { enable_bmi2: false, enable_avx2: false, enable_popcnt: false, software_fallback: true, ..d },
            2 => BitOpsConfig { enable_bmi2: true, enable_avx2: false, enable_popcnt: false, software_fallback: true, ..d },
            _ => BitOpsConfig { enable_bmi2: false, enable_avx2: true, enable_popcnt: true, software_fallback: true, ..d },
        }
    };
    let Some((ops, eops)) = ctx.no_panic("construct", || (BitOps::with_config(mkcfg()), EntropyBitOps::with_config(mkcfg()))) else { return };
    ctx.label(format!("has_bmi2:{}", ops.has_bmi2()));
    if xs.iter().any(|&x| x != 0 && x != u64::MAX) {
        ctx.nontrivial();
    }
    for (i, &x) in xs.iter().enumerate() {
        let m = masks.get(i % masks.len().max(1)).copied().unwrap_or(u64::MAX);
        let k = ks.get(i % ks.len().max(1)).copied().unwrap_or(0) as u32;
        let (x32, m32) = (x as u32, m as u32);
        ctx.label(format!("popcount:{}", match ref_popcount(x) { 0 => "0", 1 => "1", 2..=62 => "2-62", 63 => "63", _ => "64" }));
        let r = ctx.no_panic("word_ops", || {
            (
                (ops.popcount64(x), ops.popcount32(x32), ops.trailing_zeros64(x), ops.trailing_zeros32(x32)),
                (ops.parallel_deposit64(x, m), ops.parallel_deposit32(x32, m32), ops.pdep_u64(x, m)),
                (ops.parallel_extract64(x, m), ops.parallel_extract32(x32, m32), ops.pext_u64(x, m)),
                (ops.zero_high_bits64(x, k % 72), ops.zero_high_bits32(x32, k % 40)),
                (ops.select_bit64(x, k % 66), ops.select_bit32(x32, k % 34)),
                (ops.bit_reverse_bmi2(x), ops.reverse_bits64(x), ops.reverse_bits32(x32), eops.reverse_bits32(x32)),
                ops.bit_interleaving_bmi2(x32, m32),
            )
        });
        if let Some((pc, pd, pe, zh, sel, rev, il)) = r {
            ctx.eq("popcount", cname, &pc, &(ref_popcount(x), ref_popcount(x32 as u64), ref_tz(x, 64), ref_tz(x32 as u64, 32)));
            ctx.eq("parallel_deposit", cname, &pd, &(ref_pdep(x, m), ref_pdep(x32 as u64, m32 as u64) as u32, ref_pdep(x, m)));
            ctx.eq("parallel_extract", cname, &pe, &(ref_pext(x, m), ref_pext(x32 as u64, m32 as u64) as u32, ref_pext(x, m)));
            ctx.eq("zero_high_bits", cname, &zh, &(x & low_mask(k % 72), x32 & low_mask((k % 40).min(32)) as u32));
            ctx.eq("select_in_word", cname, &sel, &(ref_select(x, k % 66, 64), ref_select(x32 as u64, k % 34, 32)));
            ctx.eq("bit_reverse", cname, &rev, &(ref_reverse(x, 64), ref_reverse(x, 64), ref_reverse(x32 as u64, 32) as u32, ref_reverse(x32 as u64, 32) as u32));
            let mut w = 0u64;
            for b in 0..32 {
                w |= ((x32 as u64 >> b) & 1) << (2 * b) | ((m32 as u64 >> b) & 1) << (2 * b + 1);
            }
            ctx.eq("bit_interleave", cname, &il, &w);
        }
        // variable-length field helpers, in-range arguments only
        let (start, length) = (k % 64, 1 + (m as u32 % 32));
        if start + length <= 64 {
            let r = ctx.no_panic("variable_length", || (ops.decode_variable_length_bmi2(x, start, length).ok(), ops.encode_variable_length_bmi2(x32, length).ok()));
            if let Some(v) = r {
                ctx.eq("variable_length", cname, &v, &(Some(((x >> start) & low_mask(length)) as u32), Some(x32 as u64 & low_mask(length))));
            }
        }
        // stateless word helpers (global capability detection)
        if ci == 0 {
            let r = ctx.no_panic("bmi2_word_helpers", || {
                (
                    (acc::Bmi2BitOps::extract_bits(x, m), acc::Bmi2BitOps::deposit_bits(x, m)),
                    (acc::Bmi2BitOps::reset_lowest_bit(x), acc::Bmi2BitOps::isolate_lowest_bit(x), acc::Bmi2BitOps::mask_up_to_lowest_bit(x)),
                    (acc::Bmi2RankOps::popcount_u64(x), acc::Bmi2RankOps::popcount_trail(x, k % 70), acc::Bmi2RankOps::leading_zeros(x), acc::Bmi2RankOps::trailing_zeros(x)),
                    (acc::Bmi2SelectOps::select1_u64(x, k % 66), acc::Bmi2SelectOps::select1_u64_enhanced(x, k % 66), acc::Bmi2SelectOps::select0_u64(x, k % 66)),
                    acc::Bmi2BextrOps::extract_bits_bextr(x, k % 64, 1 + m as u32 % 64),
                )
            });
            if let Some((pp, low, cnt, sel, bx)) = r {
                ctx.eq("bmi2_pext_pdep", "", &pp, &(ref_pext(x, m), ref_pdep(x, m)));
                let lowest = if x == 0 { 0 } else { 1u64 << ref_tz(x, 64) };
                ctx.eq("bmi2_lowest_bit", "", &low, &(x & !lowest, lowest, if x == 0 { u64::MAX } else { lowest | (lowest - 1) }));
                ctx.eq("bmi2_counts", "", &cnt, &(ref_popcount(x), ref_popcount(x & low_mask(k % 70)), ref_lz(x), ref_tz(x, 64)));
                ctx.eq("bmi2_select", "", &sel, &(ref_select(x, k % 66, 64), ref_select(x, k % 66, 64), ref_select(!x, k % 66, 64)));
                let (s, l) = (k % 64, (1 + m as u32 % 64).min(64 - k % 64));
                ctx.eq("bmi2_bextr", "", &bx, &((x >> s) & low_mask(l)));
            }
        }
    }
    // slice helpers
    ctx.label(format!("vector_len:{}", match xs.len() { 0 => "0", 1..=3 => "1-3", 4..=7 => "4-7", _ => "8+" }));
    let wpc: Vec<u32> = xs.iter().map(|&x| ref_popcount(x)).collect();
    if let Some(v) = ctx.no_panic("vectorized_popcount", || ops.vectorized_popcount(xs)) {
        ctx.eq("vectorized_popcount", cname, &v, &wpc);
    }
    if ci == 0 {
        if let Some(v) = ctx.no_panic("popcount_bulk", || acc::Bmi2RankOps::popcount_bulk(xs)) {
            ctx.eq("popcount_bulk", "", &v, &wpc);
        }
    }
    if let Some(&x) = xs.first() {
        let cls = if masks.is_empty() { "empty_masks" } else { cname };
        let w: Vec<u64> = masks.iter().map(|&m| ref_pext(x, m)).collect();
        if let Some(v) = ctx.no_panic("parallel_bit_extract", || ops.parallel_bit_extract_bmi2(x, masks)) {
            ctx.eq("parallel_bit_extract", cls, &v, &w);
        }
        if let Some(v) = ctx.no_panic("extract_huffman_symbols", || ops.extract_huffman_symbols_bmi2(x, masks)) {
            ctx.eq("extract_huffman_symbols", cls, &v, &w.iter().map(|&y| y as u32).collect::<Vec<u32>>());
        }
    }
}

// ---------------------------------------------------------------------------------------
// cell: hist  (byte histogram behind Bmi2StringProcessor::analyze_compression_bmi2)
// ---------------------------------------------------------------------------------------

fn run_hist(ctx: &mut Ctx, text: &Text) {
    use zipora::string::bmi2 as z;
    let bytes = text.bytes();
    let Ok(s) = std::str::from_utf8(&bytes) else {
        ctx.label("not_utf8_skipped");
        return;
    };
    nontrivial_bytes(ctx, &bytes);
    let lc = len_class(bytes.len());
    ctx.label(lc);
    ctx.label(if bytes.len() >= 16 { "path:accelerated(len>=16)" } else { "path:fallback(len<16)" });
    ctx.label(format!("tail:{}", bytes.len() % 8));
    let mut want = std::collections::BTreeMap::new();
    for &b in &bytes {
        *want.entry(b).or_insert(0u32) += 1;
    }
    let r = ctx.no_panic("histogram", || {
        let a = z::Bmi2StringProcessor::new().analyze_compression_bmi2(s);
        (a.char_frequencies.into_iter().collect::<std::collections::BTreeMap<u8, u32>>(), a.unique_chars, a.total_chars)
    });
    if let Some((h, u, t)) = r {
        ctx.eq("histogram", lc, &h, &want);
        ctx.eq("histogram_unique", lc, &u, &want.len());
        ctx.eq("histogram_total", lc, &t, &bytes.len());
    }
}

// ---------------------------------------------------------------------------------------
// cell: hm_str  (hash_map::simd_string_ops)
// ---------------------------------------------------------------------------------------

const HMSTR_OPS: usize = 4;

fn printable(v: &[u8]) -> Vec<u8> {
    v.iter().map(|&b| 0x20 + b % 0x5f).collect()
}

fn run_hm_str(ctx: &mut Ctx, a: &Data, rel: &Rel, prefix_mode: u8, pa: Place, pb: Place, op: Option<u8>) {
    use zipora::hash_map::{get_global_simd_ops, SimdStringOps};
    // both strings are printable ASCII; the relation is applied before the mapping and a byte
    // that the mapping would merge again is re-separated, so "different" stays different
    let raw_a = a.bytes();
    let raw_b = rel.derive(&raw_a);
    let sa = printable(&raw_a);
    let mut sb = printable(&raw_b);
    for i in 0..sa.len().min(sb.len()) {
        if raw_a[i] != raw_b[i] && sa[i] == sb[i] {
            sb[i] = if sb[i] == b'~' { b' ' } else { sb[i] + 1 };
        }
    }
    nontrivial_bytes(ctx, &sa);
    let lc = len_class(sa.len());
    ctx.label(lc);
    ctx.label(align_class(pa));
    ctx.label(format!("rel:{}", rel.class()));
    let pref = |v: &[u8]| v.iter().take(8).enumerate().fold(0u64, |acc, (i, &b)| acc | (b as u64) << (8 * i));
    // cached prefix: 0 = none cached, otherwise the true prefix of the *stored* key (second string)
    let cached = if prefix_mode % 2 == 0 { 0 } else { pref(&sb) };
    ctx.label(if cached == 0 { "prefix:none" } else { "prefix:of_stored_key" });
    let Some(inst) = ctx.no_panic("construct", SimdStringOps::new) else { return };
    ctx.label(format!("tier:{:?}", inst.tier()));
    let ab = buf!(ctx, &sa, pa);
    let bb = buf!(ctx, &sb, pb);
    let (ta, tb) = (as_str(ab.s()), as_str(bb.s()));
    let w = sa == sb;
    for im in 0..2 {
        if want(op, im) {
            let r = ctx.no_panic("fast_string_compare", || if im == 0 { inst.fast_string_compare(ta, tb, cached) } else { get_global_simd_ops().fast_string_compare(ta, tb, cached) });
            if let Some(v) = r {
                ctx.eq("fast_string_compare", &format!("{},{}", ["instance", "global"][im], rel.class()), &v, &w);
            }
        }
        if want(op, 2 + im) {
            let r = ctx.no_panic("extract_prefix", || if im == 0 { inst.extract_prefix_simd(ta) } else { get_global_simd_ops().extract_prefix_simd(ta) });
            if let Some(v) = r {
                ctx.eq("extract_prefix", if sa.len() >= 8 { "len>=8" } else { "len<8" }, &v, &pref(&sa));
            }
        }
    }
}

// ---------------------------------------------------------------------------------------
// cell: faststr  (string::fast_str, search/compare part; ordering is C20's business)
// ---------------------------------------------------------------------------------------

fn run_faststr(ctx: &mut Ctx, hay: &Data, pat: &Pat, rel: &Rel, ch: &Needle1) {
    use zipora::FastStr;
    let (h0, needle) = pat.apply(hay.bytes());
    let (h, c) = ch.apply(h0);
    let b = rel.derive(&h);
    nontrivial_bytes(ctx, &h);
    let lc = len_class(h.len());
    ctx.label(lc);
    ctx.label(format!("rel:{}", rel.class()));
    let w_pat = if needle.is_empty() { Some(0) } else { ref_find_sub(&h, &needle) };
    let pc = format!("{},{}", needle_len_class(needle.len()), pos_class(w_pat, needle.len(), h.len()));
    ctx.label(format!("pattern:{pc}"));
    let r = ctx.no_panic("faststr", || {
        let (fh, fnd, fb) = (FastStr::new(&h), FastStr::new(&needle), FastStr::new(&b));
        (fh.find(fnd), fh.find_byte(c), fh.find_byte_optimized(c), fh.compare(fb), fh.common_prefix_len(fb), fh.starts_with(fnd), fh.ends_with(fnd))
    });
    if let Some((f, fb1, fb2, cmp, cpl, sw, ew)) = r {
        ctx.eq("find", &pc, &f, &w_pat);
        let wc = ref_find_byte(&h, c);
        ctx.eq("find_byte", pos_class(wc, 1, h.len()), &(fb1, fb2), &(wc, wc));
        ctx.eq("compare", rel.class(), &cmp, &ref_cmp(&h, &b));
        ctx.eq("common_prefix_len", rel.class(), &cpl, &ref_common_prefix(&h, &b));
        let n = needle.len();
        ctx.eq("starts_ends_with", "", &(sw, ew), &(n <= h.len() && h[..n] == needle[..], n <= h.len() && h[h.len() - n..] == needle[..]));
    }
}

// ---------------------------------------------------------------------------------------
// the property
// ---------------------------------------------------------------------------------------

fn search_case(tier: Tier, guard: bool, ops: BoxedStrategy<Option<u8>>, io: bool) -> BoxedStrategy<Case> {
    (data(len_s(tier)), pat(), char_set(), rel(tier), needle1(), place(guard), place(guard), ops)
        .prop_map(move |(hay, pat, set, b, ch, ph, pn, op)| {
            if io {
                Case::IoSearch { hay, pat, set, b, ch, ph, pn, op }
            } else {
                Case::StrSearch { hay, pat, set, b, ch, ph, pn, op }
            }
        })
        .boxed()
}

fn mem_case(tier: Tier, guard: bool) -> BoxedStrategy<Case> {
    (data(len_s(tier)), rel(tier), needle1(), any::<u8>(), place(guard), place(guard), 0u8..5, opt_op(guard, MEM_OPS))
        .prop_map(|(a, b, needle, fill, pa, pb, cfg, op)| Case::Mem { a, b, needle, fill, pa, pb, cfg, op })
        .boxed()
}

fn bmi2_case(tier: Tier, guard: bool) -> BoxedStrategy<Case> {
    let wild_text = prop_oneof![3 => "[ab]{0,7}", 5 => "[ab]{8,20}", 1 => "[abc]{8,40}"];
    let wild_pat = prop_oneof![2 => "[ab*?]{0,3}", 6 => "[ab*?]{4,9}", 1 => "[ab]{2,4}\\*[ab]{1,3}", 1 => "\\*[ab]{2,4}"];
    let extra = proptest::collection::vec(prop_oneof![3 => "[a-z ]{0,12}", 1 => "[a-zé世🦀]{6,14}", 1 => "[a-z]{30,40}"], 0..6);
    (text(tier), pat(), wild_text, wild_pat, extra, place(guard), opt_op(guard, BMI2_OPS))
        .prop_map(|(text, pat, wild_text, wild_pat, extra, p, op)| Case::Bmi2 { text, pat, wild_text, wild_pat, extra, p, op })
        .boxed()
}

fn bit_words() -> BoxedStrategy<Vec<u64>> {
    let w = prop_oneof![
        3 => gen::u64_boundary(),
        3 => any::<u64>(),
        1 => (0u32..64, 0u32..64).prop_map(|(a, b)| (1u64 << a) | (1u64 << b)),
        1 => (0u32..64).prop_map(|a| !(1u64 << a)),
        1 => proptest::sample::select(vec![0u64, u64::MAX, 0x5555_5555_5555_5555, 0xAAAA_AAAA_AAAA_AAAA, 0x8000_0000_0000_0001, 0xFFFF_FFFF, 0xFFFF_FFFF_0000_0000]),
    ];
    prop_oneof![4 => proptest::collection::vec(w.clone(), 1..6), 2 => proptest::collection::vec(w.clone(), 4..14), 1 => proptest::collection::vec(w, 0..2)].boxed()
}

impl Prop for P {
    fn id(&self) -> &'static str {
        "C14"
    }
    fn rule(&self) -> &'static str {
        "one proptest strategy per cell; byte strings of length 0..=130 (uniform), the lane/page boundaries {15..17,31..33,47..49,63..65,95..97,127..129,255..257,511..513,4095..4097} and up to 6000 (quick) / 20000 (thorough) bytes, about one case in 150 of 8..68 KiB (block-accumulator and multi-round kernels), 11 content classes plus forced >=0x80 / embedded-NUL / 0x7f-0x80 tweaks; second operands derived from the first (same, one differing byte, differing last byte, proper prefix, extension, unrelated); needles planted at a generated position incl. the last byte, absent, or cut from the haystack with the last byte changed; UTF-8 built as valid filler + one of 10 systematically invalid fragments placed at the end or at a 16/32/64-byte lane boundary; every buffer materialised at a generated alignment 0..63 inside a canary-filled block, in *_guard cells flush against a PROT_NONE page with exactly one operation per case. Non-trivial = the primary byte string has length >= 17 and is not constant (bitops: a word other than 0/!0; base64/hex: >= 4 / >= 2 bytes). Distinct by hash of the case JSON."
    }
    fn assumptions(&self) -> Vec<String> {
        vec![
            "the host's native tier is the only tier executed (no tier-cap hook exists yet); additional implementations are reached only through public scalar_* twins, SearchConfig / BitOpsConfig / Base64Config forced configurations".into(),
            "SimdMemOps::compare and fast_compare: only the sign is asserted (lexicographic on unsigned bytes, proper prefix is smaller)".into(),
            "copy_aligned / copy_aligned_simd may refuse buffers that are not 64-byte aligned, copy_small_simd may refuse > 256 bytes (documented); Ok must mean an exact copy".into(),
            "string::simd_search::sse42_strstr with an empty needle is not asserted (unit test pins None, scalar twin answers Some(0))".into(),
            "fast_string_compare is called with cached_prefix = 0 or the true 8-byte prefix of the second string, as its hash-map caller does".into(),
            "Base64 decode of non-canonical text: Ok must equal the lenient RFC 4648 reading, refusal is allowed; canonical text must be accepted".into(),
            "BitOpsConfig with software_fallback = false and BMI2/POPCNT disabled is not generated (documented nowhere; returns `source & mask`)".into(),
            "decode_variable_length_bmi2 only with start+length <= 64; zero_high_bits index < 72".into(),
            "wildcard, case conversion, character class and filter operations are driven with ASCII text only".into(),
        ]
    }
    fn tier_caps(&self) -> Vec<(&'static str, f64)> {
        vec![("scalar", 0.2), ("sse42", 0.25), ("avx2", 0.25)]
    }
    fn plans(&self, tier: Tier) -> Vec<Plan> {
        let q = |a: usize, b: usize| tier.pick(a, b);
        // hook H2: the whole check runs under one tier cap (detection is cached per process and
        // workers inherit the environment); the cap becomes part of every cell name
        // hook H2: the engine runs every plan additionally under the caps of tier_caps() in
        // separately spawned workers (detection is cached per process); the cap becomes part
        // of the signature (`...@A+sse42`), cell names stay plain
        let nm = |cell: &str| cell.to_string();
        let mut v = vec![];
        v.push(Plan::new(&nm("mem"), q(40000, 320000), q(4000, 32000), mem_case(tier, false)));
        v.push(Plan::new(&nm("mem_guard"), q(40000, 320000), q(4000, 32000), mem_case(tier, true)));
        for guard in [false, true] {
            v.push(Plan::new(&nm(if guard { "io_copy_guard" } else { "io_copy" }),
                q(24000, 200000),
                q(2400, 20000),
                (data(len_s(tier)), place(guard), place(guard), opt_op(guard, IOCOPY_OPS)).prop_map(|(a, pa, pb, op)| Case::IoCopy { a, pa, pb, op }),
            ));
        }
        // find_pattern through the PCMPESTRI kernel (ops 6,7,9,10) has its own guard cell
        let strstr_ops: Vec<u8> = vec![6, 7, 9, 10];
        let other_ops: Vec<u8> = (0..IOSEARCH_OPS as u8).filter(|o| !strstr_ops.contains(o)).collect();
        v.push(Plan::new(&nm("io_search"), q(40000, 320000), q(4000, 32000), search_case(tier, false, opt_op(false, IOSEARCH_OPS), true)));
        v.push(Plan::new(&nm("io_search_guard"), q(48000, 360000), q(4800, 36000), search_case(tier, true, op_from(other_ops), true)));
        v.push(Plan::new(&nm("io_search_guard_strstr"), q(9600, 80000), q(960, 8000), search_case(tier, true, op_from(strstr_ops), true)));
        v.push(Plan::new(&nm("str_search"), q(40000, 320000), q(4000, 32000), search_case(tier, false, opt_op(false, STRSEARCH_OPS), false)));
        v.push(Plan::new(&nm("str_search_guard"), q(32000, 240000), q(3200, 24000), search_case(tier, true, opt_op(true, STRSEARCH_OPS), false)));
        v.push(Plan::new(&nm("bmi2_str"), q(40000, 320000), q(4000, 32000), bmi2_case(tier, false)));
        v.push(Plan::new(&nm("bmi2_str_guard"), q(40000, 320000), q(4000, 32000), bmi2_case(tier, true)));
        for guard in [false, true] {
            v.push(Plan::new(&nm(if guard { "utf8_guard" } else { "utf8" }),
                q(40000, 320000),
                q(4000, 32000),
                (text(tier), place(guard), opt_op(guard, UTF8_OPS)).prop_map(|(text, p, op)| Case::Utf8 { text, p, op }),
            ));
            v.push(Plan::new(&nm(if guard { "crc32c_guard" } else { "crc32c" }),
                q(24000, 200000),
                q(2400, 20000),
                (data(len_s(tier)), prop_oneof![Just(0xFFFF_FFFFu32), Just(0u32), any::<u32>()], proptest::collection::vec(any::<u16>(), 0..5), place(guard), opt_op(guard, CRC_OPS))
                    .prop_map(|(data, init, splits, p, op)| Case::Crc { data, init, splits, p, op }),
            ));
            v.push(Plan::new(&nm(if guard { "hm_str_guard" } else { "hm_str" }),
                q(19200, 160000),
                q(1920, 16000),
                (data(len_s(tier)), rel(tier), any::<u8>(), place(guard), place(guard), opt_op(guard, HMSTR_OPS)).prop_map(|(a, b, prefix_mode, pa, pb, op)| Case::HmStr { a, b, prefix_mode, pa, pb, op }),
            ));
        }
        let small = || prop_oneof![5 => 0usize..=70, 2 => proptest::sample::select(vec![47usize, 48, 49, 95, 96, 97]), 1 => 0usize..=600].boxed();
        let b64mut = prop_oneof![
            3 => Just(B64Mut::None),
            1 => Just(B64Mut::DropPad),
            1 => Just(B64Mut::ExtraPad),
            3 => (any::<u16>(), prop_oneof![Just(b'='), Just(b' '), Just(b'\n'), Just(b'-'), Just(b'_'), Just(b'+'), Just(b'/'), Just(b'.'), any::<u8>()]).prop_map(|(at, ch)| B64Mut::BadChar { at, ch }),
            1 => Just(B64Mut::OtherAlphabet),
            1 => any::<u16>().prop_map(|keep| B64Mut::Truncate { keep }),
            1 => any::<u8>().prop_map(|bits| B64Mut::TrailingBits { bits }),
        ];
        v.push(Plan::new(&nm("base64"),
            q(48000, 360000),
            0,
            (data(small()), 0u8..4, 0u8..6, b64mut, place(false)).prop_map(|(data, cfg, force, m, p)| Case::Base64 { data, cfg, force, m, p }),
        ));
        let hexmut = prop_oneof![
            2 => Just(HexMut::None),
            2 => any::<u64>().prop_map(|mask| HexMut::MixCase { mask }),
            3 => (any::<u16>(), prop_oneof![Just(b'g'), Just(b'G'), Just(b'/'), Just(b':'), Just(b'@'), Just(b'`'), Just(b' '), Just(0x80u8), any::<u8>()]).prop_map(|(at, ch)| HexMut::BadChar { at, ch }),
            1 => Just(HexMut::OddLength),
        ];
        v.push(Plan::new(&nm("hex"), q(32000, 240000), 0, (data(small()), hexmut, 0u8..4).prop_map(|(data, m, slack)| Case::Hex { data, m, slack })));
        v.push(Plan::new(&nm("bitops"),
            q(48000, 360000),
            q(3200, 24000),
            (bit_words(), prop_oneof![6 => bit_words(), 1 => Just(vec![])], proptest::collection::vec(any::<u8>(), 1..6), 0u8..4).prop_map(|(xs, masks, ks, cfg)| Case::BitOps { xs, masks, ks, cfg }),
        ));
        v.push(Plan::new(&nm("hist"), q(24000, 200000), q(1600, 12000), text(tier).prop_map(|text| Case::Hist { text })));
        v.push(Plan::new(&nm("faststr"),
            q(24000, 200000),
            0,
            (data(len_s(tier)), pat(), rel(tier), needle1()).prop_map(|(hay, pat, b, ch)| Case::FastStr { hay, pat, b, ch }),
        ));
        v
    }

    fn run(&self, case: &Value, ctx: &mut Ctx) {
        let c: Case = decode(case);
        ctx.label(format!("cap:{}", tier_cap().unwrap_or("native")));
        match c {
            Case::Mem { a, b, needle, fill, pa, pb, cfg, op } => run_mem(ctx, &a, &b, &needle, fill, pa, pb, cfg, op),
            Case::IoCopy { a, pa, pb, op } => run_io_copy(ctx, &a, pa, pb, op),
            Case::IoSearch { hay, pat, set, b, ch, ph, pn, op } => run_io_search(ctx, &hay, &pat, &set.0, &b, &ch, ph, pn, op),
            Case::StrSearch { hay, pat, set, b, ch, ph, pn, op } => run_str_search(ctx, &hay, &pat, &set.0, &b, &ch, ph, pn, op),
            Case::Bmi2 { text, pat, wild_text, wild_pat, extra, p, op } => run_bmi2(ctx, &text, &pat, &wild_text, &wild_pat, &extra, p, op),
            Case::Utf8 { text, p, op } => run_utf8(ctx, &text, p, op),
            Case::Crc { data, init, splits, p, op } => run_crc(ctx, &data, init, &splits, p, op),
            Case::Base64 { data, cfg, force, m, p } => run_base64(ctx, &data, cfg, force, &m, p),
            Case::Hex { data, m, slack } => run_hex(ctx, &data, &m, slack),
            Case::BitOps { xs, masks, ks, cfg } => run_bitops(ctx, &xs, &masks, &ks, cfg),
            Case::Hist { text } => run_hist(ctx, &text),
            Case::HmStr { a, b, prefix_mode, pa, pb, op } => run_hm_str(ctx, &a, &b, prefix_mode, pa, pb, op),
            Case::FastStr { hay, pat, b, ch } => run_faststr(ctx, &hay, &pat, &b, &ch),
        }
    }
    fn cpu_budget_s(&self) -> u64 {
        20
    }
}
