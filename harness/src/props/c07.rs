//! C07 — live allocations from any pool never overlap and keep their contents.
//!
//! One generic history interpreter (`drive`) runs `Alloc | Bulk | Free | Reuse | FreeForeign |
//! Check | Clear | ScopeOpen | ScopeClose` sequences against a small `Adapter` per pool family.
//! The oracle is a shadow map of live ranges kept by the harness:
//!   * a new block must be disjoint from every live block (`overlap`), at least as large as
//!     requested (`size`), aligned as requested/configured (`align`), and inside the memory the
//!     pool owns (`inside`: single-arena pools must keep all blocks inside one window of
//!     `capacity` bytes; offset pools must keep `offset+size <= capacity`);
//!   * every block is filled with a per-allocation byte pattern when it is handed out and every
//!     live block is re-verified after every operation (`content`);
//!   * a request larger than the pool's whole capacity must be refused with `Err` (`refusal`),
//!     never by panic (`alloc/panic`);
//!   * `free(s); alloc(s)` must succeed (`reuse`: freeing returns the block for reuse);
//!   * pools that validate pointers on free must reject pointers they never issued (`foreign`)
//!     and stay usable;
//!   * pools whose Drop is documented to release everything must return the heap to the level
//!     of a warm-up execution of the same case (`leak`).
//! All cases run in a fresh thread so that zipora's thread-local caches never carry state from
//! one case to the next.

use crate::engine::{alloc as heap, decode, try_call, Ctx, Plan, Prop, Tier};
use crate::gen::idx;
use proptest::prelude::*;
use serde::{Deserialize, Serialize};
use serde_json::Value;
use std::collections::HashMap;
use std::ptr::NonNull;
use std::sync::Arc;

use zipora::memory::bump::BumpScope;
use zipora::memory::cache_layout::{CacheLayoutConfig, CacheOptimizedAllocator};
use zipora::memory::{
    clear_numa_pools, get_global_pool_for_size, init_numa_pools, numa_alloc_aligned, numa_dealloc, tiered_allocate,
    tiered_deallocate, AdaptiveFiveLevelPool, BackoffStrategy, BumpAllocator, BumpArena, ConcurrencyLevel,
    FiveLevelPoolConfig, FixedCapacityAllocation, FixedCapacityMemoryPool, FixedCapacityPoolConfig, FixedCapacityPool,
    HugePage, HugePageAllocator, LockFreeAllocation, LockFreeMemoryPool, LockFreePool, LockFreePoolConfig, MemOffset,
    MemoryMappedAllocator, MemoryPool, MmapAllocation, MutexBasedPool, NoLockingPool, PoolConfig, PooledBuffer,
    PooledVec, SecureMemoryPool, SecurePoolConfig, SecurePooledPtr, ThreadLocalAllocation, ThreadLocalMemoryPool,
    ThreadLocalPool, ThreadLocalPoolConfig, TieredAllocation, TieredConfig, TieredMemoryAllocator,
};

pub struct P;

// ---------------------------------------------------------------------------------------
// case description
// ---------------------------------------------------------------------------------------

#[derive(Clone, Debug, Serialize, Deserialize)]
pub enum Op {
    /// `al` = log2 of the requested alignment (where the API takes one); `how` selects the API variant
    Alloc { size: usize, al: u8, how: u8 },
    /// bulk API (`allocate_bulk_simd`, `allocate_bulk_with_prefetch`)
    Bulk { sizes: Vec<usize> },
    Free { i: u16, how: u8 },
    /// free block i, then immediately allocate the same size again: must succeed
    Reuse { i: u16 },
    /// hand the pool a pointer it never issued (only pools that validate pointers on free)
    FreeForeign { kind: u8, size: usize },
    Check,
    /// `clear()` / `clear_cache()` / `reset()` (adapter decides what it means, or ignores it)
    Clear,
    ScopeOpen,
    ScopeClose,
}

#[derive(Clone, Debug, Serialize, Deserialize)]
pub enum Cfg {
    LockFree { memory_size: usize, stats: bool, cache_align: bool, simd: bool, zero_on_free: bool },
    Secure { chunk_size: usize, al: u8, lcs: usize, zero_on_free: bool, zero_on_alloc: bool, simd: bool, cache_align: bool },
    SecurePreset { which: u8 },
    GlobalSecure,
    FixedCap { max_block_size: usize, total_blocks: usize, al: u8, stats: bool, eager: bool, secure_clear: bool },
    FixedCapPreset { which: u8 },
    ThreadLocal { arena_size: usize, max_cached: usize, sync_threshold: isize, stats: bool, secure: bool },
    Basic { chunk_size: usize, max_chunks: usize, al: u8 },
    BasicBuffer,
    BasicVec,
    Bump { capacity: usize },
    BumpArena { capacity: usize },
    Tiered { small: bool, medium: bool, mmap: bool, huge: bool, global: bool },
    Five { kind: u8, al: u8, max_fast: usize, capacity: usize, arena: usize, fixed: Option<usize> },
    Mmap { min: usize },
    Huge { min: usize, direct: bool },
    Numa { pooled: bool },
    CacheAligned { which: u8 },
}

#[derive(Clone, Debug, Serialize, Deserialize)]
pub struct Case {
    pub cfg: Cfg,
    pub ops: Vec<Op>,
}

// ---------------------------------------------------------------------------------------
// adapter interface
// ---------------------------------------------------------------------------------------

pub struct Got {
    h: u64,
    /// address (or offset for offset pools)
    addr: usize,
    /// bytes the API says the caller may use (size()/as_slice().len()); == req when the API only returns a pointer
    len: usize,
    /// bytes actually requested from the API (may differ from the op's size for typed/fixed-size APIs)
    req: usize,
    /// alignment promised for this block (requested or configured); 1 = nothing promised
    align: usize,
    /// adapter already filled the block through the safe API with `pattern(seed, ..)`
    prewritten: bool,
}

#[derive(Clone, Default)]
pub struct Traits {
    /// "addresses" are offsets into a private arena: no memory access possible
    offsets: bool,
    /// single-arena pool: every block it ever hands out lies in one window of this many bytes
    span: Option<usize>,
    /// offset pools: offset + size <= limit
    offset_limit: Option<usize>,
    /// a request above this many bytes exceeds the whole pool and must be refused
    max_request: Option<usize>,
    /// free(s); alloc(s) must succeed
    reuse: bool,
    /// Drop is documented to release everything => heap must return to the warm-up level
    leak_check: bool,
    /// the pool keeps dangling memory after a defect: stop the history at the first memory discrepancy
    fragile: bool,
    /// the pool hands out chunks of one configured size (the op's size is ignored)
    fixed: bool,
    /// fragile pools: size of the arena blocks are carved from; when a block arrives from outside
    /// the first arena's window the history is stopped after one last content check (older blocks
    /// may sit in memory the pool has already released; writing to recycled ones would corrupt the worker)
    window: Option<usize>,
    /// freed blocks carry the pool's in-band free-list links: once a new block covers part of a
    /// block that is still on a free list, writing the pattern would corrupt the pool itself, so
    /// the history is stopped (safety stop, not a verdict)
    inband_links: bool,
    /// refusal is the expected answer in this cell (no huge pages on the host, requests above
    /// what the pool serves): a case is non-trivial when >= 3 requests were answered
    refusal_cell: bool,
}

type R<T> = Result<T, String>;

pub trait Adapter {
    fn traits(&self) -> Traits;
    fn alloc(&mut self, size: usize, al: u8, how: u8, seed: u32) -> R<Got>;
    fn bulk(&mut self, _sizes: &[usize]) -> Option<R<Vec<Got>>> {
        None
    }
    fn free(&mut self, h: u64, how: u8) -> R<()>;
    /// None = pool does not validate pointers (op ignored)
    fn free_foreign(&mut self, _kind: u8, _size: usize) -> Option<R<()>> {
        None
    }
    /// Some(invalidates_live_blocks)
    fn clear(&mut self) -> Option<(bool, R<()>)> {
        None
    }
    fn scope_open(&mut self) -> bool {
        false
    }
    /// handles that die with the innermost scope
    fn scope_close(&mut self) -> Option<Vec<u64>> {
        None
    }
    /// size class index (labels only)
    fn class_of(&self, _size: usize) -> Option<usize> {
        None
    }
    /// region name used as input class for `reuse` / `foreign` (e.g. fast bins vs skip list)
    fn region(&self, _size: usize) -> &'static str {
        ""
    }
    /// classifier (captured before the pool is dropped) mapping the measured leak to a signature class
    fn leak_classifier(&self) -> Box<dyn Fn(isize) -> String + Send> {
        Box::new(|_| String::new())
    }
    /// suffix appended to overlap / align / reuse classes (configuration class the defect depends on)
    fn tag(&self) -> String {
        String::new()
    }
    /// give up a block without releasing it (it shares bytes with another live block; releasing
    /// both would double-free): the guard is leaked, never dropped
    fn abandon(&mut self, _h: u64) {}
    /// called after all blocks were freed, before the adapter is dropped
    fn finish(&mut self) {}
}

#[inline]
fn pattern(seed: u32, j: usize) -> u8 {
    ((seed.wrapping_mul(0x9E37_79B1) ^ (j as u32).wrapping_mul(0x85EB_CA6B)) >> 13) as u8 ^ (j as u8) ^ 0xA5
}

/// which byte positions of a block of `n` bytes carry the pattern (everything up to 16 KiB,
/// first and last 4 KiB above that)
#[inline]
fn covered(n: usize) -> [(usize, usize); 2] {
    if n <= 16 * 1024 {
        [(0, n), (0, 0)]
    } else {
        [(0, 4096), (n - 4096, n)]
    }
}

unsafe fn fill(addr: usize, n: usize, seed: u32) {
    let p = addr as *mut u8;
    for (a, b) in covered(n) {
        for j in a..b {
            p.add(j).write(pattern(seed, j));
        }
    }
}

/// first corrupted position, if any
unsafe fn verify(addr: usize, n: usize, seed: u32) -> Option<(usize, u8, u8)> {
    let p = addr as *const u8;
    for (a, b) in covered(n) {
        for j in a..b {
            let got = p.add(j).read();
            let want = pattern(seed, j);
            if got != want {
                return Some((j, got, want));
            }
        }
    }
    None
}

struct Live {
    h: u64,
    addr: usize,
    /// bytes written / verified
    req: usize,
    /// bytes reserved in the shadow map (max(req, len))
    span: usize,
    seed: u32,
    tainted: bool,
    written: bool,
    /// sits at an address that was freed earlier under a smaller request
    grown: bool,
    /// handed out in violation of the capacity rule: kept only so that it can be freed
    ghost: bool,
    /// overlaps another live block: never released (see `admit`)
    no_free: bool,
}

#[derive(Default)]
struct Summary {
    /// a memory-safety discrepancy was seen: do not repeat the case for the leak measurement
    unsafe_seen: bool,
    panicked: bool,
    built: bool,
}

fn huge(size: usize) -> bool {
    size >= (1usize << 31)
}

// ---------------------------------------------------------------------------------------
// the interpreter
// ---------------------------------------------------------------------------------------

struct Driver<'c> {
    ctx: &'c mut Ctx,
    tr: Traits,
    live: Vec<Live>,
    /// addr -> requested size of blocks that were freed (for the recycling classes)
    freed: HashMap<usize, usize>,
    /// addr -> request size under which the address was handed out for the first time
    first_req: HashMap<usize, usize>,
    freed_classes: Vec<(usize, usize)>,
    seq: u32,
    lo: usize,
    hi: usize,
    max_live: usize,
    frees: usize,
    alloc_after_free: usize,
    sizes_seen: Vec<usize>,
    huge_refused: bool,
    attempts: usize,
    sum: Summary,
    stop: bool,
    /// adapter-provided suffix for memory-discrepancy classes (e.g. the adaptive pool's level)
    tag: String,
    first_overlap: Option<String>,
    /// addr -> len of blocks that are free right now (freed and not handed out again)
    free_now: HashMap<usize, usize>,
    window_base: Option<usize>,
    stop_after_verify: bool,
}

impl<'c> Driver<'c> {
    fn mem_fail(&mut self, aspect: &str, class: &str, detail: String) {
        self.sum.unsafe_seen = true;
        self.ctx.out.checks += 1;
        self.ctx.fail(aspect, "mismatch", class, detail);
        if self.tr.fragile {
            self.stop = true;
        }
    }

    fn verify_all(&mut self, after: &str) {
        if self.stop_after_verify {
            self.stop = true;
        }
        if self.tr.offsets {
            return;
        }
        for k in 0..self.live.len() {
            let l = &self.live[k];
            if l.tainted || !l.written {
                continue;
            }
            self.ctx.out.checks += 1;
            if let Some((j, got, want)) = unsafe { verify(l.addr, l.req, l.seed) } {
                let d = format!(
                    "live block #{} (addr {:#x}, {} bytes) no longer holds its pattern after {}: byte {} is {:#04x}, expected {:#04x}",
                    l.seed, l.addr, l.req, after, j, got, want
                );
                self.live[k].tainted = true;
                self.mem_fail("content", &format!("after_{after}"), d);
            }
        }
    }

    /// register a block the pool just handed out
    fn admit(&mut self, g: Got, asked: usize, ad: &dyn Adapter) {
        self.ctx.out.checks += 4;
        let mut writable = !self.tr.offsets;
        // size
        if g.len < g.req {
            self.ctx.fail("size", "mismatch", "", format!("requested {} bytes, API reports a usable size of {}", g.req, g.len));
        }
        let span = g.len.max(g.req);
        let first = *self.first_req.entry(g.addr).or_insert(g.req);
        let grown = g.req > first && self.freed.contains_key(&g.addr);
        let mut ghost = false;
        // refusal beyond capacity
        if let Some(m) = self.tr.max_request {
            if g.req > m {
                self.sum.unsafe_seen = true;
                self.ctx.fail(
                    "refusal",
                    "mismatch",
                    "size>capacity",
                    format!("request of {} bytes exceeds the pool's whole capacity ({} bytes) but was answered with memory at {:#x}", g.req, m, g.addr),
                );
                writable = false;
                ghost = true;
            }
        }
        // alignment
        if g.align > 1 && g.addr % g.align != 0 {
            self.ctx.fail("align", "mismatch", &format!("align={}{}", g.align, self.tag), format!("address {:#x} is not aligned to {} (size {})", g.addr, g.align, g.req));
        }
        // inside pool memory
        if let Some(limit) = self.tr.offset_limit {
            if g.addr.checked_add(span).map(|e| e > limit).unwrap_or(true) {
                let class = if self.huge_refused { "after_huge_refusal" } else if grown { "recycled_smaller" } else { "" };
                self.mem_fail("inside", &format!("{}{}", class, self.tag), format!("offset {}+{} exceeds the pool capacity {}", g.addr, span, limit));
                writable = false;
            }
        }
        if let Some(cap) = self.tr.span {
            let lo = self.lo.min(g.addr);
            let hi = self.hi.max(g.addr.saturating_add(span));
            if hi - lo > cap {
                let class = if self.huge_refused { "after_huge_refusal" } else if grown { "recycled_smaller" } else { "" };
                self.mem_fail(
                    "inside",
                    class,
                    format!("block {:#x}+{} does not fit in one window of {} bytes together with the blocks seen before ({:#x}..{:#x})", g.addr, span, cap, self.lo.min(self.hi), self.hi),
                );
                writable = false;
            } else {
                self.lo = lo;
                self.hi = hi;
            }
        }
        // overlap with live blocks
        let (a0, a1) = (g.addr, g.addr.saturating_add(span.max(1)));
        let mut hit = None;
        let mut overlapped = false;
        let mut neighbour_grown = false;
        for l in self.live.iter_mut().filter(|l| !l.ghost && !ghost) {
            let (b0, b1) = (l.addr, l.addr + l.span.max(1));
            if a0 < b1 && b0 < a1 {
                l.tainted = true;
                l.no_free = true;
                neighbour_grown |= l.grown;
                if hit.is_none() {
                    hit = Some((l.addr, l.span, l.seed));
                }
            }
        }
        if let Some((b, bl, bs)) = hit {
            let class = if self.huge_refused {
                "after_huge_refusal"
            } else {
                if grown || neighbour_grown {
                    "recycled_smaller"
                } else {
                    "other"
                }
            };
            // the class of the first overlap of a history is kept for its follow-on overlaps
            let class = match &self.first_overlap {
                Some(c) => c.clone(),
                None => {
                    let c = format!("{}{}", class, self.tag);
                    self.first_overlap = Some(c.clone());
                    c
                }
            };
            overlapped = true;
            // two owners of the same bytes: releasing both would double-free inside the pool or the
            // system allocator and corrupt the worker, so the history ends here and both are kept
            self.stop = true;
            self.mem_fail(
                "overlap",
                &class,
                format!("new block {:#x}+{} (request {} bytes) overlaps live block #{} at {:#x}+{}", g.addr, span, g.req, bs, b, bl),
            );
        }
        // currently-free ranges (safety stop for pools with in-band links)
        // a block that comes back at the start of a free block of the same class was popped from
        // the pool's free list (legitimate recycling); anything else that touches a free block
        // would overwrite a link that is still in use
        let legit_recycle = match self.free_now.get(&g.addr) {
            Some(&l) => !self.tr.inband_links || (!self.huge_refused && ad.class_of(l) == ad.class_of(g.req)),
            None => false,
        };
        if legit_recycle {
            self.free_now.remove(&g.addr);
        }
        if self.tr.inband_links && !self.stop {
            let covers_free = self.free_now.iter().any(|(&b0, &bl)| a0 < b0 + bl.max(1) && b0 < a1);
            if covers_free {
                self.ctx.label("stopped_new_block_covers_free_block");
                self.sum.unsafe_seen = true;
                self.stop = true;
                writable = false;
            }
        }
        // labels: recycling across sizes of one class
        if let Some(c) = ad.class_of(g.req) {
            if self.freed_classes.iter().any(|&(fc, fs)| fc == c && fs != g.req) {
                self.ctx.label("class_neighbour_after_free");
            }
        }
        if self.freed.contains_key(&g.addr) {
            self.ctx.label("recycled_address");
        }
        if self.frees > 0 {
            self.alloc_after_free += 1;
        }
        if !self.sizes_seen.contains(&asked) && self.sizes_seen.len() < 8 {
            self.sizes_seen.push(asked);
        }
        if let Some(w) = self.tr.window {
            let base = *self.window_base.get_or_insert(g.addr);
            if g.addr < base || g.addr + span > base + w {
                self.ctx.label("arena_switched");
                self.stop_after_verify = true;
            }
        }
        self.seq += 1;
        let seed = self.seq;
        let mut written = g.prewritten;
        if writable && !g.prewritten && !self.stop {
            unsafe { fill(g.addr, g.req, seed) };
            written = true;
        }
        self.live.push(Live { h: g.h, addr: g.addr, req: g.req, span, seed, tainted: overlapped, written, grown, ghost, no_free: overlapped });
        self.max_live = self.max_live.max(self.live.len());
    }

    fn note_refused(&mut self, size: usize, msg: &str) {
        self.ctx.label("refused");
        if huge(size) {
            self.huge_refused = true;
            self.ctx.label("refused_huge");
        }
        let _ = msg;
    }

    fn forget(&mut self, k: usize, ad: &dyn Adapter) -> Live {
        let l = self.live.remove(k);
        self.freed.insert(l.addr, l.req);
        if !l.ghost {
            self.free_now.insert(l.addr, l.req);
        }
        if let Some(c) = ad.class_of(l.req) {
            if self.freed_classes.len() < 64 {
                self.freed_classes.push((c, l.req));
            }
        }
        self.frees += 1;
        l
    }
}

fn next_seed(d: &Driver) -> u32 {
    d.seq + 1
}

fn drive(ctx: &mut Ctx, ad: &mut dyn Adapter, ops: &[Op]) -> Summary {
    let tr = ad.traits();
    let mut d = Driver {
        ctx,
        tr,
        live: vec![],
        freed: HashMap::new(),
        first_req: HashMap::new(),
        freed_classes: vec![],
        seq: 0,
        lo: usize::MAX,
        hi: 0,
        max_live: 0,
        frees: 0,
        alloc_after_free: 0,
        sizes_seen: vec![],
        huge_refused: false,
        attempts: 0,
        sum: Summary { built: true, ..Default::default() },
        stop: false,
        tag: ad.tag(),
        first_overlap: None,
        free_now: HashMap::new(),
        window_base: None,
        stop_after_verify: false,
    };
    for op in ops {
        if d.stop || d.ctx.saturated() {
            break;
        }
        match op {
            Op::Alloc { size, al, how } => {
                let seed = next_seed(&d);
                d.attempts += 1;
                d.ctx.out.checks += 1;
                match try_call(|| ad.alloc(*size, *al, *how, seed)) {
                    Ok(Ok(g)) => {
                        d.admit(g, *size, ad);
                        d.verify_all("alloc");
                    }
                    Ok(Err(e)) => d.note_refused(*size, &e),
                    Err(p) => {
                        d.sum.panicked = true;
                        let cls = p.class();
                        d.ctx.fail("alloc", "panic", &cls, format!("alloc({}) panicked at {}:{}: {}", size, p.file, p.line, p.msg));
                        d.verify_all("alloc");
                    }
                }
            }
            Op::Bulk { sizes } => match try_call(|| ad.bulk(sizes)) {
                Ok(None) => {}
                Ok(Some(Ok(v))) => {
                    d.ctx.label("bulk");
                    for (g, s) in v.into_iter().zip(sizes.iter()) {
                        d.admit(g, *s, ad);
                    }
                    d.verify_all("bulk");
                }
                Ok(Some(Err(e))) => d.note_refused(sizes.iter().copied().max().unwrap_or(0), &e),
                Err(p) => {
                    d.sum.panicked = true;
                    let cls = p.class();
                    d.ctx.fail("alloc", "panic", &cls, format!("bulk alloc panicked at {}:{}: {}", p.file, p.line, p.msg));
                }
            },
            Op::Free { i, how } => {
                if d.live.is_empty() {
                    continue;
                }
                let k = idx(*i, d.live.len());
                let l = d.forget(k, ad);
                match try_call(|| ad.free(l.h, *how)) {
                    Ok(Ok(())) => {}
                    Ok(Err(e)) => {
                        d.ctx.fail("free", "err", ad.region(l.req), format!("freeing a live block of {} bytes with its own size failed: {}", l.req, e));
                    }
                    Err(p) => {
                        d.sum.panicked = true;
                        let cls = p.class();
                        d.ctx.fail("free", "panic", &cls, format!("free panicked at {}:{}: {}", p.file, p.line, p.msg));
                    }
                }
                d.verify_all("free");
            }
            Op::Reuse { i } => {
                if d.live.is_empty() || !d.tr.reuse {
                    continue;
                }
                let k = idx(*i, d.live.len());
                let l = d.forget(k, ad);
                let freed_ok = matches!(try_call(|| ad.free(l.h, 0)), Ok(Ok(())));
                d.verify_all("free");
                if !freed_ok || d.stop {
                    continue;
                }
                let seed = next_seed(&d);
                let al = 0u8;
                match try_call(|| ad.alloc(l.req, al, 0, seed)) {
                    Ok(Ok(g)) => {
                        d.ctx.out.checks += 1;
                        d.ctx.label("reuse_ok");
                        d.admit(g, l.req, ad);
                        d.verify_all("alloc");
                    }
                    Ok(Err(e)) => {
                        d.ctx.out.checks += 1;
                        d.note_refused(l.req, &e);
                        if !d.huge_refused {
                            let class = format!("{}{}", ad.region(l.req), d.tag);
                            d.ctx.fail(
                                "reuse",
                                "err",
                                &class,
                                format!("free({} bytes) immediately followed by alloc({} bytes) was refused: {}", l.req, l.req, e),
                            );
                        }
                    }
                    Err(p) => {
                        d.sum.panicked = true;
                        let cls = p.class();
                        d.ctx.fail("alloc", "panic", &cls, format!("alloc({}) panicked at {}:{}: {}", l.req, p.file, p.line, p.msg));
                    }
                }
            }
            Op::FreeForeign { kind, size } => match try_call(|| ad.free_foreign(*kind, *size)) {
                Ok(None) => {}
                Ok(Some(Err(_))) => {
                    d.ctx.out.checks += 1;
                    d.ctx.label("foreign_rejected");
                    d.verify_all("foreign");
                }
                Ok(Some(Ok(()))) => {
                    d.ctx.out.checks += 1;
                    let class = format!("kind{}_{}", kind % 3, ad.region(*size));
                    d.ctx.fail("foreign", "mismatch", &class, format!("deallocate of a pointer the pool never issued (kind {}, size {}) returned Ok", kind % 3, size));
                    // the pool may now hand out memory it does not own: stop here
                    d.sum.unsafe_seen = true;
                    d.stop = true;
                }
                Err(p) => {
                    d.sum.panicked = true;
                    let cls = p.class();
                    d.ctx.fail("foreign", "panic", &cls, format!("free of foreign pointer panicked at {}:{}: {}", p.file, p.line, p.msg));
                }
            },
            Op::Check => d.verify_all("check"),
            Op::Clear => match try_call(|| ad.clear()) {
                Ok(None) => {}
                Ok(Some((invalidates, r))) => {
                    d.ctx.label("clear");
                    if invalidates {
                        while !d.live.is_empty() {
                            d.forget(0, ad);
                        }
                    }
                    if let Err(e) = r {
                        d.ctx.fail("clear", "err", "", e);
                    }
                    d.verify_all("clear");
                }
                Err(p) => {
                    d.sum.panicked = true;
                    let cls = p.class();
                    d.ctx.fail("clear", "panic", &cls, format!("clear panicked at {}:{}: {}", p.file, p.line, p.msg));
                }
            },
            Op::ScopeOpen => {
                if ad.scope_open() {
                    d.ctx.label("scope");
                }
            }
            Op::ScopeClose => {
                if let Some(dead) = ad.scope_close() {
                    for h in dead {
                        if let Some(k) = d.live.iter().position(|l| l.h == h) {
                            d.forget(k, ad);
                        }
                    }
                    d.verify_all("scope");
                }
            }
        }
    }
    // end of history: everything still live must be intact, then release it all
    if !d.stop {
        d.verify_all("end");
    }
    let distinct_sizes = d.sizes_seen.len();
    if d.max_live >= 3 && d.alloc_after_free >= 1 && (distinct_sizes >= 2 || d.tr.fixed) {
        d.ctx.nontrivial();
    }
    if d.tr.refusal_cell && d.attempts >= 3 {
        d.ctx.nontrivial();
    }
    if d.max_live >= 3 {
        d.ctx.label("live>=3");
    }
    if d.alloc_after_free >= 1 {
        d.ctx.label("alloc_after_free");
    }
    while let Some(l) = d.live.pop() {
        if l.no_free {
            ad.abandon(l.h);
            continue;
        }
        match try_call(|| ad.free(l.h, 0)) {
            Ok(Ok(())) => {}
            Ok(Err(e)) => {
                if !d.sum.unsafe_seen {
                    d.ctx.fail("free", "err", ad.region(l.req), format!("freeing a live block of {} bytes failed: {}", l.req, e));
                }
            }
            Err(p) => {
                d.sum.panicked = true;
                let cls = p.class();
                d.ctx.fail("free", "panic", &cls, format!("free panicked at {}:{}: {}", p.file, p.line, p.msg));
            }
        }
    }
    if let Err(p) = try_call(|| ad.finish()) {
        d.sum.panicked = true;
        let cls = p.class();
        d.ctx.fail("drop", "panic", &cls, format!("cleanup panicked at {}:{}: {}", p.file, p.line, p.msg));
    }
    d.sum
}

// ---------------------------------------------------------------------------------------
// adapters: pointer pools
// ---------------------------------------------------------------------------------------

fn ok<T, E: std::fmt::Display>(r: Result<T, E>) -> R<T> {
    r.map_err(|e| e.to_string())
}

struct Handles<T> {
    next: u64,
    map: HashMap<u64, T>,
}
impl<T> Handles<T> {
    fn new() -> Self {
        Handles { next: 1, map: HashMap::new() }
    }
    fn put(&mut self, v: T) -> u64 {
        let h = self.next;
        self.next += 1;
        self.map.insert(h, v);
        h
    }
    fn take(&mut self, h: u64) -> R<T> {
        self.map.remove(&h).ok_or_else(|| "harness: unknown handle".to_string())
    }
}

const LF_BINS: &[usize] = &[
    8, 16, 24, 32, 40, 48, 56, 64, 72, 80, 88, 96, 104, 112, 120, 128, 144, 160, 176, 192, 208, 224, 240, 256, 288, 320, 352, 384, 416, 448,
    480, 512, 576, 640, 704, 768, 832, 896, 960, 1024, 1152, 1280, 1408, 1536, 1664, 1792, 1920, 2048, 2304, 2560, 2816, 3072, 3328, 3584,
    3840, 4096, 4608, 5120, 5632, 6144, 6656, 7168, 7680, 8192,
];

enum LfBlock {
    Raw(NonNull<u8>, usize),
    Guard(LockFreeAllocation),
}

struct LockFreeAd {
    pool: Arc<LockFreeMemoryPool>,
    memory_size: usize,
    blocks: Handles<LfBlock>,
    foreign: Vec<u8>,
}

impl LockFreeAd {
    fn new(memory_size: usize, stats: bool, cache_align: bool, simd: bool, zero_on_free: bool) -> R<Self> {
        let mut c = LockFreePoolConfig::compact();
        c.memory_size = memory_size;
        c.enable_stats = stats;
        c.enable_cache_alignment = cache_align;
        c.cache_config = if cache_align { Some(CacheLayoutConfig::new()) } else { None };
        c.enable_simd_optimization = simd;
        c.zero_on_free = zero_on_free;
        c.backoff_strategy = BackoffStrategy::None;
        let pool = Arc::new(ok(LockFreeMemoryPool::new(c))?);
        Ok(LockFreeAd { pool, memory_size, blocks: Handles::new(), foreign: vec![0u8; 32 * 1024] })
    }
}

impl Adapter for LockFreeAd {
    fn abandon(&mut self, h: u64) {
        if let Ok(b) = self.blocks.take(h) {
            let _ = std::mem::ManuallyDrop::new(b);
        }
    }
    fn traits(&self) -> Traits {
        Traits { span: Some(self.memory_size), max_request: Some(self.memory_size), reuse: true, leak_check: true, inband_links: true, fragile: true, ..Default::default() }
    }
    fn alloc(&mut self, size: usize, _al: u8, how: u8, _seed: u32) -> R<Got> {
        let p = ok(self.pool.allocate(size))?;
        let b = if how % 3 == 2 { LfBlock::Guard(LockFreeAllocation::new(p, size, self.pool.clone())) } else { LfBlock::Raw(p, size) };
        let (addr, len) = match &b {
            LfBlock::Raw(p, s) => (p.as_ptr() as usize, *s),
            LfBlock::Guard(g) => (g.as_ptr() as usize, g.size()),
        };
        Ok(Got { h: self.blocks.put(b), addr, len, req: size, align: 1, prewritten: false })
    }
    fn bulk(&mut self, sizes: &[usize]) -> Option<R<Vec<Got>>> {
        Some(ok(self.pool.allocate_bulk_simd(sizes)).map(|v| {
            v.into_iter()
                .zip(sizes.iter())
                .map(|(p, &s)| Got { h: self.blocks.put(LfBlock::Raw(p, s)), addr: p.as_ptr() as usize, len: s, req: s, align: 1, prewritten: false })
                .collect()
        }))
    }
    fn free(&mut self, h: u64, how: u8) -> R<()> {
        match self.blocks.take(h)? {
            LfBlock::Raw(p, s) => {
                if how % 2 == 1 {
                    ok(self.pool.deallocate_with_zero(p, s))
                } else {
                    ok(self.pool.deallocate(p, s))
                }
            }
            LfBlock::Guard(g) => {
                drop(g);
                Ok(())
            }
        }
    }
    fn free_foreign(&mut self, kind: u8, size: usize) -> Option<R<()>> {
        let stack = [0u64; 4];
        let p = match kind % 3 {
            0 => self.foreign.as_mut_ptr(),
            1 => stack.as_ptr() as *mut u8,
            _ => 8usize as *mut u8,
        };
        let p = NonNull::new(p)?;
        Some(ok(self.pool.deallocate(p, size.max(1))))
    }
    fn class_of(&self, size: usize) -> Option<usize> {
        let a = (size + 7) & !7;
        LF_BINS.iter().position(|&b| a <= b)
    }
    fn region(&self, size: usize) -> &'static str {
        if ((size + 7) & !7) <= 8192 {
            "fast_bin"
        } else {
            "skip_list"
        }
    }
}

struct SecureAd {
    pool: Arc<SecureMemoryPool>,
    chunk: usize,
    align: usize,
    lcs: usize,
    blocks: Handles<SecurePooledPtr>,
    leak_ok: bool,
    cleared_with_live: bool,
}

impl SecureAd {
    fn from_cfg(c: SecurePoolConfig) -> R<Self> {
        let (chunk, align, lcs) = (c.chunk_size, c.alignment, c.local_cache_size);
        let leak_ok = !(c.zero_on_alloc && c.enable_simd_ops);
        let pool = ok(SecureMemoryPool::new(c))?;
        Ok(SecureAd { pool, chunk, align, lcs, blocks: Handles::new(), leak_ok, cleared_with_live: false })
    }
    fn got(&mut self, p: SecurePooledPtr) -> Got {
        let (addr, len) = (p.as_ptr() as usize, p.size());
        Got { h: self.blocks.put(p), addr, len, req: self.chunk, align: self.align, prewritten: false }
    }
}

impl Adapter for SecureAd {
    fn abandon(&mut self, h: u64) {
        if let Ok(b) = self.blocks.take(h) {
            let _ = std::mem::ManuallyDrop::new(b);
        }
    }
    fn traits(&self) -> Traits {
        Traits { reuse: true, leak_check: self.leak_ok, fixed: true, ..Default::default() }
    }
    fn alloc(&mut self, _size: usize, _al: u8, how: u8, _seed: u32) -> R<Got> {
        let p = if how % 3 == 1 { ok(self.pool.allocate_with_hint(true))? } else { ok(self.pool.allocate())? };
        Ok(self.got(p))
    }
    fn bulk(&mut self, sizes: &[usize]) -> Option<R<Vec<Got>>> {
        // the API requires every size to equal chunk_size; the generated list only gives the count
        let v = vec![self.chunk; sizes.len()];
        Some(ok(self.pool.allocate_bulk_with_prefetch(&v)).map(|ps| ps.into_iter().map(|p| self.got(p)).collect()))
    }
    fn free(&mut self, h: u64, _how: u8) -> R<()> {
        drop(self.blocks.take(h)?);
        Ok(())
    }
    fn clear(&mut self) -> Option<(bool, R<()>)> {
        if !self.blocks.map.is_empty() {
            self.cleared_with_live = true;
        }
        Some((false, ok(self.pool.clear())))
    }
    fn leak_classifier(&self) -> Box<dyn Fn(isize) -> String + Send> {
        // every chunk costs chunk + 40 (header) + 16 (footer) bytes
        let cap = (self.chunk + 56) as isize * self.lcs as isize;
        let cleared = self.cleared_with_live;
        Box::new(move |leaked| {
            if cleared {
                "after_clear_with_live_blocks".into()
            } else if leaked <= cap {
                "le_local_cache".into()
            } else {
                "gt_local_cache".into()
            }
        })
    }
}

struct GlobalSecureAd {
    blocks: Handles<SecurePooledPtr>,
}

impl Adapter for GlobalSecureAd {
    fn abandon(&mut self, h: u64) {
        if let Ok(b) = self.blocks.take(h) {
            let _ = std::mem::ManuallyDrop::new(b);
        }
    }
    fn traits(&self) -> Traits {
        Traits { reuse: true, ..Default::default() }
    }
    fn alloc(&mut self, size: usize, _al: u8, how: u8, _seed: u32) -> R<Got> {
        let pool = get_global_pool_for_size(size);
        let align = pool.config().alignment;
        let p = if how % 2 == 1 { ok(pool.allocate_with_hint(true))? } else { ok(pool.allocate())? };
        let (addr, len) = (p.as_ptr() as usize, p.size());
        Ok(Got { h: self.blocks.put(p), addr, len, req: size, align, prewritten: false })
    }
    fn free(&mut self, h: u64, _how: u8) -> R<()> {
        drop(self.blocks.take(h)?);
        Ok(())
    }
    fn class_of(&self, size: usize) -> Option<usize> {
        Some(if size <= 1024 { 0 } else if size <= 64 * 1024 { 1 } else { 2 })
    }
}

struct FixedCapAd {
    // guards hold a raw pointer to the pool: declared first so they drop first; pool is boxed so it never moves
    blocks: Handles<FixedCapacityAllocation>,
    pool: Box<FixedCapacityMemoryPool>,
    cfg: FixedCapacityPoolConfig,
    classes: Vec<usize>,
}

fn fixed_classes(max_size: usize, alignment: usize) -> Vec<usize> {
    let mut classes = vec![];
    let mut cur = alignment;
    while cur <= max_size {
        classes.push(cur);
        if cur < 128 {
            cur += alignment;
        } else if cur < 1024 {
            cur = cur * 3 / 2;
        } else {
            cur *= 2;
        }
        cur = (cur + alignment - 1) & !(alignment - 1);
    }
    if classes.last() != Some(&max_size) {
        classes.push(max_size);
    }
    classes
}

impl FixedCapAd {
    fn new(cfg: FixedCapacityPoolConfig) -> R<Self> {
        let pool = Box::new(ok(FixedCapacityMemoryPool::new(cfg.clone()))?);
        let classes = fixed_classes(cfg.max_block_size, cfg.alignment.max(1));
        Ok(FixedCapAd { blocks: Handles::new(), pool, cfg, classes })
    }
}

impl Adapter for FixedCapAd {
    fn abandon(&mut self, h: u64) {
        if let Ok(b) = self.blocks.take(h) {
            let _ = std::mem::ManuallyDrop::new(b);
        }
    }
    fn traits(&self) -> Traits {
        Traits {
            span: Some(self.pool.total_capacity()),
            max_request: Some(self.cfg.max_block_size),
            reuse: true,
            leak_check: true,
            ..Default::default()
        }
    }
    fn alloc(&mut self, size: usize, _al: u8, _how: u8, _seed: u32) -> R<Got> {
        let mut a = ok(self.pool.allocate(size))?;
        let s = a.as_mut_slice();
        let (addr, len) = (s.as_mut_ptr() as usize, s.len());
        Ok(Got { h: self.blocks.put(a), addr, len, req: size, align: self.cfg.alignment, prewritten: false })
    }
    fn free(&mut self, h: u64, _how: u8) -> R<()> {
        drop(self.blocks.take(h)?);
        Ok(())
    }
    fn class_of(&self, size: usize) -> Option<usize> {
        self.classes.iter().position(|&c| size <= c)
    }
    fn tag(&self) -> String {
        if self.cfg.max_block_size % self.cfg.alignment.max(1) != 0 {
            "_block_not_multiple_of_align".into()
        } else {
            String::new()
        }
    }
}

const TLS_CLASSES: &[usize] = &[16, 32, 48, 64, 96, 128, 192, 256, 384, 512, 768, 1024, 1536, 2048, 3072, 4096];

struct ThreadLocalAd {
    blocks: Handles<ThreadLocalAllocation>,
    arena: usize,
    pool: Arc<ThreadLocalMemoryPool>,
    fragile: bool,
    refusal_cell: bool,
}

impl ThreadLocalAd {
    fn new(arena_size: usize, max_cached: usize, sync_threshold: isize, stats: bool, secure: bool, fragile: bool) -> R<Self> {
        let cfg = ThreadLocalPoolConfig { arena_size, max_threads: 64, enable_stats: stats, sync_threshold, max_cached_chunks: max_cached, use_secure_memory: secure };
        let pool = ok(ThreadLocalMemoryPool::new(cfg))?;
        Ok(ThreadLocalAd { blocks: Handles::new(), arena: arena_size, pool, fragile, refusal_cell: false })
    }
}

impl Adapter for ThreadLocalAd {
    fn abandon(&mut self, h: u64) {
        if let Ok(b) = self.blocks.take(h) {
            let _ = std::mem::ManuallyDrop::new(b);
        }
    }
    fn traits(&self) -> Traits {
        Traits { reuse: true, fragile: self.fragile, refusal_cell: self.refusal_cell, window: Some(self.arena), ..Default::default() }
    }
    fn alloc(&mut self, size: usize, _al: u8, _how: u8, _seed: u32) -> R<Got> {
        let mut a = ok(self.pool.allocate(size))?;
        let s = a.as_mut_slice();
        let (addr, len) = (s.as_mut_ptr() as usize, s.len());
        Ok(Got { h: self.blocks.put(a), addr, len, req: size, align: 1, prewritten: false })
    }
    fn free(&mut self, h: u64, _how: u8) -> R<()> {
        drop(self.blocks.take(h)?);
        Ok(())
    }
    fn class_of(&self, size: usize) -> Option<usize> {
        TLS_CLASSES.iter().position(|&c| size <= c)
    }
    fn region(&self, size: usize) -> &'static str {
        if size <= 4096 {
            "classed"
        } else {
            "unclassed"
        }
    }
    fn finish(&mut self) {
        // documented cleanup entry point; all blocks were released before
        self.pool.clear_caches();
    }
}

struct BasicAd {
    pool: MemoryPool,
    chunk: usize,
    align: usize,
    blocks: Handles<NonNull<u8>>,
}

impl Adapter for BasicAd {
    fn abandon(&mut self, h: u64) {
        if let Ok(b) = self.blocks.take(h) {
            let _ = std::mem::ManuallyDrop::new(b);
        }
    }
    fn traits(&self) -> Traits {
        Traits { reuse: true, leak_check: true, fixed: true, ..Default::default() }
    }
    fn alloc(&mut self, _size: usize, _al: u8, _how: u8, _seed: u32) -> R<Got> {
        let p = ok(self.pool.allocate())?;
        Ok(Got { h: self.blocks.put(p), addr: p.as_ptr() as usize, len: self.chunk, req: self.chunk, align: self.align, prewritten: false })
    }
    fn free(&mut self, h: u64, _how: u8) -> R<()> {
        let p = self.blocks.take(h)?;
        ok(self.pool.deallocate(p))
    }
    fn clear(&mut self) -> Option<(bool, R<()>)> {
        // releases cached free chunks only; live chunks are the caller's
        Some((false, ok(self.pool.clear())))
    }
}

struct BufferAd {
    blocks: Handles<PooledBuffer>,
}

impl Adapter for BufferAd {
    fn abandon(&mut self, h: u64) {
        if let Ok(b) = self.blocks.take(h) {
            let _ = std::mem::ManuallyDrop::new(b);
        }
    }
    fn traits(&self) -> Traits {
        // "large objects (< 1MB)": the biggest global pool hands out PoolConfig::large().chunk_size bytes
        Traits { reuse: true, max_request: Some(PoolConfig::large().chunk_size), ..Default::default() }
    }
    fn alloc(&mut self, size: usize, _al: u8, _how: u8, _seed: u32) -> R<Got> {
        let mut b = ok(PooledBuffer::new(size))?;
        let len = b.len();
        let addr = b.as_mut_slice().as_mut_ptr() as usize;
        Ok(Got { h: self.blocks.put(b), addr, len, req: size, align: 1, prewritten: false })
    }
    fn free(&mut self, h: u64, _how: u8) -> R<()> {
        drop(self.blocks.take(h)?);
        Ok(())
    }
    fn class_of(&self, size: usize) -> Option<usize> {
        Some(if size <= 1024 { 0 } else if size <= 64 * 1024 { 1 } else { 2 })
    }
}

struct VecAd {
    blocks: Handles<PooledVec<u64>>,
}

impl Adapter for VecAd {
    fn abandon(&mut self, h: u64) {
        if let Ok(b) = self.blocks.take(h) {
            let _ = std::mem::ManuallyDrop::new(b);
        }
    }
    fn traits(&self) -> Traits {
        Traits { reuse: true, ..Default::default() }
    }
    fn alloc(&mut self, size: usize, _al: u8, _how: u8, seed: u32) -> R<Got> {
        let mut v = ok(PooledVec::<u64>::new())?;
        let n = (size / 8).min(v.capacity());
        for k in 0..n {
            let mut b = [0u8; 8];
            for (j, x) in b.iter_mut().enumerate() {
                *x = pattern(seed, k * 8 + j);
            }
            ok(v.push(u64::from_ne_bytes(b)))?;
        }
        let addr = v.as_slice().as_ptr() as usize;
        let cap = v.capacity() * 8;
        Ok(Got { h: self.blocks.put(v), addr, len: cap, req: n * 8, align: 8, prewritten: true })
    }
    fn free(&mut self, h: u64, _how: u8) -> R<()> {
        drop(self.blocks.take(h)?);
        Ok(())
    }
}

#[repr(align(64))]
#[allow(dead_code)]
struct A64([u8; 64]);
#[repr(align(4096))]
#[allow(dead_code)]
struct A4096([u8; 4096]);

/// typed allocation through `alloc::<T>()` / `alloc_slice::<T>(n)`; returns (addr, bytes, align)
macro_rules! bump_typed {
    ($a:expr, $size:expr, $how:expr, $($k:literal => $t:ty),*) => {{
        let sel = ($how / 3) % 7;
        let slice = $how % 3 == 2;
        match sel {
            $( $k => {
                let (sz, al) = (std::mem::size_of::<$t>(), std::mem::align_of::<$t>());
                if slice {
                    let n = ($size / sz).max(1);
                    ok($a.alloc_slice::<$t>(n)).map(|p| (p.as_ptr() as *mut u8 as usize, sz * n, al))
                } else {
                    ok($a.alloc::<$t>()).map(|p| (p.as_ptr() as usize, sz, al))
                }
            } )*
            _ => unreachable!(),
        }
    }};
}

struct BumpAd {
    a: BumpAllocator,
    cap: usize,
    next: u64,
}

impl Adapter for BumpAd {
    fn traits(&self) -> Traits {
        Traits { span: Some(self.cap), max_request: Some(self.cap), leak_check: true, ..Default::default() }
    }
    fn alloc(&mut self, size: usize, al: u8, how: u8, _seed: u32) -> R<Got> {
        let (addr, req, align) = if how % 3 == 0 {
            let align = 1usize << (al % 13);
            (ok(self.a.alloc_bytes(size, align))?.as_ptr() as usize, size, align)
        } else {
            bump_typed!(self.a, size, how, 0 => u8, 1 => u16, 2 => u32, 3 => u64, 4 => u128, 5 => A64, 6 => A4096)?
        };
        self.next += 1;
        Ok(Got { h: self.next, addr, len: req, req, align, prewritten: false })
    }
    fn free(&mut self, _h: u64, _how: u8) -> R<()> {
        Ok(()) // bump allocators have no per-block free
    }
    fn clear(&mut self) -> Option<(bool, R<()>)> {
        // documented: invalidates every block handed out so far
        unsafe { self.a.reset() };
        Some((true, Ok(())))
    }
}

struct BumpArenaAd {
    // scopes borrow the arena: they are declared (and therefore dropped) first
    scopes: Vec<(BumpScope<'static>, u64)>,
    arena: Box<BumpArena>,
    cap: usize,
    next: u64,
}

impl BumpArenaAd {
    fn new(cap: usize) -> R<Self> {
        Ok(BumpArenaAd { scopes: vec![], arena: Box::new(ok(BumpArena::new(cap))?), cap, next: 0 })
    }
}

impl Adapter for BumpArenaAd {
    fn traits(&self) -> Traits {
        Traits { span: Some(self.cap), max_request: Some(self.cap), leak_check: true, ..Default::default() }
    }
    fn alloc(&mut self, size: usize, al: u8, how: u8, _seed: u32) -> R<Got> {
        let via_scope = how % 2 == 1 && !self.scopes.is_empty();
        let (addr, req, align) = if (how / 2) % 3 == 0 {
            let align = 1usize << (al % 13);
            let p = if via_scope { self.scopes.last().unwrap().0.alloc_bytes(size, align) } else { self.arena.alloc_bytes(size, align) };
            (ok(p)?.as_ptr() as usize, size, align)
        } else if via_scope {
            let s = &self.scopes.last().unwrap().0;
            bump_typed!(s, size, how, 0 => u8, 1 => u16, 2 => u32, 3 => u64, 4 => u128, 5 => A64, 6 => A4096)?
        } else {
            bump_typed!(self.arena, size, how, 0 => u8, 1 => u16, 2 => u32, 3 => u64, 4 => u128, 5 => A64, 6 => A4096)?
        };
        self.next += 1;
        Ok(Got { h: self.next, addr, len: req, req, align, prewritten: false })
    }
    fn free(&mut self, _h: u64, _how: u8) -> R<()> {
        Ok(())
    }
    fn scope_open(&mut self) -> bool {
        if self.scopes.len() >= 4 {
            return false;
        }
        // SAFETY (harness): the arena is boxed, never moved, and outlives `scopes` (field order + finish())
        let s: BumpScope<'static> = unsafe { std::mem::transmute::<BumpScope<'_>, BumpScope<'static>>(self.arena.scope()) };
        self.scopes.push((s, self.next));
        true
    }
    fn scope_close(&mut self) -> Option<Vec<u64>> {
        // "resets to the current position when dropped": everything handed out since the scope
        // was opened (through either handle) dies with it
        let (s, mark) = self.scopes.pop()?;
        drop(s);
        Some(((mark + 1)..=self.next).collect())
    }
    fn finish(&mut self) {
        while let Some((s, _)) = self.scopes.pop() {
            drop(s);
        }
    }
}

struct TieredAd {
    own: Option<TieredMemoryAllocator>,
    blocks: Handles<TieredAllocation>,
}

impl Adapter for TieredAd {
    fn abandon(&mut self, h: u64) {
        if let Ok(b) = self.blocks.take(h) {
            let _ = std::mem::ManuallyDrop::new(b);
        }
    }
    fn traits(&self) -> Traits {
        Traits { reuse: true, ..Default::default() }
    }
    fn alloc(&mut self, size: usize, _al: u8, _how: u8, _seed: u32) -> R<Got> {
        let mut a = match &self.own {
            Some(t) => ok(t.allocate(size))?,
            None => ok(tiered_allocate(size))?,
        };
        let len = a.size();
        let addr = a.as_mut_slice().as_mut_ptr() as usize;
        Ok(Got { h: self.blocks.put(a), addr, len, req: size, align: 1, prewritten: false })
    }
    fn free(&mut self, h: u64, _how: u8) -> R<()> {
        let a = self.blocks.take(h)?;
        match &self.own {
            Some(t) => ok(t.deallocate(a)),
            None => ok(tiered_deallocate(a)),
        }
    }
    fn class_of(&self, size: usize) -> Option<usize> {
        Some(match size {
            0..=1024 => 0,
            1025..=2048 => 1,
            2049..=4096 => 2,
            4097..=8192 => 3,
            8193..=16384 => 4,
            _ => 5,
        })
    }
    fn region(&self, size: usize) -> &'static str {
        if size <= 1024 {
            "small"
        } else if size <= 16 * 1024 {
            "medium"
        } else if size < 2 * 1024 * 1024 {
            "large"
        } else {
            "huge"
        }
    }
}

struct MmapAd {
    a: MemoryMappedAllocator,
    blocks: Handles<MmapAllocation>,
}

impl Adapter for MmapAd {
    fn abandon(&mut self, h: u64) {
        if let Ok(b) = self.blocks.take(h) {
            let _ = std::mem::ManuallyDrop::new(b);
        }
    }
    fn traits(&self) -> Traits {
        Traits { reuse: true, ..Default::default() }
    }
    fn alloc(&mut self, size: usize, _al: u8, _how: u8, _seed: u32) -> R<Got> {
        let mut a = ok(self.a.allocate(size))?;
        let len = a.size();
        let addr = a.as_mut_slice().as_mut_ptr() as usize;
        Ok(Got { h: self.blocks.put(a), addr, len, req: size, align: 1, prewritten: false })
    }
    fn free(&mut self, h: u64, _how: u8) -> R<()> {
        let a = self.blocks.take(h)?;
        ok(self.a.deallocate(a))
    }
    fn clear(&mut self) -> Option<(bool, R<()>)> {
        Some((false, ok(self.a.clear_cache())))
    }
    fn class_of(&self, size: usize) -> Option<usize> {
        Some((size + 4095) / 4096)
    }
}

struct HugeAd {
    a: HugePageAllocator,
    direct: bool,
    blocks: Handles<HugePage>,
}

impl Adapter for HugeAd {
    fn abandon(&mut self, h: u64) {
        if let Ok(b) = self.blocks.take(h) {
            let _ = std::mem::ManuallyDrop::new(b);
        }
    }
    fn traits(&self) -> Traits {
        Traits { reuse: false, refusal_cell: true, ..Default::default() }
    }
    fn alloc(&mut self, size: usize, _al: u8, _how: u8, _seed: u32) -> R<Got> {
        let mut a = if self.direct { ok(HugePage::new_2mb(size))? } else { ok(self.a.allocate(size))? };
        let len = a.size();
        let addr = a.as_mut_slice().as_mut_ptr() as usize;
        Ok(Got { h: self.blocks.put(a), addr, len, req: size, align: 1, prewritten: false })
    }
    fn free(&mut self, h: u64, _how: u8) -> R<()> {
        drop(self.blocks.take(h)?);
        Ok(())
    }
}

struct NumaAd {
    pooled: bool,
    blocks: Handles<(NonNull<u8>, usize, usize)>,
}

impl Adapter for NumaAd {
    fn abandon(&mut self, h: u64) {
        if let Ok(b) = self.blocks.take(h) {
            let _ = std::mem::ManuallyDrop::new(b);
        }
    }
    fn traits(&self) -> Traits {
        Traits { reuse: true, leak_check: true, ..Default::default() }
    }
    fn alloc(&mut self, size: usize, al: u8, _how: u8, _seed: u32) -> R<Got> {
        let align = 1usize << (al % 13);
        let p = ok(numa_alloc_aligned(size, align, 0))?;
        Ok(Got { h: self.blocks.put((p, size, align)), addr: p.as_ptr() as usize, len: size, req: size, align: align.max(64), prewritten: false })
    }
    fn free(&mut self, h: u64, _how: u8) -> R<()> {
        let (p, s, a) = self.blocks.take(h)?;
        ok(numa_dealloc(p, s, a, 0))
    }
    fn leak_classifier(&self) -> Box<dyn Fn(isize) -> String + Send> {
        let pooled = self.pooled;
        Box::new(move |_| if pooled { "pools_initialised".into() } else { "no_pools".into() })
    }
    fn finish(&mut self) {
        // "Clear all NUMA pools": documented to release what the pools cached
        let _ = clear_numa_pools();
    }
}

struct CacheAlignedAd {
    a: CacheOptimizedAllocator,
    line: usize,
    blocks: Handles<(NonNull<u8>, usize, usize)>,
}

impl Adapter for CacheAlignedAd {
    fn abandon(&mut self, h: u64) {
        if let Ok(b) = self.blocks.take(h) {
            let _ = std::mem::ManuallyDrop::new(b);
        }
    }
    fn traits(&self) -> Traits {
        Traits { reuse: true, leak_check: true, ..Default::default() }
    }
    fn alloc(&mut self, size: usize, al: u8, how: u8, _seed: u32) -> R<Got> {
        let align = 1usize << (al % 13);
        let p = ok(self.a.allocate_aligned(size, align, how % 2 == 1))?;
        Ok(Got { h: self.blocks.put((p, size, align)), addr: p.as_ptr() as usize, len: size, req: size, align: align.max(self.line), prewritten: false })
    }
    fn free(&mut self, h: u64, _how: u8) -> R<()> {
        let (p, s, a) = self.blocks.take(h)?;
        ok(self.a.deallocate_aligned(p, s, a))
    }
}

// ---------------------------------------------------------------------------------------
// adapters: five-level offset pools (no pointer access: interval checks only)
// ---------------------------------------------------------------------------------------

fn off_of(o: &MemOffset) -> usize {
    // MemOffset's only public observation is its derived Debug form: "MemOffset(123)"
    let s = format!("{:?}", o);
    s.trim_start_matches("MemOffset(").trim_end_matches(')').parse::<usize>().unwrap_or(usize::MAX)
}

enum FivePool {
    NoLock(NoLockingPool),
    Mutex(MutexBasedPool),
    LockFree(LockFreePool),
    ThreadLocal(ThreadLocalPool),
    Fixed(FixedCapacityPool),
    Adaptive(AdaptiveFiveLevelPool),
}

struct FiveAd {
    level_tag: String,
    pool: FivePool,
    align: usize,
    max_fast: usize,
    limit: usize,
    blocks: Handles<(MemOffset, usize)>,
}

fn five_cfg(al: u8, max_fast: usize, capacity: usize, arena: usize, fixed: Option<usize>) -> FiveLevelPoolConfig {
    let mut c = FiveLevelPoolConfig::memory_optimized();
    c.alignment = 1usize << al;
    c.max_fast_block_size = max_fast;
    c.initial_capacity = capacity;
    c.arena_size = arena;
    c.fixed_capacity = fixed;
    c
}

impl FiveAd {
    fn new(kind: u8, al: u8, max_fast: usize, capacity: usize, arena: usize, fixed: Option<usize>) -> R<Self> {
        let c = five_cfg(al, max_fast, capacity, arena, fixed);
        let pool = match kind {
            0 => FivePool::NoLock(ok(NoLockingPool::new(c))?),
            1 => FivePool::Mutex(ok(MutexBasedPool::new(c))?),
            2 => FivePool::LockFree(ok(LockFreePool::new(c))?),
            3 => FivePool::ThreadLocal(ok(ThreadLocalPool::new(c))?),
            4 => FivePool::Fixed(ok(FixedCapacityPool::new(c))?),
            k => {
                let level = match k - 5 {
                    0 => ConcurrencyLevel::SingleThread,
                    1 => ConcurrencyLevel::MultiThreadMutex,
                    2 => ConcurrencyLevel::MultiThreadLockFree,
                    3 => ConcurrencyLevel::ThreadLocal,
                    _ => ConcurrencyLevel::FixedCapacity,
                };
                FivePool::Adaptive(ok(AdaptiveFiveLevelPool::with_level(c, level))?)
            }
        };
        let limit = match &pool {
            FivePool::NoLock(p) => p.stats().total_capacity,
            FivePool::Mutex(p) => p.stats().total_capacity,
            FivePool::LockFree(p) => p.stats().total_capacity,
            FivePool::ThreadLocal(p) => p.stats().total_capacity,
            FivePool::Fixed(p) => p.stats().total_capacity,
            FivePool::Adaptive(p) => p.stats().total_capacity,
        };
        // the thread-local level serves small blocks from a per-thread arena of `arena` bytes in addition to the global pool
        let limit = if kind == 3 || kind == 8 { limit.max(arena) } else { limit };
        Ok(FiveAd { level_tag: if kind >= 5 { format!("_level{}", kind - 4) } else { String::new() }, pool, align: 1usize << al, max_fast, limit, blocks: Handles::new() })
    }
}

impl Adapter for FiveAd {
    fn abandon(&mut self, h: u64) {
        if let Ok(b) = self.blocks.take(h) {
            let _ = std::mem::ManuallyDrop::new(b);
        }
    }
    fn traits(&self) -> Traits {
        Traits { offsets: true, offset_limit: Some(self.limit), max_request: Some(self.limit), reuse: true, ..Default::default() }
    }
    fn alloc(&mut self, size: usize, _al: u8, _how: u8, _seed: u32) -> R<Got> {
        let o = match &mut self.pool {
            FivePool::NoLock(p) => ok(p.alloc(size))?,
            FivePool::Mutex(p) => ok(p.alloc(size))?,
            FivePool::LockFree(p) => ok(p.alloc(size))?,
            FivePool::ThreadLocal(p) => ok(p.alloc(size))?,
            FivePool::Fixed(p) => ok(p.alloc(size))?,
            FivePool::Adaptive(p) => ok(p.alloc(size))?,
        };
        let addr = off_of(&o);
        Ok(Got { h: self.blocks.put((o, size)), addr, len: size, req: size, align: self.align, prewritten: false })
    }
    fn free(&mut self, h: u64, _how: u8) -> R<()> {
        let (o, size) = self.blocks.take(h)?;
        match &mut self.pool {
            FivePool::NoLock(p) => ok(p.free(o, size)),
            FivePool::Mutex(p) => ok(p.free(o, size)),
            FivePool::LockFree(p) => ok(p.free(o, size)),
            FivePool::ThreadLocal(p) => ok(p.free(o, size)),
            FivePool::Fixed(p) => ok(p.free(o, size)),
            FivePool::Adaptive(p) => ok(p.free(o, size)),
        }
    }
    fn class_of(&self, size: usize) -> Option<usize> {
        Some((size + self.align - 1) / self.align)
    }
    fn region(&self, size: usize) -> &'static str {
        if ((size + self.align - 1) & !(self.align - 1)) <= self.max_fast {
            "fast_bin"
        } else {
            "huge"
        }
    }
    fn tag(&self) -> String {
        self.level_tag.clone()
    }
}

// ---------------------------------------------------------------------------------------
// construction
// ---------------------------------------------------------------------------------------

fn secure_cfg(chunk_size: usize, al: u8, lcs: usize, zero_on_free: bool, zero_on_alloc: bool, simd: bool, cache_align: bool) -> SecurePoolConfig {
    let mut c = SecurePoolConfig::new(chunk_size, 16, 1usize << al);
    c.local_cache_size = lcs;
    c.zero_on_free = zero_on_free;
    c.zero_on_alloc = zero_on_alloc;
    c.enable_simd_ops = simd;
    c.enable_cache_alignment = cache_align;
    c.enable_huge_pages = false;
    c
}

fn build(cfg: &Cfg, ctx: &mut Ctx) -> R<Box<dyn Adapter>> {
    Ok(match cfg.clone() {
        Cfg::LockFree { memory_size, stats, cache_align, simd, zero_on_free } => {
            ctx.label(format!("arena_{}K", memory_size / 1024));
            Box::new(LockFreeAd::new(memory_size, stats, cache_align, simd, zero_on_free)?)
        }
        Cfg::Secure { chunk_size, al, lcs, zero_on_free, zero_on_alloc, simd, cache_align } => {
            ctx.label(format!("lcs={lcs}"));
            ctx.label(format!("cfg_align={}", 1usize << al));
            Box::new(SecureAd::from_cfg(secure_cfg(chunk_size, al, lcs, zero_on_free, zero_on_alloc, simd, cache_align))?)
        }
        Cfg::SecurePreset { which } => {
            let c = match which % 3 {
                0 => SecurePoolConfig::small_secure(),
                1 => SecurePoolConfig::medium_secure(),
                _ => SecurePoolConfig::large_secure(),
            };
            Box::new(SecureAd::from_cfg(c)?)
        }
        Cfg::GlobalSecure => Box::new(GlobalSecureAd { blocks: Handles::new() }),
        Cfg::FixedCap { max_block_size, total_blocks, al, stats, eager, secure_clear } => {
            let alignment = 1usize << al;
            ctx.label(if max_block_size % alignment == 0 { "block_multiple_of_align" } else { "block_not_multiple_of_align" });
            Box::new(FixedCapAd::new(FixedCapacityPoolConfig { max_block_size, total_blocks, alignment, enable_stats: stats, eager_allocation: eager, secure_clear })?)
        }
        Cfg::FixedCapPreset { which } => {
            let c = match which % 4 {
                0 => FixedCapacityPoolConfig::small_objects(),
                1 => FixedCapacityPoolConfig::medium_objects(),
                2 => FixedCapacityPoolConfig::realtime(),
                _ => FixedCapacityPoolConfig::secure(),
            };
            ctx.label(format!("preset{}", which % 4));
            Box::new(FixedCapAd::new(c)?)
        }
        Cfg::ThreadLocal { arena_size, max_cached, sync_threshold, stats, secure } => {
            ctx.label(format!("arena_{}K", arena_size / 1024));
            let mut a = ThreadLocalAd::new(arena_size, max_cached, sync_threshold, stats, secure, true)?;
            a.refusal_cell = ctx.cell == "threadlocal_large_request";
            Box::new(a)
        }
        Cfg::Basic { chunk_size, max_chunks, al } => {
            let align = 1usize << al;
            let pool = ok(MemoryPool::new(PoolConfig::new(chunk_size, max_chunks, align)))?;
            Box::new(BasicAd { pool, chunk: chunk_size, align, blocks: Handles::new() })
        }
        Cfg::BasicBuffer => Box::new(BufferAd { blocks: Handles::new() }),
        Cfg::BasicVec => Box::new(VecAd { blocks: Handles::new() }),
        Cfg::Bump { capacity } => Box::new(BumpAd { a: ok(BumpAllocator::new(capacity))?, cap: capacity, next: 0 }),
        Cfg::BumpArena { capacity } => Box::new(BumpArenaAd::new(capacity)?),
        Cfg::Tiered { small, medium, mmap, huge, global } => {
            let own = if global {
                None
            } else {
                let mut c = TieredConfig::default();
                c.enable_small_pools = small;
                c.enable_medium_pools = medium;
                c.enable_mmap_large = mmap;
                c.enable_hugepages = huge;
                Some(ok(TieredMemoryAllocator::new(c))?)
            };
            Box::new(TieredAd { own, blocks: Handles::new() })
        }
        Cfg::Five { kind, al, max_fast, capacity, arena, fixed } => {
            if kind >= 5 {
                ctx.label(format!("level{}", kind - 4));
            }
            Box::new(FiveAd::new(kind, al, max_fast, capacity, arena, fixed)?)
        }
        Cfg::Mmap { min } => Box::new(MmapAd { a: MemoryMappedAllocator::new(min), blocks: Handles::new() }),
        Cfg::Huge { min, direct } => Box::new(HugeAd { a: ok(HugePageAllocator::with_config(min, 2 * 1024 * 1024))?, direct, blocks: Handles::new() }),
        Cfg::Numa { pooled } => {
            if pooled {
                ok(init_numa_pools())?;
            }
            Box::new(NumaAd { pooled, blocks: Handles::new() })
        }
        Cfg::CacheAligned { which } => {
            let c = match which % 4 {
                0 => CacheLayoutConfig::new(),
                1 => CacheLayoutConfig::sequential(),
                2 => CacheLayoutConfig::random(),
                _ => CacheLayoutConfig::default(),
            };
            let line = c.cache_line_size;
            Box::new(CacheAlignedAd { a: CacheOptimizedAllocator::new(c), line, blocks: Handles::new() })
        }
    })
}

/// One complete execution of the case (build, history, teardown) in the current thread.
fn execute(c: &Case, ctx: &mut Ctx) -> (Summary, Traits, Box<dyn Fn(isize) -> String + Send>) {
    let none = || -> Box<dyn Fn(isize) -> String + Send> { Box::new(|_| String::new()) };
    let mut ad = match try_call(|| build(&c.cfg, ctx)) {
        Ok(Ok(a)) => a,
        Ok(Err(_)) => {
            ctx.label("config_refused");
            return (Summary::default(), Traits::default(), none());
        }
        Err(p) => {
            let cls = p.class();
            ctx.fail("new", "panic", &cls, format!("constructor panicked at {}:{}: {}", p.file, p.line, p.msg));
            return (Summary { panicked: true, ..Default::default() }, Traits::default(), none());
        }
    };
    let tr = ad.traits();
    let mut sum = drive(ctx, ad.as_mut(), &c.ops);
    let classifier = ad.leak_classifier();
    if let Err(p) = try_call(move || drop(ad)) {
        sum.panicked = true;
        let cls = p.class();
        ctx.fail("drop", "panic", &cls, format!("dropping the pool panicked at {}:{}: {}", p.file, p.line, p.msg));
    }
    (sum, tr, classifier)
}

/// Run `execute` in a fresh thread (fresh thread-locals; they are destroyed when it exits).
fn in_thread(c: &Case, ctx: &mut Ctx) -> Option<(Summary, Traits, Box<dyn Fn(isize) -> String + Send>)> {
    let r = std::thread::scope(|s| {
        std::thread::Builder::new()
            .name("c07-case".into())
            .stack_size(4 << 20)
            .spawn_scoped(s, || execute(c, ctx))
            .expect("spawn")
            .join()
    });
    r.ok()
}

fn run_case(c: &Case, ctx: &mut Ctx) {
    // refuse absurd heap requests inside the worker instead of trying to satisfy them
    // (no cap on the live total: a pool that frees with a wrong Layout makes the counter drift)
    heap::set_caps(768 << 20, usize::MAX);
    let Some((sum, tr, classifier)) = in_thread(c, ctx) else {
        ctx.fail("exec", "panic", "thread", "the case thread panicked outside any wrapped call");
        return;
    };
    if tr.leak_check && sum.built && !sum.unsafe_seen && !sum.panicked && ctx.out.discrepancies.is_empty() {
        // the first execution was the warm-up (lazy globals, thread-id tables, ...); repeat the
        // same case with a throw-away context and compare the live heap before and after
        let base = heap::live();
        {
            let mut scratch = Ctx::new(ctx.cell.clone(), ctx.tier, ctx.scratch.clone());
            let _ = in_thread(c, &mut scratch);
        }
        let after = heap::live();
        let leaked = after.wrapping_sub(base) as isize;
        ctx.out.checks += 1;
        ctx.label("leak_checked");
        if leaked != 0 {
            let class = classifier(leaked);
            ctx.fail(
                "leak",
                "mismatch",
                &class,
                format!("after dropping every block and the pool, the live heap differs by {} bytes from the level after the warm-up execution of the same case", leaked),
            );
        }
    }
}

// ---------------------------------------------------------------------------------------
// generators
// ---------------------------------------------------------------------------------------

const ABSURD: &[usize] = &[1 << 31, (1 << 32) - 8, 1 << 32, usize::MAX / 2];

/// sizes on both sides of every step of `table`, small sizes, uniform up to `max`, optionally absurd ones
fn sizes(table: &[usize], max: usize, absurd: bool) -> BoxedStrategy<usize> {
    let mut pts: Vec<usize> = vec![];
    for &t in table {
        for d in [-9i64, -8, -7, -1, 0, 1, 7, 8, 9] {
            let v = t as i64 + d;
            if v >= 1 && (v as usize) <= max {
                pts.push(v as usize);
            }
        }
    }
    if pts.is_empty() {
        pts.push(1);
    }
    let max = max.max(1);
    if absurd {
        prop_oneof![
            10 => proptest::sample::select(pts),
            3 => 1usize..=max.min(64),
            3 => 1usize..=max,
            1 => proptest::sample::select(ABSURD.to_vec()),
        ]
        .boxed()
    } else {
        prop_oneof![
            10 => proptest::sample::select(pts),
            3 => 1usize..=max.min(64),
            3 => 1usize..=max,
        ]
        .boxed()
    }
}

#[derive(Clone, Copy)]
struct W {
    alloc: u32,
    free: u32,
    reuse: u32,
    bulk: u32,
    foreign: u32,
    check: u32,
    clear: u32,
    scope: u32,
}

const W_STD: W = W { alloc: 10, free: 6, reuse: 2, bulk: 0, foreign: 0, check: 1, clear: 0, scope: 0 };

fn ops(size: BoxedStrategy<usize>, max_len: usize, w: W) -> BoxedStrategy<Vec<Op>> {
    let s2 = size.clone();
    let s3 = size.clone();
    let s4 = size.clone();
    let op = prop_oneof![
        w.alloc => (size, 0u8..13, any::<u8>()).prop_map(|(size, al, how)| Op::Alloc { size, al, how }),
        w.free => (any::<u16>(), any::<u8>()).prop_map(|(i, how)| Op::Free { i, how }),
        w.reuse.max(0) => any::<u16>().prop_map(|i| Op::Reuse { i }),
        w.bulk => proptest::collection::vec(s2, 1..12).prop_map(|sizes| Op::Bulk { sizes }),
        w.foreign => (0u8..3, s3).prop_map(|(kind, size)| Op::FreeForeign { kind, size }),
        w.check => Just(Op::Check),
        w.clear => Just(Op::Clear),
        w.scope => Just(Op::ScopeOpen),
        w.scope => Just(Op::ScopeClose),
    ];
    // one history in eight starts with a burst: n blocks of ONE size allocated, all n released
    // (oldest first or newest first) with nothing in between, then n allocated again -- fills
    // and overflows whatever per-size cache / free list the allocator keeps, then drains it
    let burst = (s4, 5usize..=10, any::<bool>(), any::<u8>()).prop_map(|(size, n, oldest_first, how)| {
        let mut v: Vec<Op> = (0..n).map(|_| Op::Alloc { size, al: 0, how }).collect();
        v.extend((0..n).map(|_| Op::Free { i: if oldest_first { 0 } else { u16::MAX }, how }));
        v.extend((0..n).map(|_| Op::Alloc { size, al: 0, how }));
        v.push(Op::Check);
        v
    });
    let plain = proptest::collection::vec(op, 0..=max_len);
    prop_oneof![
        7 => plain.clone(),
        1 => (burst, plain).prop_map(|(mut b, rest)| {
            b.extend(rest);
            b
        }),
    ]
    .boxed()
}

fn case<S: Strategy<Value = Cfg> + 'static>(cfg: S, f: impl Fn(&Cfg) -> BoxedStrategy<Vec<Op>> + 'static) -> BoxedStrategy<Case> {
    cfg.prop_flat_map(move |c| {
        let o = f(&c);
        (Just(c), o).prop_map(|(cfg, ops)| Case { cfg, ops })
    })
    .boxed()
}

fn sel<T: Clone + std::fmt::Debug + 'static>(v: &[T]) -> proptest::sample::Select<T> {
    proptest::sample::select(v.to_vec())
}

fn five_case(kind: BoxedStrategy<u8>, len: usize) -> BoxedStrategy<Case> {
    let cfg = (kind, sel(&[2u8, 3, 3, 4, 6]), sel(&[64usize, 100, 256, 1024, 32 * 1024]), sel(&[512usize, 1024, 4096, 16 * 1024, 64 * 1024]), sel(&[256usize, 2048, 4096, 64 * 1024, 2 << 20]), prop_oneof![2 => Just(None), 1 => sel(&[512usize, 4096, 16 * 1024]).prop_map(Some)])
        .prop_map(|(kind, al, max_fast, capacity, arena, fixed)| Cfg::Five { kind, al, max_fast, capacity, arena, fixed });
    case(cfg, move |c| {
        let Cfg::Five { al, max_fast, capacity, .. } = c else { unreachable!() };
        let a = 1usize << al;
        let table: Vec<usize> = (1..=8).map(|k| k * a).chain([*max_fast, *max_fast / 2, *capacity / 4, *capacity]).collect();
        ops(sizes(&table, (*max_fast + 4 * a).min(*capacity + 64), true), len, W_STD)
    })
}

impl Prop for P {
    fn id(&self) -> &'static str {
        "C07"
    }
    fn rule(&self) -> &'static str {
        "per cell (pool x config preset): proptest history vec(Alloc(size,align,api variant) | Bulk | Free(i) | Reuse(i)=free+alloc same size | FreeForeign | Check | Clear | ScopeOpen/Close) over generated small capacities; sizes on both sides of every size-class step, min/max block, >= capacity and absurd (2^31, 2^32-8, 2^32, usize::MAX/2); shadow map of live ranges + per-block byte pattern re-verified after every op; non-trivial = >= 3 blocks live at once AND an allocation after a free AND >= 2 distinct request sizes (fixed-chunk pools: first two); distinct by hash of the case JSON"
    }
    fn assumptions(&self) -> Vec<String> {
        vec![
            "a block is always freed with the size it was allocated with (freeing with another size of the same class is a caller error, DESIGN 6)".into(),
            "size 0 is never requested (APIs are silent or refuse it)".into(),
            "double free / never-issued pointers are only exercised where a pool both validates on free and exposes a free(ptr) API: LockFreeMemoryPool::deallocate (pointer-range check); SecureMemoryPool and FixedCapacityMemoryPool track blocks but free only through RAII guards, MemoryPool documents that it does not validate".into(),
            "ThreadLocalMemoryPool::clear_caches() is only called after every block was released (its effect on live blocks is undocumented)".into(),
            "alignment is asserted only where it is requested per call or configured (bump, numa, cache-aligned, secure/basic/fixed-capacity config.alignment, five-level offsets)".into(),
            "leak oracle only for pools whose Drop/clear is documented to release everything (lock-free, secure, fixed-capacity, basic, bump, numa pools, cache-aligned allocator); configs that feed the global adaptive SIMD monitor (secure zero_on_alloc+simd) are excluded from it".into(),
            "five-level pools hand out offsets only (no pointer API): interval, capacity and alignment checks, no content check".into(),
            "Err from allocate/new is a refusal and never flagged, except Reuse (free(s) directly followed by alloc(s))".into(),
            "BumpScope: every block handed out after the scope was opened dies when it is dropped (documented reset-to-position semantics); scopes are closed LIFO".into(),
        ]
    }
    fn cpu_budget_s(&self) -> u64 {
        60
    }
    fn plans(&self, tier: Tier) -> Vec<Plan> {
        let q = |a: usize, b: usize| tier.pick(a, b);
        let n = q(6000, 120_000);
        let nb = |a: usize| a * 15 / 100;
        let len = q(50, 160);
        let mut v: Vec<Plan> = vec![];
        let mut add = |cell: &str, cases: usize, s: BoxedStrategy<Case>| v.push(Plan::new(cell, cases, nb(cases), s));

        // --- lock-free pool ---
        let lf_cfg = (sel(&[4096usize, 8192, 16384, 65536, 262144, 1 << 20]), any::<bool>(), any::<bool>(), any::<bool>(), any::<bool>())
            .prop_map(|(memory_size, stats, cache_align, simd, zero_on_free)| Cfg::LockFree { memory_size, stats, cache_align, simd, zero_on_free });
        add(
            "lockfree",
            n * 2,
            case(lf_cfg, move |c| {
                let Cfg::LockFree { memory_size, .. } = c else { unreachable!() };
                let max = (*memory_size).min(8192 + 64);
                ops(sizes(LF_BINS, max, true), len, W { bulk: 1, foreign: 1, ..W_STD })
            }),
        );

        // --- secure pool ---
        let sec_cfg = (sel(&[1usize, 7, 8, 16, 24, 63, 64, 100, 1024, 4096, 65536]), 0u8..=6, sel(&[0usize, 1, 2, 64]), any::<bool>(), any::<bool>(), any::<bool>(), any::<bool>())
            .prop_map(|(chunk_size, al, lcs, zero_on_free, zero_on_alloc, simd, cache_align)| Cfg::Secure { chunk_size, al, lcs, zero_on_free, zero_on_alloc, simd, cache_align });
        add("secure", n * 2, case(sec_cfg, move |_| ops(Just(1usize).boxed(), len, W { bulk: 1, clear: 1, ..W_STD })));
        for (k, name) in ["secure_preset_small", "secure_preset_medium", "secure_preset_large"].iter().enumerate() {
            let l = if k == 2 { len.min(24) } else { len };
            add(name, if k == 2 { n / 4 } else { n / 2 }, case(Just(Cfg::SecurePreset { which: k as u8 }), move |_| ops(Just(1usize).boxed(), l, W { bulk: 1, ..W_STD })));
        }
        add(
            "global_secure",
            n / 2,
            case(Just(Cfg::GlobalSecure), move |_| {
                let s = prop_oneof![
                    6 => sizes(&[16, 512, 1024], 1030, false),
                    3 => sizes(&[1025, 4096, 65536], 65536, false),
                    1 => sizes(&[65537, 1 << 20], 1 << 20, false).prop_map(|s| s.max(65537)),
                ]
                .boxed();
                ops(s, len.min(40), W_STD)
            }),
        );

        // --- fixed-capacity pool ---
        let fc_cfg = (sel(&[16usize, 24, 32, 64, 128, 192, 200, 1000, 1024, 4096]), 1usize..=24, sel(&[3u8, 3, 3, 4, 6]), any::<bool>(), any::<bool>(), any::<bool>())
            .prop_map(|(max_block_size, total_blocks, al, stats, eager, secure_clear)| Cfg::FixedCap { max_block_size, total_blocks, al, stats, eager, secure_clear });
        add(
            "fixed_capacity",
            n * 2,
            case(fc_cfg, move |c| {
                let Cfg::FixedCap { max_block_size, al, .. } = c else { unreachable!() };
                let classes = fixed_classes(*max_block_size, 1usize << al);
                ops(sizes(&classes, *max_block_size + 16, true), len, W_STD)
            }),
        );
        add(
            "fixed_capacity_presets",
            n / 4,
            case((0u8..4).prop_map(|which| Cfg::FixedCapPreset { which }), move |c| {
                let Cfg::FixedCapPreset { which } = c else { unreachable!() };
                let (mbs, al) = [(1024usize, 8usize), (64 * 1024, 16), (8192, 64), (4096, 8)][*which as usize % 4];
                ops(sizes(&fixed_classes(mbs, al), mbs + 16, false), len, W_STD)
            }),
        );

        // --- thread-local pool ---
        let tl = |arenas: &'static [usize]| {
            (sel(arenas), sel(&[1usize, 2, 64]), sel(&[64isize, 4096, 256 * 1024]), any::<bool>(), any::<bool>())
                .prop_map(|(arena_size, max_cached, sync_threshold, stats, secure)| Cfg::ThreadLocal { arena_size, max_cached, sync_threshold, stats, secure })
        };
        add("threadlocal", n, case(tl(&[512 * 1024, 2 << 20]), move |_| ops(sizes(TLS_CLASSES, 4200, false), len, W_STD)));
        add(
            "threadlocal_small_arena",
            n,
            case(tl(&[4096, 8192, 16384, 65536]), move |c| {
                let Cfg::ThreadLocal { arena_size, .. } = c else { unreachable!() };
                // exact class sizes only: recycling inside a class can then never hand out a smaller block,
                // so this cell isolates what happens when the hot area is exhausted and replaced
                let exact: Vec<usize> = TLS_CLASSES.iter().copied().filter(|&c| c <= *arena_size / 4).collect();
                ops(sel(&exact).boxed(), len, W_STD)
            }),
        );
        add(
            "threadlocal_large_request",
            n / 4,
            case(tl(&[4096, 65536]), move |c| {
                let Cfg::ThreadLocal { arena_size, .. } = c else { unreachable!() };
                let min = *arena_size / 4 + 1;
                ops(sizes(&[*arena_size / 4, *arena_size], *arena_size + 64, true).prop_map(move |s| s.max(min)).boxed(), 12, W_STD)
            }),
        );

        // --- basic pool, PooledBuffer, PooledVec ---
        let b_cfg = (sel(&[1usize, 8, 24, 64, 100, 1024, 4096]), sel(&[0usize, 1, 2, 8, 100]), 0u8..=7).prop_map(|(chunk_size, max_chunks, al)| Cfg::Basic { chunk_size, max_chunks, al });
        add("basic", n, case(b_cfg, move |_| ops(Just(1usize).boxed(), len, W { clear: 1, ..W_STD })));
        add(
            "basic_buffer",
            n / 2,
            case(Just(Cfg::BasicBuffer), move |_| {
                let s = prop_oneof![
                    6 => sizes(&[512, 1024], 1030, false),
                    3 => sizes(&[1025, 65536], 65536, false),
                    1 => sizes(&[65537, 1 << 20], (1 << 20) + 16, false).prop_map(|s| s.max(65537)),
                    1 => sel(&[(1usize << 20) + 1, (1 << 20) + 8192, 2 << 20, 1 << 31]),
                ]
                .boxed();
                ops(s, len.min(30), W_STD)
            }),
        );
        add("basic_vec", n / 2, case(Just(Cfg::BasicVec), move |_| ops(sizes(&[8, 512, 1024], 1100, false), len, W_STD)));

        // --- bump ---
        let bump_w = W { free: 2, reuse: 0, clear: 1, ..W_STD };
        add(
            "bump",
            n,
            case(sel(&[64usize, 100, 1000, 4096, 65536]).prop_map(|capacity| Cfg::Bump { capacity }), move |c| {
                let Cfg::Bump { capacity } = c else { unreachable!() };
                ops(sizes(&[8, 16, 64, *capacity / 4, *capacity], *capacity + 8, true), len, bump_w)
            }),
        );
        add(
            "bump_arena",
            n,
            case(sel(&[100usize, 1000, 4096, 65536]).prop_map(|capacity| Cfg::BumpArena { capacity }), move |c| {
                let Cfg::BumpArena { capacity } = c else { unreachable!() };
                ops(sizes(&[8, 16, 64, *capacity / 4, *capacity], *capacity + 8, true), len, W { scope: 2, clear: 0, ..bump_w })
            }),
        );

        // --- tiered ---
        let tiered_sizes = || {
            prop_oneof![
                8 => sizes(&[512, 1024, 2048, 4096, 8192, 16384], 16400, false),
                2 => sizes(&[32768, 100_000], 200_000, false),
                1 => sel(&[(2usize << 20) - 1, 2 << 20, (2 << 20) + 1, 1 << 31, usize::MAX / 2]),
            ]
            .boxed()
        };
        let t_cfg = (any::<bool>(), any::<bool>(), any::<bool>(), any::<bool>()).prop_map(|(small, medium, mmap, huge)| Cfg::Tiered { small, medium, mmap, huge, global: false });
        add("tiered", n, case(t_cfg, move |_| ops(tiered_sizes(), len, W_STD)));
        add("tiered_global", n / 2, case(Just(Cfg::Tiered { small: true, medium: true, mmap: true, huge: true, global: true }), move |_| ops(tiered_sizes(), len, W_STD)));

        // --- five-level family ---
        for (k, name) in ["nolock", "mutex", "lockfree5", "threadlocal5", "fixed5"].iter().enumerate() {
            add(name, n, five_case(Just(k as u8).boxed(), len));
        }
        add("adaptive5", n, five_case((5u8..10).boxed(), len));

        // --- system-backed allocators ---
        add(
            "mmap_alloc",
            n / 2,
            case(sel(&[1usize, 4096, 16384]).prop_map(|min| Cfg::Mmap { min }), move |_| {
                let s = prop_oneof![
                    10 => sizes(&[4096, 8192, 16384, 65536], 70_000, false),
                    1 => sel(&[1usize << 31, (1 << 32) - 8, usize::MAX / 2]),
                ]
                .boxed();
                ops(s, len.min(40), W { clear: 1, ..W_STD })
            }),
        );
        add(
            "hugepage",
            n / 4,
            case((sel(&[1usize, 2 << 20]), any::<bool>()).prop_map(|(min, direct)| Cfg::Huge { min, direct }), move |_| {
                ops(sel(&[1usize, 4096, (2 << 20) - 1, 2 << 20, (2 << 20) + 1, 4 << 20, 1 << 31, usize::MAX / 2]).boxed(), 10, W_STD)
            }),
        );
        let sys_sizes = || {
            prop_oneof![
                12 => sizes(&[64, 1024, 4096, 65536], 70_000, false),
                1 => sel(&[1usize << 31, (1 << 32) - 8, usize::MAX / 2]),
            ]
            .boxed()
        };
        add("numa", n / 2, case(any::<bool>().prop_map(|pooled| Cfg::Numa { pooled }), move |_| ops(sys_sizes(), len, W_STD)));
        add("cache_aligned_alloc", n / 2, case((0u8..4).prop_map(|which| Cfg::CacheAligned { which }), move |_| ops(sys_sizes(), len, W_STD)));
        v
    }

    fn run(&self, case: &Value, ctx: &mut Ctx) {
        let c: Case = decode(case);
        run_case(&c, ctx);
    }
}
