//! C05 — a trie is exactly the set of keys inserted and not removed.
//!
//! Oracle: `BTreeSet<Vec<u8>>`.  Every history is interpreted against the model; after every
//! mutating call the whole key universe of the case (pool + every derived query key) is swept
//! with `contains`, `len` is compared, and at checkpoints / at the end `keys()`,
//! `keys_with_prefix(p)`, `accepts(k)` and `longest_prefix(q)` are compared with the
//! definitional value computed from the model (never with another call of the implementation).
//!
//! Cells: `ZiporaTrie` x every preset / strategy corner, the legacy wrapper types, the DAWG
//! types that expose the `Trie` API, and `ParallelLoudsTrie`.

use crate::engine::{decode, Ctx, Plan, Prop, Tier};
use crate::gen::{idx, Bytes};
use proptest::prelude::*;
use serde::{Deserialize, Serialize};
use serde_json::Value;
use std::collections::BTreeSet;
use zipora::fsa::version_sync::{ReaderToken, VersionManager, WriterToken};
use zipora::fsa::{
    CompressedSparseTrie, ConcurrencyLevel, DoubleArrayTrie, DoubleArrayTrieBuilder, DoubleArrayTrieConfig, FiniteStateAutomaton, NestedLoudsTrie, NestedTrieDawg,
    NestingConfig, PrefixIterable, SimpleDawg, StorageStrategy, Trie, TrieStrategy, ZiporaTrie, ZiporaTrieConfig,
};
use zipora::succinct::RankSelectInterleaved256;

pub struct P;

// ---------------------------------------------------------------------------------------
// case description
// ---------------------------------------------------------------------------------------

/// A pool key: explicit bytes, or a compactly described long key (`share` bytes of a common stem,
/// then a tag-specific tail) so that long keys share long prefixes and can be prefixes of each other.
#[derive(Clone, Debug, Serialize, Deserialize)]
pub enum K {
    R(Bytes),
    L { share: u16, len: u16, tag: u8 },
}

const STEM: [u8; 7] = [b'a', 0x00, 0xFF, b'b', 0x01, 0xFE, b'a'];

impl K {
    fn bytes(&self) -> Vec<u8> {
        match self {
            K::R(b) => b.0.clone(),
            K::L { share, len, tag } => (0..*len as usize)
                .map(|j| if j < *share as usize { STEM[j % 7] } else { (tag.wrapping_mul(37) ^ (j as u8).wrapping_mul(11)).wrapping_add(*tag) })
                .collect(),
        }
    }
}

/// A key used by an operation, derived from the pool: the pool key itself, a prefix of it, or
/// the key plus one byte (so non-members adjacent to members are common).
#[derive(Clone, Debug, Serialize, Deserialize)]
pub enum Q {
    P(u16),
    Pre(u16, u8),
    Ext(u16, u8),
}

#[derive(Clone, Debug, Serialize, Deserialize)]
pub enum Op {
    Ins(Q),
    Rem(Q),
    Has(Q),
    Len,
    Keys,
    Kwp(Q),
    Acc(Q),
    Lp(Q, Bytes),
    Dup,
    /// `insert_and_get_node_id` (only generated for the cell dedicated to that entry point)
    InsId(Q),
}

#[derive(Clone, Debug, Serialize, Deserialize)]
pub struct Case {
    pool: Vec<K>,
    /// keys (pool indices) given to a builder-style constructor before the history starts
    init: Vec<u16>,
    /// cell-specific construction choice (API flavour, concurrency level, chunk size ...)
    variant: u8,
    ops: Vec<Op>,
}

// ---------------------------------------------------------------------------------------
// generators
// ---------------------------------------------------------------------------------------

const ALPHA: [u8; 6] = [0x00, 0x01, b'a', b'b', 0xFE, 0xFF];

fn alpha_key(max: usize) -> BoxedStrategy<Vec<u8>> {
    proptest::collection::vec(proptest::sample::select(ALPHA.to_vec()), 0..=max).boxed()
}

fn long_key(long_max: u16) -> BoxedStrategy<K> {
    let shares: Vec<u16> = vec![0, 1, 2, 29, 30, 31, 32, 33, 63, 64, 65, 127, 128, 254, 255, 256, 299];
    let share = prop_oneof![3 => proptest::sample::select(shares), 1 => 0u16..=299];
    let lens: Vec<u16> = [30u16, 31, 32, 33, 63, 64, 65, 66, 127, 128, 129, 254, 255, 256, 257, 300].iter().copied().filter(|l| *l <= long_max).collect();
    let len = prop_oneof![2 => proptest::sample::select(lens), 1 => 30u16..=long_max.max(30)];
    (share, len, 0u8..4).prop_map(|(share, len, tag)| K::L { share, len, tag }).boxed()
}

/// Pool of candidate keys: short keys over a 6-letter alphabet containing 0x00 and 0xFF, a few
/// keys with arbitrary bytes, the empty key (usually), explicit (k, k++suffix) pairs and long keys.
fn pool(short_n: usize, long_n: usize, long_max: u16) -> BoxedStrategy<Vec<K>> {
    let shorts = proptest::collection::vec(prop_oneof![5 => alpha_key(6), 1 => proptest::collection::vec(any::<u8>(), 1..=8)], 3..=short_n);
    let pairs = proptest::collection::vec((any::<u16>(), proptest::collection::vec(proptest::sample::select(ALPHA.to_vec()), 1..=3)), 1..=4);
    let longs = if long_n == 0 { Just(vec![]).boxed() } else { proptest::collection::vec(long_key(long_max), 0..=long_n).boxed() };
    (shorts, pairs, longs, proptest::bool::weighted(0.7))
        .prop_map(|(shorts, pairs, longs, with_empty)| {
            let mut out: Vec<K> = vec![];
            let mut seen: BTreeSet<Vec<u8>> = BTreeSet::new();
            let mut push = |k: K, out: &mut Vec<K>| {
                if seen.insert(k.bytes()) {
                    out.push(k);
                }
            };
            for s in &shorts {
                push(K::R(Bytes(s.clone())), &mut out);
            }
            if with_empty {
                push(K::R(Bytes(vec![])), &mut out);
            }
            for (i, suf) in &pairs {
                let mut b = shorts[idx(*i, shorts.len())].clone();
                b.extend_from_slice(suf);
                push(K::R(Bytes(b)), &mut out);
            }
            for l in longs {
                push(l, &mut out);
            }
            out
        })
        .boxed()
}

fn q() -> BoxedStrategy<Q> {
    prop_oneof![
        12 => any::<u16>().prop_map(Q::P),
        2 => (any::<u16>(), any::<u8>()).prop_map(|(i, c)| Q::Pre(i, c)),
        2 => (any::<u16>(), proptest::sample::select(vec![0x00u8, 0x01, b'a', b'b', 0xFE, 0xFF, 0x7F])).prop_map(|(i, b)| Q::Ext(i, b)),
    ]
    .boxed()
}

#[derive(Clone, Copy)]
struct Mix {
    /// 0 = never generate `remove`, 1 = always the mix with removes, 2 = half of the cases each
    remove: u8,
    /// false = query-only histories (structures that are built once from a key list)
    insert: bool,
    ins_id: bool,
    dup: bool,
    enumerate: bool,
    fsa: bool,
}

fn op(m: Mix, with_remove: bool) -> BoxedStrategy<Op> {
    let mut v: Vec<(u32, BoxedStrategy<Op>)> = vec![];
    if !m.insert {
    } else if m.ins_id {
        v.push((18, q().prop_map(Op::Ins).boxed()));
        v.push((18, q().prop_map(Op::InsId).boxed()));
    } else {
        v.push((36, q().prop_map(Op::Ins).boxed()));
    }
    if with_remove {
        v.push((16, q().prop_map(Op::Rem).boxed()));
    }
    v.push((8, q().prop_map(Op::Has).boxed()));
    v.push((3, Just(Op::Len).boxed()));
    if m.enumerate {
        v.push((4, Just(Op::Keys).boxed()));
        v.push((8, q().prop_map(Op::Kwp).boxed()));
    }
    if m.fsa {
        v.push((7, q().prop_map(Op::Acc).boxed()));
        v.push((8, (q(), alpha_key(3)).prop_map(|(k, s)| Op::Lp(k, Bytes(s))).boxed()));
    }
    if m.dup {
        v.push((2, Just(Op::Dup).boxed()));
    }
    proptest::strategy::Union::new_weighted(v).boxed()
}

#[derive(Clone, Copy)]
struct Shape {
    short_n: usize,
    long_n: usize,
    long_max: u16,
    ops_max: usize,
    init_max: usize,
}

fn case(m: Mix, s: Shape) -> BoxedStrategy<Case> {
    let ops = |with_remove: bool| {
        // lower bound 0 so that histories shrink to their essential operations
        proptest::collection::vec(op(m, with_remove), 0..=s.ops_max)
    };
    let ops: BoxedStrategy<Vec<Op>> = match m.remove {
        0 => ops(false).boxed(),
        1 => ops(true).boxed(),
        _ => prop_oneof![ops(true), ops(false)].boxed(),
    };
    let init = if s.init_max == 0 { Just(vec![]).boxed() } else { proptest::collection::vec(any::<u16>(), 0..=s.init_max).boxed() };
    (pool(s.short_n, s.long_n, s.long_max), init, any::<u8>(), ops).prop_map(|(pool, init, variant, ops)| Case { pool, init, variant, ops }).boxed()
}

// ---------------------------------------------------------------------------------------
// the system under test, behind one interface (None = the type does not offer that call)
// ---------------------------------------------------------------------------------------

type R<T> = Result<T, String>;
fn es<T>(r: zipora::Result<T>) -> R<T> {
    r.map_err(|e| e.to_string())
}

trait Sut {
    fn insert(&mut self, k: &[u8]) -> R<()>;
    fn insert_id(&mut self, _k: &[u8]) -> Option<R<()>> {
        None
    }
    fn remove(&mut self, _k: &[u8]) -> Option<R<bool>> {
        None
    }
    fn contains(&self, k: &[u8]) -> bool;
    fn len(&self) -> usize;
    fn is_empty(&self) -> bool;
    fn keys(&self) -> Option<Vec<Vec<u8>>> {
        None
    }
    fn kwp(&self, _p: &[u8]) -> Option<Vec<Vec<u8>>> {
        None
    }
    fn iter_all(&self) -> Option<Vec<Vec<u8>>> {
        None
    }
    fn iter_prefix(&self, _p: &[u8]) -> Option<Vec<Vec<u8>>> {
        None
    }
    fn accepts(&self, _k: &[u8]) -> Option<bool> {
        None
    }
    fn longest_prefix(&self, _q: &[u8]) -> Option<Option<usize>> {
        None
    }
    /// `Trie::lookup(k).is_some()`
    fn lookup(&self, _k: &[u8]) -> Option<bool> {
        None
    }
    fn dup(&self) -> Option<Box<dyn Sut>> {
        None
    }
}

struct Zt {
    t: ZiporaTrie,
    via_trait: bool,
}
impl Sut for Zt {
    fn insert(&mut self, k: &[u8]) -> R<()> {
        if self.via_trait {
            es(Trie::insert(&mut self.t, k)).map(|_| ())
        } else {
            es(self.t.insert(k))
        }
    }
    fn insert_id(&mut self, k: &[u8]) -> Option<R<()>> {
        Some(es(self.t.insert_and_get_node_id(k)).map(|_| ()))
    }
    fn remove(&mut self, k: &[u8]) -> Option<R<bool>> {
        Some(es(self.t.remove(k)))
    }
    fn contains(&self, k: &[u8]) -> bool {
        if self.via_trait {
            Trie::contains(&self.t, k)
        } else {
            self.t.contains(k)
        }
    }
    fn len(&self) -> usize {
        if self.via_trait {
            Trie::len(&self.t)
        } else {
            self.t.len()
        }
    }
    fn is_empty(&self) -> bool {
        self.t.is_empty()
    }
    fn keys(&self) -> Option<Vec<Vec<u8>>> {
        Some(self.t.keys())
    }
    fn kwp(&self, p: &[u8]) -> Option<Vec<Vec<u8>>> {
        Some(self.t.keys_with_prefix(p))
    }
    fn iter_all(&self) -> Option<Vec<Vec<u8>>> {
        Some(PrefixIterable::iter_all(&self.t).collect())
    }
    fn iter_prefix(&self, p: &[u8]) -> Option<Vec<Vec<u8>>> {
        Some(PrefixIterable::iter_prefix(&self.t, p).collect())
    }
    fn accepts(&self, k: &[u8]) -> Option<bool> {
        Some(self.t.accepts(k))
    }
    fn longest_prefix(&self, q: &[u8]) -> Option<Option<usize>> {
        Some(self.t.longest_prefix(q))
    }
    fn lookup(&self, k: &[u8]) -> Option<bool> {
        Some(Trie::lookup(&self.t, k).is_some())
    }
    fn dup(&self) -> Option<Box<dyn Sut>> {
        Some(Box::new(Zt { t: self.t.clone(), via_trait: self.via_trait }))
    }
}

/// the three legacy wrappers and the DAWG share the trait surface
macro_rules! trait_sut {
    ($name:ident, $ty:ty) => {
        struct $name {
            t: $ty,
            via_trait: bool,
        }
        impl Sut for $name {
            fn insert(&mut self, k: &[u8]) -> R<()> {
                if self.via_trait {
                    es(Trie::insert(&mut self.t, k)).map(|_| ())
                } else {
                    es(self.t.insert(k)).map(|_| ())
                }
            }
            fn contains(&self, k: &[u8]) -> bool {
                if self.via_trait {
                    Trie::contains(&self.t, k)
                } else {
                    self.t.contains(k)
                }
            }
            fn len(&self) -> usize {
                if self.via_trait {
                    Trie::len(&self.t)
                } else {
                    self.t.len()
                }
            }
            fn is_empty(&self) -> bool {
                self.t.is_empty()
            }
            fn accepts(&self, k: &[u8]) -> Option<bool> {
                Some(self.t.accepts(k))
            }
            fn longest_prefix(&self, q: &[u8]) -> Option<Option<usize>> {
                Some(self.t.longest_prefix(q))
            }
            fn lookup(&self, k: &[u8]) -> Option<bool> {
                Some(Trie::lookup(&self.t, k).is_some())
            }
        }
    };
}
trait_sut!(Dat, DoubleArrayTrie);
trait_sut!(Nlt, NestedLoudsTrie<RankSelectInterleaved256>);
trait_sut!(Dawg, NestedTrieDawg);

/// CompressedSparseTrie through its token API.  Field order matters: the tokens hold a raw
/// pointer to the manager and must be dropped before it (the manager is boxed so it never moves).
struct Cst {
    t: CompressedSparseTrie,
    wt: Option<WriterToken>,
    rt: Option<ReaderToken>,
    _mgr: Box<VersionManager>,
    via_trait: bool,
}
impl Sut for Cst {
    fn insert(&mut self, k: &[u8]) -> R<()> {
        match (&self.wt, self.via_trait) {
            (Some(w), _) => es(self.t.insert_with_token(k, w)),
            (None, true) => es(Trie::insert(&mut self.t, k)).map(|_| ()),
            (None, false) => es(self.t.insert(k)),
        }
    }
    fn contains(&self, k: &[u8]) -> bool {
        match (&self.rt, self.via_trait) {
            (Some(r), _) => self.t.contains_with_token(k, r),
            (None, true) => Trie::contains(&self.t, k),
            (None, false) => self.t.contains(k),
        }
    }
    fn len(&self) -> usize {
        self.t.len()
    }
    fn is_empty(&self) -> bool {
        self.t.is_empty()
    }
    fn accepts(&self, k: &[u8]) -> Option<bool> {
        Some(self.t.accepts(k))
    }
    fn longest_prefix(&self, q: &[u8]) -> Option<Option<usize>> {
        Some(self.t.longest_prefix(q))
    }
    fn lookup(&self, k: &[u8]) -> Option<bool> {
        Some(match &self.rt {
            Some(r) => self.t.lookup_with_token(k, r).is_some(),
            None => Trie::lookup(&self.t, k).is_some(),
        })
    }
}

struct Sd(SimpleDawg);
impl Sut for Sd {
    fn insert(&mut self, k: &[u8]) -> R<()> {
        es(self.0.insert(k))
    }
    fn contains(&self, k: &[u8]) -> bool {
        self.0.contains(k)
    }
    fn len(&self) -> usize {
        self.0.num_keys()
    }
    fn is_empty(&self) -> bool {
        self.0.num_keys() == 0
    }
}

struct Par {
    rt: tokio::runtime::Runtime,
    t: zipora::ParallelLoudsTrie,
    bulk: bool,
}
impl Sut for Par {
    fn insert(&mut self, k: &[u8]) -> R<()> {
        if self.bulk {
            es(self.rt.block_on(self.t.bulk_insert(vec![k.to_vec()]))).map(|_| ())
        } else {
            es(self.rt.block_on(self.t.insert(k))).map(|_| ())
        }
    }
    fn contains(&self, k: &[u8]) -> bool {
        if self.bulk {
            self.rt.block_on(self.t.parallel_contains(vec![k.to_vec()])).first().copied().unwrap_or(false)
        } else {
            self.rt.block_on(self.t.contains(k))
        }
    }
    fn len(&self) -> usize {
        self.rt.block_on(self.t.len())
    }
    fn is_empty(&self) -> bool {
        self.rt.block_on(self.t.is_empty())
    }
    fn keys(&self) -> Option<Vec<Vec<u8>>> {
        self.kwp(&[])
    }
    fn kwp(&self, p: &[u8]) -> Option<Vec<Vec<u8>>> {
        Some(self.rt.block_on(self.t.parallel_prefix_search(vec![p.to_vec()])).into_iter().next().unwrap_or_default())
    }
}

// ---------------------------------------------------------------------------------------
// cells
// ---------------------------------------------------------------------------------------

#[derive(Clone, Copy, PartialEq)]
enum Kind {
    Zt,
    ZtNodeId,
    Dat,
    DatBuilder,
    Nlt,
    Cst,
    DawgFresh,
    DawgBuild,
    DawgBuilt,
    SimpleDawg,
    Par,
}

struct Cell {
    name: &'static str,
    kind: Kind,
    remove: u8,
    quick: usize,
    /// share of the quick cases additionally run under the checked+ASan flavour (per mille)
    b_permille: usize,
}

const CELLS: &[Cell] = &[
    Cell { name: "zt_patricia_default", kind: Kind::Zt, remove: 1, quick: 8400, b_permille: 100 },
    Cell { name: "zt_patricia_cache_optimized", kind: Kind::Zt, remove: 1, quick: 4800, b_permille: 100 },
    Cell { name: "zt_patricia_maxpath1", kind: Kind::Zt, remove: 1, quick: 3000, b_permille: 100 },
    Cell { name: "zt_patricia_maxpath2", kind: Kind::Zt, remove: 1, quick: 3000, b_permille: 100 },
    Cell { name: "zt_darray_concurrent_hp", kind: Kind::Zt, remove: 2, quick: 6000, b_permille: 100 },
    Cell { name: "zt_darray_cap2", kind: Kind::Zt, remove: 2, quick: 3600, b_permille: 100 },
    Cell { name: "zt_darray_cap256", kind: Kind::Zt, remove: 2, quick: 3600, b_permille: 100 },
    Cell { name: "zt_louds_space_optimized", kind: Kind::Zt, remove: 2, quick: 4800, b_permille: 100 },
    Cell { name: "zt_sparse_sparse_optimized", kind: Kind::Zt, remove: 2, quick: 4800, b_permille: 100 },
    Cell { name: "zt_critbit_string_specialized", kind: Kind::Zt, remove: 2, quick: 3000, b_permille: 100 },
    Cell { name: "zt_patricia_node_id_api", kind: Kind::ZtNodeId, remove: 1, quick: 3600, b_permille: 100 },
    Cell { name: "w_double_array_trie", kind: Kind::Dat, remove: 0, quick: 4800, b_permille: 100 },
    Cell { name: "w_double_array_builder", kind: Kind::DatBuilder, remove: 0, quick: 3600, b_permille: 100 },
    Cell { name: "w_nested_louds", kind: Kind::Nlt, remove: 0, quick: 3600, b_permille: 100 },
    Cell { name: "w_compressed_sparse", kind: Kind::Cst, remove: 0, quick: 4800, b_permille: 100 },
    Cell { name: "dawg_fresh_insert", kind: Kind::DawgFresh, remove: 0, quick: 3000, b_permille: 0 },
    Cell { name: "dawg_build", kind: Kind::DawgBuild, remove: 0, quick: 4800, b_permille: 0 },
    Cell { name: "dawg_build_then_insert", kind: Kind::DawgBuilt, remove: 0, quick: 3000, b_permille: 0 },
    Cell { name: "simple_dawg", kind: Kind::SimpleDawg, remove: 0, quick: 2400, b_permille: 0 },
    Cell { name: "parallel_louds", kind: Kind::Par, remove: 0, quick: 1800, b_permille: 0 },
];

fn zt_config(cell: &str) -> Option<ZiporaTrieConfig> {
    let patricia = |mpl: usize| {
        let mut c = ZiporaTrieConfig::default();
        c.trie_strategy = TrieStrategy::Patricia { max_path_length: mpl, compression_threshold: 1, adaptive_compression: false };
        c
    };
    let darray = |cap: usize| {
        let mut c = ZiporaTrieConfig::default();
        c.trie_strategy = TrieStrategy::DoubleArray { initial_capacity: cap, growth_factor: 1.5, free_list_management: true, auto_shrink: false };
        c.storage_strategy = StorageStrategy::Standard { initial_capacity: cap, growth_factor: 1.5 };
        c
    };
    Some(match cell {
        "zt_patricia_default" | "zt_patricia_node_id_api" => ZiporaTrieConfig::default(),
        "zt_patricia_cache_optimized" => ZiporaTrieConfig::cache_optimized(),
        "zt_patricia_maxpath1" => patricia(1),
        "zt_patricia_maxpath2" => patricia(2),
        "zt_darray_concurrent_hp" => {
            let pool = zipora::memory::SecureMemoryPool::new(zipora::memory::SecurePoolConfig::small_secure()).ok()?;
            ZiporaTrieConfig::concurrent_high_performance(pool)
        }
        "zt_darray_cap2" => darray(2),
        "zt_darray_cap256" => darray(256),
        "zt_louds_space_optimized" => ZiporaTrieConfig::space_optimized(),
        "zt_sparse_sparse_optimized" => ZiporaTrieConfig::sparse_optimized(),
        "zt_critbit_string_specialized" => ZiporaTrieConfig::string_specialized(),
        _ => return None,
    })
}

fn level(v: u8) -> (ConcurrencyLevel, &'static str) {
    match (v >> 2) % 5 {
        0 => (ConcurrencyLevel::NoWriteReadOnly, "NoWriteReadOnly"),
        1 => (ConcurrencyLevel::SingleThreadStrict, "SingleThreadStrict"),
        2 => (ConcurrencyLevel::SingleThreadShared, "SingleThreadShared"),
        3 => (ConcurrencyLevel::OneWriteMultiRead, "OneWriteMultiRead"),
        _ => (ConcurrencyLevel::MultiWriteMultiRead, "MultiWriteMultiRead"),
    }
}

// ---------------------------------------------------------------------------------------
// oracle
// ---------------------------------------------------------------------------------------

fn key_class(k: &[u8]) -> &'static str {
    if k.is_empty() {
        "empty_key"
    } else if k.len() > 255 {
        "len>255"
    } else if k.len() >= 30 {
        "long"
    } else if k.contains(&0) {
        "short_with_nul"
    } else {
        "short"
    }
}

struct Drive<'a> {
    ctx: &'a mut Ctx,
    model: BTreeSet<Vec<u8>>,
    universe: BTreeSet<Vec<u8>>,
    /// `len()` drift already reported (the model is resynchronised so one defect is reported once)
    len_delta: i64,
    /// the set the history *asks for* (never resynchronised): non-triviality is a property of the
    /// generated input, not of what a defective implementation made of it
    ideal: BTreeSet<Vec<u8>>,
    removed_live: BTreeSet<Vec<u8>>,
    nt_prefix_pair: bool,
    nt_reinsert: bool,
    nt_dup_insert: bool,
    max_live: usize,
    any_remove_op: bool,
}

impl<'a> Drive<'a> {
    fn resolve(&mut self, pool: &[Vec<u8>], q: &Q) -> Vec<u8> {
        let k = if pool.is_empty() {
            vec![]
        } else {
            match q {
                Q::P(i) => pool[idx(*i, pool.len())].clone(),
                Q::Pre(i, c) => {
                    let k = &pool[idx(*i, pool.len())];
                    // monotone map of c onto 0..=len (shrinks towards the empty prefix)
                    let n = (*c as usize * (k.len() + 1)) >> 8;
                    k[..n.min(k.len())].to_vec()
                }
                Q::Ext(i, b) => {
                    let mut k = pool[idx(*i, pool.len())].clone();
                    k.push(*b);
                    k
                }
            }
        };
        self.universe.insert(k.clone());
        k
    }

    /// set the model's opinion about `k` to the implementation's (after a reported discrepancy)
    fn resync_key(&mut self, sut: &dyn Sut, k: &[u8]) {
        if let Some(has) = self.ctx.no_panic("contains", || sut.contains(k)) {
            self.set_model(k, has);
        }
    }

    /// resynchronise membership of `k` only: the expected `len()` is kept where it was, because the
    /// implementation's counter did not change when its membership answer turned out different
    fn set_model(&mut self, k: &[u8], live: bool) {
        if live {
            if self.model.insert(k.to_vec()) {
                self.len_delta -= 1;
            }
        } else if self.model.remove(k) {
            self.len_delta += 1;
        }
    }

    fn check_len(&mut self, sut: &dyn Sut, class: &str) {
        let Some(got) = self.ctx.no_panic("len", || sut.len()) else { return };
        let want = self.model.len() as i64 + self.len_delta;
        if !self.ctx.eq("len", class, &(got as i64), &want) {
            self.len_delta = got as i64 - self.model.len() as i64;
        }
        if let Some(e) = self.ctx.no_panic("len", || sut.is_empty()) {
            // is_empty is defined as len() == 0 by the trait; compare with the implementation's own
            // len so that a len defect is not reported twice
            self.ctx.eq("is_empty", class, &e, &(got == 0));
        }
    }

    fn sweep(&mut self, sut: &dyn Sut, phase: &str) {
        let uni: Vec<Vec<u8>> = self.universe.iter().cloned().collect();
        for k in uni {
            if self.ctx.saturated() {
                return;
            }
            let Some(got) = self.ctx.no_panic("contains", || sut.contains(&k)) else { continue };
            let want = self.model.contains(&k);
            if got != want {
                let class = format!("{}:{}{}", if want { "missing" } else { "phantom" }, key_class(&k), phase);
                self.ctx.out.checks += 1;
                self.ctx.fail("contains", "mismatch", &class, format!("contains({:?}) = {} but the key is {}", Bytes(k.clone()), got, if want { "live" } else { "not live" }));
                self.set_model(&k, got);
            } else {
                self.ctx.out.checks += 1;
            }
        }
    }

    /// compare an enumeration with the expected set: nothing missing, nothing extra, no duplicates
    fn check_enum(&mut self, aspect: &str, got: Vec<Vec<u8>>, want: &BTreeSet<Vec<u8>>) {
        let got_set: BTreeSet<Vec<u8>> = got.iter().cloned().collect();
        let dup = got_set.len() != got.len();
        self.ctx.ensure(aspect, "duplicates", !dup, || format!("{} entries, {} distinct", got.len(), got_set.len()));
        if let Some(m) = want.difference(&got_set).next() {
            self.ctx.ensure(aspect, &format!("missing:{}", key_class(m)), false, || {
                format!("live key {:?} not enumerated ({} enumerated, {} expected)", Bytes(m.clone()), got_set.len(), want.len())
            });
        } else {
            self.ctx.out.checks += 1;
        }
        if let Some(x) = got_set.difference(want).next() {
            self.ctx.ensure(aspect, &format!("extra:{}", key_class(x)), false, || {
                format!("enumerated {:?} which is not an expected member ({} enumerated, {} expected)", Bytes(x.clone()), got_set.len(), want.len())
            });
        } else {
            self.ctx.out.checks += 1;
        }
    }

    fn check_keys(&mut self, sut: &dyn Sut) {
        let want = self.model.clone();
        if let Some(Some(got)) = self.ctx.no_panic("keys", || sut.keys()) {
            self.check_enum("keys", got, &want);
        }
        if let Some(Some(got)) = self.ctx.no_panic("iter_all", || sut.iter_all()) {
            self.check_enum("iter_all", got, &want);
        }
    }

    fn check_kwp(&mut self, sut: &dyn Sut, p: &[u8]) {
        let want: BTreeSet<Vec<u8>> = self.model.iter().filter(|k| k.starts_with(p)).cloned().collect();
        if let Some(Some(got)) = self.ctx.no_panic("keys_with_prefix", || sut.kwp(p)) {
            self.check_enum("keys_with_prefix", got, &want);
        }
        if let Some(Some(got)) = self.ctx.no_panic("iter_prefix", || sut.iter_prefix(p)) {
            self.check_enum("iter_prefix", got, &want);
        }
    }

    fn check_accepts(&mut self, sut: &dyn Sut, k: &[u8]) {
        let want = self.model.contains(k);
        let class = format!("{}:{}", if want { "missing" } else { "phantom" }, key_class(k));
        if let Some(Some(got)) = self.ctx.no_panic("fsa_accepts", || sut.accepts(k)) {
            self.ctx.eq("fsa_accepts", &class, &got, &want);
        }
        if let Some(Some(got)) = self.ctx.no_panic("fsa_lookup", || sut.lookup(k)) {
            self.ctx.eq("fsa_lookup", &class, &got, &want);
        }
    }

    fn check_longest_prefix(&mut self, sut: &dyn Sut, q: &[u8]) {
        let want: Option<usize> = (0..=q.len()).rev().find(|n| self.model.contains(&q[..*n]));
        if let Some(Some(got)) = self.ctx.no_panic("fsa_longest_prefix", || sut.longest_prefix(q)) {
            let class = match (got, want) {
                (None, Some(_)) => "got_none",
                (Some(_), None) => "got_some_want_none",
                (Some(g), Some(w)) if g < w => "too_short",
                _ => "too_long",
            };
            self.ctx.eq("fsa_longest_prefix", class, &got, &want);
        }
    }

    fn note_insert(&mut self, k: &[u8]) {
        if !self.ideal.insert(k.to_vec()) {
            self.nt_dup_insert = true;
        } else if self.removed_live.contains(k) {
            self.nt_reinsert = true;
        }
        if !self.nt_prefix_pair && self.ideal.iter().any(|m| m.as_slice() != k && (m.starts_with(k) || k.starts_with(m))) {
            self.nt_prefix_pair = true;
        }
        self.max_live = self.max_live.max(self.ideal.len());
    }

    fn do_insert(&mut self, sut: &mut dyn Sut, k: &[u8], via_id: bool) {
        let was_live = self.model.contains(k);
        let aspect = if via_id { "insert_and_get_node_id" } else { "insert" };
        let r = self.ctx.no_panic(aspect, || if via_id { sut.insert_id(k).unwrap_or(Ok(())) } else { sut.insert(k) });
        let phase = if was_live { "after_reinsert" } else { "after_insert_new" };
        match r {
            Some(Ok(())) => {
                self.model.insert(k.to_vec());
                self.note_insert(k);
            }
            Some(Err(e)) => {
                if k.len() > 255 {
                    // documented limit of the LOUDS storage ("max 255 bytes"): a refusal, the set must be unchanged
                    self.ctx.label("insert_refused:len>255");
                } else {
                    self.ctx.out.checks += 1;
                    self.ctx.fail(aspect, "err", key_class(k), format!("insert({:?}) failed: {e}", Bytes(k.to_vec())));
                    self.resync_key(sut, k);
                }
            }
            None => self.resync_key(sut, k),
        }
        let len_class = if via_id { format!("{phase}:node_id_api") } else { phase.to_string() };
        self.check_len(sut, &len_class);
        self.sweep(sut, "");
    }

    fn do_remove(&mut self, sut: &mut dyn Sut, k: &[u8]) {
        let was_live = self.model.contains(k);
        let Some(r) = self.ctx.no_panic("remove", || sut.remove(k)) else {
            self.resync_key(sut, k);
            return;
        };
        let Some(r) = r else { return };
        self.any_remove_op = true;
        if self.ideal.remove(k) {
            self.removed_live.insert(k.to_vec());
        }
        match r {
            Ok(b) => {
                let class = if was_live { "live_key" } else { "absent_key" };
                if self.ctx.eq("remove", class, &b, &was_live) {
                    if was_live {
                        self.model.remove(k);
                    }
                } else {
                    self.resync_key(sut, k);
                }
            }
            Err(e) => {
                self.ctx.out.checks += 1;
                self.ctx.fail("remove", "err", key_class(k), format!("remove({:?}) failed: {e}", Bytes(k.to_vec())));
                self.resync_key(sut, k);
            }
        }
        self.check_len(sut, if was_live { "after_remove_live" } else { "after_remove_absent" });
        self.sweep(sut, "");
    }

    fn run(&mut self, sut: &mut dyn Sut, pool: &[Vec<u8>], ops: &[Op]) {
        self.check_len(sut, "initial");
        self.sweep(sut, "");
        for op in ops {
            if self.ctx.saturated() {
                return;
            }
            match op {
                Op::Ins(q) => {
                    let k = self.resolve(pool, q);
                    self.do_insert(sut, &k, false);
                }
                Op::InsId(q) => {
                    let k = self.resolve(pool, q);
                    self.do_insert(sut, &k, true);
                }
                Op::Rem(q) => {
                    let k = self.resolve(pool, q);
                    self.do_remove(sut, &k);
                }
                Op::Has(q) => {
                    let k = self.resolve(pool, q);
                    self.sweep(sut, "");
                    let _ = k;
                }
                Op::Len => self.check_len(sut, "query"),
                Op::Keys => self.check_keys(sut),
                Op::Kwp(q) => {
                    let p = self.resolve(pool, q);
                    self.check_kwp(sut, &p);
                }
                Op::Acc(q) => {
                    let k = self.resolve(pool, q);
                    self.check_accepts(sut, &k);
                }
                Op::Lp(q, suf) => {
                    let mut k = self.resolve(pool, q);
                    k.extend_from_slice(&suf.0);
                    self.check_longest_prefix(sut, &k);
                }
                Op::Dup => {
                    // the copy must be the same set; the history continues on the original
                    if let Some(Some(c)) = self.ctx.no_panic("clone", || sut.dup()) {
                        let uni: Vec<Vec<u8>> = self.universe.iter().cloned().collect();
                        for k in uni {
                            if let Some(got) = self.ctx.no_panic("clone", || c.contains(&k)) {
                                let want = self.model.contains(&k);
                                self.ctx.eq("clone", &format!("contains:{}", if want { "missing" } else { "phantom" }), &got, &want);
                            }
                        }
                        if let Some(l) = self.ctx.no_panic("clone", || c.len()) {
                            self.ctx.eq("clone", "len", &(l as i64), &(self.model.len() as i64 + self.len_delta));
                        }
                        let _ = self.ctx.no_panic("clone", move || drop(c));
                    }
                }
            }
        }
        // final checkpoint
        self.check_keys(sut);
        let mut prefixes: BTreeSet<Vec<u8>> = BTreeSet::new();
        prefixes.insert(vec![]);
        prefixes.insert(vec![0x7F]);
        for k in self.universe.iter() {
            if prefixes.len() >= 10 {
                break;
            }
            if !k.is_empty() {
                prefixes.insert(k[..1].to_vec());
            }
            if k.len() >= 3 {
                prefixes.insert(k[..k.len() - 1].to_vec());
            }
        }
        for p in prefixes {
            if self.ctx.saturated() {
                return;
            }
            self.check_kwp(sut, &p);
        }
        let uni: Vec<Vec<u8>> = self.universe.iter().cloned().collect();
        for k in uni {
            if self.ctx.saturated() {
                return;
            }
            self.check_accepts(sut, &k);
            self.check_longest_prefix(sut, &k);
            let mut q = k.clone();
            q.push(b'a');
            q.push(0x00);
            self.check_longest_prefix(sut, &q);
        }
    }
}

// ---------------------------------------------------------------------------------------
// the property
// ---------------------------------------------------------------------------------------

impl Prop for P {
    fn id(&self) -> &'static str {
        "C05"
    }
    fn rule(&self) -> &'static str {
        "history = vec(op) over a per-case key pool (alphabet {00,01,'a','b',FE,FF} len 0-6, arbitrary-byte keys, the empty key, (k,k++suffix) pairs, long keys 30-300 bytes sharing 0-299-byte prefixes; queries also use prefixes of pool keys and pool key + 1 byte); cells whose remove is unimplemented get a remove-free mix for half of the cases; non-trivial = at some point >= 8 live keys AND a live key that is a proper prefix of another live key AND (a live key was removed and later re-inserted, or for remove-free histories an already-live key was inserted again, or for the query-only cell dawg_build >= 3 queries); distinct by hash of the case JSON"
    }
    fn assumptions(&self) -> Vec<String> {
        vec![
            "insert returning Err for a key longer than 255 bytes is counted as a refusal (LOUDS storage documents the limit in its error); the set must then be unchanged. Err for shorter keys is reported".into(),
            "enumerations (keys, keys_with_prefix, iter_all, iter_prefix) are compared as sets plus a no-duplicates check; order is not asserted".into(),
            "Trie::lookup(k).is_some() is treated as part of the automaton view (the trait documents Some iff the key exists); the returned StateId value, lookup_node_id/restore_string, stats() and transitions() are not asserted".into(),
            "clone() is checked as 'the copy is the same set' because ParallelLoudsTrie serves contains() from clones; it is reported under its own aspect".into(),
            "NestedTrieDawg::build_from_keys is given a duplicate-free key list (its doc says 'a set of keys')".into(),
            "CompressedSparseTrie tokens are taken from a VersionManager that outlives them; at level NoWriteReadOnly no writer token exists and the plain insert is used".into(),
        ]
    }
    fn cpu_budget_s(&self) -> u64 {
        60
    }
    fn plans(&self, tier: Tier) -> Vec<Plan> {
        let mut v = vec![];
        for c in CELLS {
            let quick = c.quick;
            let cases = tier.pick(quick, quick * 12);
            let cases_b = tier.pick(quick * c.b_permille / 1000, quick * 12 * c.b_permille / 2000);
            let heavy = c.kind == Kind::Par;
            let shape = Shape {
                short_n: tier.pick(10, 24),
                long_n: if heavy { 1 } else { tier.pick(4, 8) },
                long_max: if heavy { 40 } else { tier.pick(300, 1000) as u16 },
                ops_max: if heavy { tier.pick(30, 60) } else { tier.pick(120, 400) },
                init_max: match c.kind {
                    Kind::DawgBuild => tier.pick(24, 60),
                    Kind::DatBuilder | Kind::DawgBuilt | Kind::Nlt | Kind::Par => tier.pick(12, 40),
                    _ => 0,
                },
            };
            let mix = Mix {
                remove: c.remove,
                insert: c.kind != Kind::DawgBuild,
                ins_id: c.kind == Kind::ZtNodeId,
                dup: matches!(c.kind, Kind::Zt | Kind::ZtNodeId),
                enumerate: matches!(c.kind, Kind::Zt | Kind::ZtNodeId | Kind::Par),
                fsa: !matches!(c.kind, Kind::SimpleDawg | Kind::Par),
            };
            v.push(Plan::new(c.name, cases, cases_b, case(mix, shape)));
        }
        v
    }

    fn run(&self, case: &Value, ctx: &mut Ctx) {
        let c: Case = decode(case);
        let cell = ctx.cell.clone();
        let Some(cd) = CELLS.iter().find(|x| x.name == cell) else {
            ctx.skip(format!("unknown cell {cell}"));
            return;
        };
        let pool: Vec<Vec<u8>> = c.pool.iter().map(|k| k.bytes()).collect();
        let init: Vec<Vec<u8>> = if pool.is_empty() { vec![] } else { c.init.iter().map(|i| pool[idx(*i, pool.len())].clone()).collect() };
        let via_trait = c.variant & 1 == 1;
        let mut model: BTreeSet<Vec<u8>> = BTreeSet::new();

        // ---- construction -------------------------------------------------------------
        let built: Option<Box<dyn Sut>> = match cd.kind {
            Kind::Zt | Kind::ZtNodeId => {
                ctx.label(if via_trait { "api:trait" } else { "api:inherent" });
                let name = cd.name;
                ctx.no_panic("construct", move || zt_config(name).map(|cfg| Box::new(Zt { t: ZiporaTrie::with_config(cfg), via_trait }) as Box<dyn Sut>)).flatten()
            }
            Kind::Dat => {
                ctx.label(if via_trait { "api:trait" } else { "api:inherent" });
                let caps = [1usize, 2, 256, 1024];
                let v = c.variant;
                ctx.no_panic("construct", move || {
                    let t = if v & 2 == 0 {
                        DoubleArrayTrie::new()
                    } else {
                        DoubleArrayTrie::with_config(DoubleArrayTrieConfig { initial_capacity: caps[(v >> 2) as usize % 4], ..Default::default() })
                    };
                    Box::new(Dat { t, via_trait }) as Box<dyn Sut>
                })
            }
            Kind::DatBuilder => {
                let sorted = c.variant & 2 == 0;
                ctx.label(if sorted { "builder:sorted" } else { "builder:unsorted" });
                let mut keys = init.clone();
                if sorted {
                    keys.sort();
                }
                model.extend(init.iter().cloned());
                match ctx.no_panic("construct", move || if sorted { DoubleArrayTrieBuilder::new().build_from_sorted(keys) } else { DoubleArrayTrieBuilder::new().build_from_unsorted(keys) }) {
                    Some(Ok(t)) => Some(Box::new(Dat { t, via_trait }) as Box<dyn Sut>),
                    Some(Err(e)) => {
                        ctx.fail("construct", "err", "", format!("builder failed: {e}"));
                        None
                    }
                    None => None,
                }
            }
            Kind::Nlt => {
                let how = (c.variant >> 1) % 3;
                ctx.label(["ctor:new", "ctor:with_config", "ctor:builder"][how as usize]);
                let keys = if how == 2 { init.iter().filter(|k| k.len() <= 255).cloned().collect::<Vec<_>>() } else { vec![] };
                model.extend(keys.iter().cloned());
                let r = ctx.no_panic("construct", move || match how {
                    0 => NestedLoudsTrie::<RankSelectInterleaved256>::new(),
                    1 => NestedLoudsTrie::with_config(NestingConfig { max_levels: 2, ..Default::default() }),
                    _ => NestedLoudsTrie::<RankSelectInterleaved256>::builder().build_from_iter(keys),
                });
                match r {
                    Some(Ok(t)) => Some(Box::new(Nlt { t, via_trait }) as Box<dyn Sut>),
                    Some(Err(e)) => {
                        ctx.fail("construct", "err", "", format!("{e}"));
                        None
                    }
                    None => None,
                }
            }
            Kind::Cst => {
                let (lvl, lname) = level(c.variant);
                let tokens = c.variant & 2 == 0;
                ctx.label(format!("level:{lname}"));
                ctx.label(if tokens { "api:tokens" } else if via_trait { "api:trait" } else { "api:inherent" });
                let r = ctx.no_panic("construct", move || {
                    let t = CompressedSparseTrie::new(lvl)?;
                    let mgr = Box::new(VersionManager::new(lvl));
                    let (wt, rt) = if tokens { (mgr.acquire_writer_token().ok(), mgr.acquire_reader_token().ok()) } else { (None, None) };
                    Ok::<_, zipora::ZiporaError>(Cst { t, wt, rt, _mgr: mgr, via_trait })
                });
                match r {
                    Some(Ok(t)) => Some(Box::new(t) as Box<dyn Sut>),
                    Some(Err(e)) => {
                        ctx.fail("construct", "err", "", format!("{e}"));
                        None
                    }
                    None => None,
                }
            }
            Kind::DawgFresh => match ctx.no_panic("construct", NestedTrieDawg::new) {
                Some(Ok(t)) => Some(Box::new(Dawg { t, via_trait: true }) as Box<dyn Sut>),
                Some(Err(e)) => {
                    ctx.skip(format!("NestedTrieDawg::new failed: {e}"));
                    None
                }
                None => None,
            },
            Kind::DawgBuild | Kind::DawgBuilt => {
                let mut keys: Vec<Vec<u8>> = vec![];
                for k in &init {
                    if !keys.contains(k) {
                        keys.push(k.clone());
                    }
                }
                if c.variant & 2 == 0 {
                    keys.sort();
                }
                ctx.label(if keys.is_empty() { "build:empty" } else { "build:keys" });
                model.extend(keys.iter().cloned());
                let r = ctx.no_panic("construct", move || {
                    let mut t = NestedTrieDawg::new()?;
                    t.build_from_keys(keys)?;
                    Ok::<_, zipora::ZiporaError>(t)
                });
                match r {
                    Some(Ok(t)) => Some(Box::new(Dawg { t, via_trait: true }) as Box<dyn Sut>),
                    Some(Err(e)) => {
                        ctx.fail("construct", "err", "", format!("build_from_keys failed: {e}"));
                        None
                    }
                    None => None,
                }
            }
            Kind::SimpleDawg => ctx.no_panic("construct", || Box::new(Sd(SimpleDawg::new())) as Box<dyn Sut>),
            Kind::Par => {
                let rt = match tokio::runtime::Builder::new_current_thread().enable_all().build() {
                    Ok(rt) => rt,
                    Err(e) => {
                        ctx.skip(format!("no tokio runtime: {e}"));
                        return;
                    }
                };
                let how = (c.variant >> 1) % 3;
                ctx.label(["ctor:new", "ctor:builder_one_chunk", "ctor:builder_chunks_of_3"][how as usize]);
                let bulk = c.variant & 8 != 0;
                ctx.label(if bulk { "api:bulk_insert+parallel_contains" } else { "api:insert+contains" });
                if how != 0 {
                    model.extend(init.iter().cloned());
                }
                let keys = init.clone();
                let r = ctx.no_panic("construct", || match how {
                    0 => Ok(zipora::ParallelLoudsTrie::new()),
                    1 => rt.block_on(zipora::ParallelTrieBuilder::new().build_louds_trie(keys)),
                    _ => rt.block_on(zipora::ParallelTrieBuilder::new().chunk_size(3).build_louds_trie(keys)),
                });
                match r {
                    Some(Ok(t)) => Some(Box::new(Par { rt, t, bulk }) as Box<dyn Sut>),
                    Some(Err(e)) => {
                        ctx.fail("construct", "err", "", format!("{e}"));
                        None
                    }
                    None => None,
                }
            }
        };
        let Some(mut sut) = built else { return };

        // ---- labels -------------------------------------------------------------------
        if pool.iter().any(|k| k.is_empty()) {
            ctx.label("pool:has_empty_key");
        }
        if pool.iter().any(|k| k.len() >= 30) {
            ctx.label("pool:has_long_key");
        }
        if pool.iter().any(|k| k.len() > 255) {
            ctx.label("pool:has_key>255");
        }
        if pool.iter().any(|k| k.contains(&0)) {
            ctx.label("pool:has_nul_byte");
        }
        let has_rem = c.ops.iter().any(|o| matches!(o, Op::Rem(_)));
        ctx.label(if has_rem { "hist:with_remove" } else { "hist:remove_free" });
        ctx.label(format!(
            "ops:{}",
            match c.ops.len() {
                0..=12 => "0-12",
                13..=40 => "13-40",
                41..=90 => "41-90",
                _ => ">90",
            }
        ));

        // ---- drive --------------------------------------------------------------------
        let mut universe: BTreeSet<Vec<u8>> = pool.iter().cloned().collect();
        universe.insert(vec![]);
        let init_live = model.len();
        let mut d = Drive {
            ctx,
            model,
            universe,
            len_delta: 0,
            ideal: BTreeSet::new(),
            removed_live: BTreeSet::new(),
            nt_prefix_pair: false,
            nt_reinsert: false,
            nt_dup_insert: false,
            max_live: init_live,
            any_remove_op: false,
        };
        d.ideal = d.model.clone();
        if d.model.iter().any(|a| d.model.iter().any(|b| a != b && b.starts_with(a))) {
            d.nt_prefix_pair = true;
        }
        d.run(sut.as_mut(), &pool, &c.ops);
        let (pp, ri, di, ml, rem) = (d.nt_prefix_pair, d.nt_reinsert, d.nt_dup_insert, d.max_live, d.any_remove_op);
        if pp {
            ctx.label("nt:prefix_pair");
        }
        if ri {
            ctx.label("nt:remove_then_reinsert");
        }
        if di {
            ctx.label("nt:duplicate_insert");
        }
        if ml >= 8 {
            ctx.label("nt:live>=8");
        }
        let query_only = cd.kind == Kind::DawgBuild;
        let third = if query_only { c.ops.len() >= 3 } else if has_rem && rem { ri } else { di };
        if pp && ml >= 8 && third {
            ctx.nontrivial();
        }
        let _ = ctx.no_panic("drop", move || drop(sut));
    }
}
