//! C06 — hash maps behave as maps for every operation history and hasher.
//!
//! One generic history interpreter (`drive`) runs a generated sequence of map operations
//! against an adaptor (`Sut`) of each zipora map type and against two `std::collections::HashMap`
//! models: `pure` (the mathematical map defined by the history; never touched by the
//! implementation's answers; used for input classification and the non-triviality rule) and
//! `model` (same, but resynchronised to the implementation after a discrepancy so that one
//! defect does not hide everything behind it).
//!
//! The adversarial hasher: keys are `HKey { id, h }` — equality is on `id`, `Hash::hash` writes
//! only `h` — and `AdvBuild` builds a `Hasher` whose `finish()` returns the last `u64` written,
//! i.e. the hash of a key is *exactly* the table value `h` chosen by the case (0, u64::MAX, 1,
//! 2^63, one constant for all keys, k*capacity, identity, well mixed).  Map types with a fixed
//! internal hash function (GoldHashMap, GoldHashIdx, the RandomState-based wrappers) get the same
//! keys: keys with equal `h` then collide fully under *any* hash function, which makes collision
//! chains deterministic even where the library draws a random hasher seed.

use crate::engine::{decode, try_call, Ctx, Plan, Prop, Tier};
use crate::gen::idx;
use proptest::prelude::*;
use serde::{Deserialize, Serialize};
use serde_json::Value;
use std::collections::{HashMap, HashSet};
use std::hash::{BuildHasher, Hash, Hasher};
use zipora::hash_map::{GoldHashMap, GoldHashMapConfig, LinkType, ZiporaHashMap, ZiporaHashMapConfig};
use zipora::string::FastStr;
use zipora::{EasyHashMap, GoldHashIdx, HashStrMap, SecureMemoryPool, SecurePoolConfig, SmallMap};

pub struct P;

// ---------------------------------------------------------------------------------------
// case
// ---------------------------------------------------------------------------------------

#[derive(Clone, Debug, Serialize, Deserialize)]
pub enum Op {
    /// insert(key, value-salt)
    Ins(u16, u16),
    Rem(u16),
    Get(u16),
    /// get_mut(key) then write a new value through the reference
    Mut(u16, u16),
    Has(u16),
    Len,
    Iter,
    /// clear (variant selector: HashStrMap odd = clear_all)
    Clear(u8),
    /// insert `count` consecutive keys starting at key
    Fill(u16, u8, u16),
    /// remove `count` consecutive keys starting at key
    Drain(u16, u8),
    Reserve(u16),
    /// shrink_to_fit / revoke_deleted
    Shrink,
    /// clone, mutate the clone, drop it: the original must be untouched
    CloneDiverge,
    /// EasyHashMap::get_or_insert / get_or_insert_with (flag), optionally write through the reference
    GetOrIns(u16, u16, bool, bool),
    /// EasyHashMap::retain(selector)
    Retain(u8),
    /// EasyHashMap::extend / GoldHashIdx::insert_batch
    Batch(Vec<(u16, u16)>),
    /// set_hash_caching / set_auto_grow / set_max_load_factor
    Toggle(u8),
    /// alternative insert entry point (insert_string, insert_fast_str)
    AltIns(u8, u16, u16),
    /// alternative lookup entry point (get_by_fast_str, get_fast, get_batch, get_or_default)
    AltGet(u8, u16),
}

#[derive(Clone, Copy, Debug, PartialEq, Eq, Serialize, Deserialize)]
pub enum HashMode {
    Mixed,
    Const,
    Bucket,
    Sentinel,
    Identity,
    Few,
}

#[derive(Clone, Debug, Serialize, Deserialize)]
pub struct Case {
    /// informational: how `h` was generated
    mode: HashMode,
    /// hash-table value per key; the key universe is 0..h.len()
    h: Vec<u64>,
    /// configuration selector (meaning depends on the cell; 0 = the plain preset)
    cfg: u8,
    ops: Vec<Op>,
}

// ---------------------------------------------------------------------------------------
// adversarial hasher and keys
// ---------------------------------------------------------------------------------------

/// `finish()` returns the last u64 written (the key's table value); byte input is folded with FNV
/// so that non-`HKey` input still hashes deterministically.
#[derive(Clone, Default)]
pub struct AdvBuild;
pub struct AdvHasher(u64);
impl BuildHasher for AdvBuild {
    type Hasher = AdvHasher;
    fn build_hasher(&self) -> AdvHasher {
        AdvHasher(0xcbf29ce484222325)
    }
}
impl Hasher for AdvHasher {
    fn write(&mut self, bytes: &[u8]) {
        for b in bytes {
            self.0 ^= *b as u64;
            self.0 = self.0.wrapping_mul(0x100000001b3);
        }
    }
    fn write_u64(&mut self, v: u64) {
        self.0 = v;
    }
    fn finish(&self) -> u64 {
        self.0
    }
}

#[derive(Clone, Debug)]
pub struct HKey {
    id: u32,
    h: u64,
}
impl PartialEq for HKey {
    fn eq(&self, o: &HKey) -> bool {
        self.id == o.id
    }
}
impl Eq for HKey {}
impl Hash for HKey {
    fn hash<H: Hasher>(&self, s: &mut H) {
        // equal ids always carry the same h (both come from the case's table), so k1 == k2 => hash equal
        s.write_u64(self.h);
    }
}

pub trait TestKey: Clone + Eq + Hash + std::fmt::Debug {
    fn make(id: usize, h: u64) -> Self;
}
impl TestKey for HKey {
    fn make(id: usize, h: u64) -> HKey {
        HKey { id: id as u32, h }
    }
}
impl TestKey for u8 {
    fn make(id: usize, _h: u64) -> u8 {
        // bijection on 0..256 with 0 and 255 among the first keys
        match id {
            0 => 0,
            1 => 255,
            83 => 37,
            _ => (id as u8).wrapping_mul(37),
        }
    }
}
impl TestKey for u32 {
    fn make(id: usize, _h: u64) -> u32 {
        match id {
            0 => 0,
            1 => u32::MAX,
            _ => (id as u32).wrapping_mul(0x9E37_79B1),
        }
    }
}
impl TestKey for u64 {
    fn make(id: usize, _h: u64) -> u64 {
        match id {
            0 => 0,
            1 => u64::MAX,
            _ => (id as u64).wrapping_mul(0x9E37_79B9_7F4A_7C15),
        }
    }
}
impl TestKey for String {
    fn make(id: usize, _h: u64) -> String {
        match id {
            0 => String::new(),
            1 => "a".to_string(),
            _ => match id % 4 {
                0 => format!("key_{id}"),
                1 => format!("\u{e9}{id}\u{fc}\u{4e2d}"),
                2 => format!("{id}:").repeat(1 + id % 7),
                _ => format!("{id}/{}", "x".repeat(id % 40)),
            },
        }
    }
}

// ---------------------------------------------------------------------------------------
// system under test: one adaptor per zipora map type
// ---------------------------------------------------------------------------------------

/// what `insert` reported
#[derive(Debug, PartialEq)]
pub enum Ins {
    Prev(Option<u64>),
    /// the API returns nothing (EasyHashMap::put)
    NoRet,
}

type R<T> = Result<T, String>;

pub trait Sut<K> {
    fn insert(&mut self, k: K, v: u64) -> R<Ins>;
    fn remove(&mut self, k: &K) -> R<Option<u64>>;
    fn get(&self, k: &K) -> Option<u64>;
    /// `None` = no get_mut in this API; `Some(old)` after writing `v` through the reference
    fn get_mut_set(&mut self, _k: &K, _v: u64) -> Option<Option<u64>> {
        None
    }
    fn contains(&self, k: &K) -> bool;
    fn len(&self) -> usize;
    fn is_empty(&self) -> bool;
    fn iter(&self) -> Option<Vec<(K, u64)>> {
        None
    }
    /// keys() / values() views where the API has them
    fn views(&self) -> Option<(Vec<K>, Vec<u64>)> {
        None
    }
    fn clear(&mut self, _variant: u8) -> bool {
        false
    }
    fn capacity(&self) -> Option<usize> {
        None
    }
    fn reserve(&mut self, _n: usize) -> Option<R<()>> {
        None
    }
    fn shrink(&mut self) -> Option<R<()>> {
        None
    }
    /// clone, report the clone's len, then overwrite every key in the clone and clear it
    fn clone_diverge(&self, _keys: &[K]) -> Option<usize> {
        None
    }
    /// returns the value found/inserted (before the optional write)
    fn get_or_insert(&mut self, _k: K, _v: u64, _with: bool, _write: Option<u64>) -> Option<R<u64>> {
        None
    }
    fn retain(&mut self, _keep: &dyn Fn(&K, u64) -> bool) -> bool {
        false
    }
    fn batch(&mut self, _items: Vec<(K, u64)>) -> Option<R<()>> {
        None
    }
    fn toggle(&mut self, _x: u8) -> bool {
        false
    }
    fn alt_insert(&mut self, _kind: u8, _k: K, _v: u64) -> Option<R<Ins>> {
        None
    }
    fn alt_get(&self, _kind: u8, _k: &K) -> Option<Option<u64>> {
        None
    }
    /// aspect name of the alternative lookup entry point
    fn alt_get_name(&self) -> &'static str {
        "alt_get"
    }
}

// --- ZiporaHashMap<HKey, u64, AdvBuild> -------------------------------------------------

struct ZhmSut(ZiporaHashMap<HKey, u64, AdvBuild>);
impl Sut<HKey> for ZhmSut {
    fn insert(&mut self, k: HKey, v: u64) -> R<Ins> {
        self.0.insert(k, v).map(Ins::Prev).map_err(|e| e.to_string())
    }
    fn remove(&mut self, k: &HKey) -> R<Option<u64>> {
        Ok(self.0.remove(k))
    }
    fn get(&self, k: &HKey) -> Option<u64> {
        self.0.get(k).copied()
    }
    fn get_mut_set(&mut self, k: &HKey, v: u64) -> Option<Option<u64>> {
        Some(self.0.get_mut(k).map(|r| std::mem::replace(r, v)))
    }
    fn contains(&self, k: &HKey) -> bool {
        self.0.contains_key(k)
    }
    fn len(&self) -> usize {
        self.0.len()
    }
    fn is_empty(&self) -> bool {
        self.0.is_empty()
    }
    fn iter(&self) -> Option<Vec<(HKey, u64)>> {
        Some(self.0.iter().map(|(k, v)| (k.clone(), *v)).collect())
    }
    fn clear(&mut self, _v: u8) -> bool {
        self.0.clear();
        true
    }
    fn capacity(&self) -> Option<usize> {
        Some(self.0.capacity())
    }
    fn clone_diverge(&self, keys: &[HKey]) -> Option<usize> {
        let mut c = self.0.clone();
        let n = c.len();
        for k in keys {
            let _ = c.insert(k.clone(), 0xDEAD_0000);
        }
        for k in keys.iter().step_by(2) {
            let _ = c.remove(k);
        }
        c.clear();
        Some(n)
    }
}

// --- GoldHashMap<HKey, u64, L> ----------------------------------------------------------

struct GoldSut<L: LinkType>(GoldHashMap<HKey, u64, L>);
impl<L: LinkType> Sut<HKey> for GoldSut<L> {
    fn insert(&mut self, k: HKey, v: u64) -> R<Ins> {
        self.0.insert(k, v).map(Ins::Prev).map_err(|e| e.to_string())
    }
    fn remove(&mut self, k: &HKey) -> R<Option<u64>> {
        self.0.remove(k).map_err(|e| e.to_string())
    }
    fn get(&self, k: &HKey) -> Option<u64> {
        self.0.get(k).copied()
    }
    fn get_mut_set(&mut self, k: &HKey, v: u64) -> Option<Option<u64>> {
        Some(self.0.get_mut(k).map(|r| std::mem::replace(r, v)))
    }
    fn contains(&self, k: &HKey) -> bool {
        self.0.contains_key(k)
    }
    fn len(&self) -> usize {
        self.0.len()
    }
    fn is_empty(&self) -> bool {
        self.0.is_empty()
    }
    fn iter(&self) -> Option<Vec<(HKey, u64)>> {
        Some(self.0.iter().map(|(k, v)| (k.clone(), *v)).collect())
    }
    fn clear(&mut self, _v: u8) -> bool {
        self.0.clear();
        true
    }
    fn capacity(&self) -> Option<usize> {
        Some(self.0.capacity())
    }
    fn reserve(&mut self, n: usize) -> Option<R<()>> {
        Some(self.0.reserve(n).map_err(|e| e.to_string()))
    }
    fn shrink(&mut self) -> Option<R<()>> {
        Some(self.0.revoke_deleted().map_err(|e| e.to_string()))
    }
    fn toggle(&mut self, x: u8) -> bool {
        self.0.set_hash_caching(x & 1 == 1);
        true
    }
}

// --- GoldHashIdx<HKey, u64> -------------------------------------------------------------

struct GoldIdxSut(GoldHashIdx<HKey, u64>);
impl Sut<HKey> for GoldIdxSut {
    fn insert(&mut self, k: HKey, v: u64) -> R<Ins> {
        self.0.insert(k, v).map(Ins::Prev).map_err(|e| e.to_string())
    }
    fn remove(&mut self, k: &HKey) -> R<Option<u64>> {
        Ok(self.0.remove(k))
    }
    fn get(&self, k: &HKey) -> Option<u64> {
        self.0.get(k).copied()
    }
    fn get_mut_set(&mut self, k: &HKey, v: u64) -> Option<Option<u64>> {
        Some(self.0.get_mut(k).map(|r| std::mem::replace(r, v)))
    }
    fn contains(&self, k: &HKey) -> bool {
        self.0.contains_key(k)
    }
    fn len(&self) -> usize {
        self.0.len()
    }
    fn is_empty(&self) -> bool {
        self.0.is_empty()
    }
    fn shrink(&mut self) -> Option<R<()>> {
        self.0.shrink_to_fit();
        Some(Ok(()))
    }
    fn batch(&mut self, items: Vec<(HKey, u64)>) -> Option<R<()>> {
        Some(self.0.insert_batch(items).map_err(|e| e.to_string()))
    }
    fn alt_get(&self, _kind: u8, k: &HKey) -> Option<Option<u64>> {
        let r = self.0.get_batch(std::slice::from_ref(k));
        Some(r.first().copied().flatten().copied())
    }
    fn alt_get_name(&self) -> &'static str {
        "get_batch"
    }
}

// --- SmallMap<K, V> ---------------------------------------------------------------------

/// value conversion so that one cell can use heap-allocated values (drop / MaybeUninit handling)
pub trait TestVal: Clone {
    fn from_u64(v: u64) -> Self;
    fn to_u64(&self) -> u64;
}
impl TestVal for u64 {
    fn from_u64(v: u64) -> u64 {
        v
    }
    fn to_u64(&self) -> u64 {
        *self
    }
}
impl TestVal for String {
    fn from_u64(v: u64) -> String {
        format!("value-{v}")
    }
    fn to_u64(&self) -> u64 {
        self.strip_prefix("value-").and_then(|s| s.parse().ok()).unwrap_or(u64::MAX)
    }
}

struct SmallSut<K: TestKey + 'static, V: TestVal> {
    m: SmallMap<K, V>,
    fast: Option<fn(&SmallMap<K, V>, &K) -> Option<u64>>,
}
impl<K: TestKey + 'static, V: TestVal> Sut<K> for SmallSut<K, V> {
    fn insert(&mut self, k: K, v: u64) -> R<Ins> {
        self.m.insert(k, V::from_u64(v)).map(|p| Ins::Prev(p.map(|x| x.to_u64()))).map_err(|e| e.to_string())
    }
    fn remove(&mut self, k: &K) -> R<Option<u64>> {
        Ok(self.m.remove(k).map(|x| x.to_u64()))
    }
    fn get(&self, k: &K) -> Option<u64> {
        self.m.get(k).map(|x| x.to_u64())
    }
    fn get_mut_set(&mut self, k: &K, v: u64) -> Option<Option<u64>> {
        Some(self.m.get_mut(k).map(|r| std::mem::replace(r, V::from_u64(v)).to_u64()))
    }
    fn contains(&self, k: &K) -> bool {
        self.m.contains_key(k)
    }
    fn len(&self) -> usize {
        self.m.len()
    }
    fn is_empty(&self) -> bool {
        self.m.is_empty()
    }
    fn iter(&self) -> Option<Vec<(K, u64)>> {
        Some(self.m.iter().map(|(k, v)| (k.clone(), v.to_u64())).collect())
    }
    fn clear(&mut self, _v: u8) -> bool {
        self.m.clear();
        true
    }
    fn capacity(&self) -> Option<usize> {
        Some(self.m.capacity())
    }
    fn clone_diverge(&self, keys: &[K]) -> Option<usize> {
        let mut c = self.m.clone();
        let n = c.len();
        for k in keys {
            let _ = c.insert(k.clone(), V::from_u64(0xDEAD_0000));
        }
        for k in keys.iter().step_by(2) {
            let _ = c.remove(k);
        }
        c.clear();
        Some(n)
    }
    fn alt_get(&self, _kind: u8, k: &K) -> Option<Option<u64>> {
        self.fast.map(|f| f(&self.m, k))
    }
    fn alt_get_name(&self) -> &'static str {
        "get_fast"
    }
}

// --- EasyHashMap<HKey, u64> -------------------------------------------------------------

struct EasySut {
    m: EasyHashMap<HKey, u64>,
    has_default: Option<u64>,
}
impl Sut<HKey> for EasySut {
    fn insert(&mut self, k: HKey, v: u64) -> R<Ins> {
        self.m.put(k, v);
        Ok(Ins::NoRet)
    }
    fn remove(&mut self, k: &HKey) -> R<Option<u64>> {
        Ok(self.m.remove(k))
    }
    fn get(&self, k: &HKey) -> Option<u64> {
        self.m.get(k).copied()
    }
    fn contains(&self, k: &HKey) -> bool {
        self.m.contains_key(k)
    }
    fn len(&self) -> usize {
        self.m.len()
    }
    fn is_empty(&self) -> bool {
        self.m.is_empty()
    }
    fn clear(&mut self, _v: u8) -> bool {
        self.m.clear();
        true
    }
    fn capacity(&self) -> Option<usize> {
        Some(self.m.capacity())
    }
    fn reserve(&mut self, n: usize) -> Option<R<()>> {
        self.m.reserve(n);
        Some(self.m.try_reserve(n).map_err(|e| e.to_string()))
    }
    fn shrink(&mut self) -> Option<R<()>> {
        self.m.shrink_to_fit();
        Some(Ok(()))
    }
    fn get_or_insert(&mut self, k: HKey, v: u64, with: bool, write: Option<u64>) -> Option<R<u64>> {
        let r = if with { self.m.get_or_insert_with(k, || v) } else { self.m.get_or_insert(k, v) };
        Some(match r {
            Ok(slot) => {
                let seen = *slot;
                if let Some(w) = write {
                    *slot = w;
                }
                Ok(seen)
            }
            Err(e) => Err(e.to_string()),
        })
    }
    fn retain(&mut self, keep: &dyn Fn(&HKey, u64) -> bool) -> bool {
        self.m.retain(|k, v| keep(k, *v));
        true
    }
    fn batch(&mut self, items: Vec<(HKey, u64)>) -> Option<R<()>> {
        self.m.extend(items);
        Some(Ok(()))
    }
    fn toggle(&mut self, x: u8) -> bool {
        if x & 1 == 0 {
            self.m.set_auto_grow(x & 2 != 0);
        } else {
            self.m.set_max_load_factor([0.05, 0.3, 0.75, 0.99][(x as usize >> 1) % 4]);
        }
        true
    }
    fn alt_get(&self, _kind: u8, k: &HKey) -> Option<Option<u64>> {
        // get_or_default: only defined when a default was configured
        let d = self.has_default?;
        let v = *self.m.get_or_default(k);
        // report "absent" when the default came back and the plain lookup agrees the key is absent
        Some(if v == d && self.m.get(k).is_none() { None } else { Some(v) })
    }
    fn alt_get_name(&self) -> &'static str {
        "get_or_default"
    }
}

// --- HashStrMap<u64> --------------------------------------------------------------------

struct StrSut(HashStrMap<u64>);
impl Sut<String> for StrSut {
    fn insert(&mut self, k: String, v: u64) -> R<Ins> {
        self.0.insert(&k, v).map(Ins::Prev).map_err(|e| e.to_string())
    }
    fn remove(&mut self, k: &String) -> R<Option<u64>> {
        Ok(self.0.remove(k))
    }
    fn get(&self, k: &String) -> Option<u64> {
        self.0.get(k).copied()
    }
    fn get_mut_set(&mut self, k: &String, v: u64) -> Option<Option<u64>> {
        Some(self.0.get_mut(k).map(|r| std::mem::replace(r, v)))
    }
    fn contains(&self, k: &String) -> bool {
        let a = self.0.contains_key(k);
        a
    }
    fn len(&self) -> usize {
        self.0.len()
    }
    fn is_empty(&self) -> bool {
        self.0.is_empty()
    }
    fn iter(&self) -> Option<Vec<(String, u64)>> {
        Some(self.0.iter().map(|(k, v)| (k.clone(), *v)).collect())
    }
    fn views(&self) -> Option<(Vec<String>, Vec<u64>)> {
        Some((self.0.keys().cloned().collect(), self.0.values().copied().collect()))
    }
    fn clear(&mut self, v: u8) -> bool {
        if v & 1 == 1 {
            self.0.clear_all();
        } else {
            self.0.clear();
        }
        true
    }
    fn shrink(&mut self) -> Option<R<()>> {
        self.0.shrink_to_fit();
        Some(Ok(()))
    }
    fn alt_insert(&mut self, kind: u8, k: String, v: u64) -> Option<R<Ins>> {
        let r = if kind & 1 == 0 { self.0.insert_string(k, v) } else { self.0.insert_fast_str(FastStr::from_string(&k), v) };
        Some(r.map(Ins::Prev).map_err(|e| e.to_string()))
    }
    fn alt_get(&self, _kind: u8, k: &String) -> Option<Option<u64>> {
        Some(self.0.get_by_fast_str(&FastStr::from_string(k)).copied())
    }
    fn alt_get_name(&self) -> &'static str {
        "get_by_fast_str"
    }
}

// ---------------------------------------------------------------------------------------
// the history interpreter
// ---------------------------------------------------------------------------------------

struct Drv<'a, K: TestKey> {
    keys: Vec<K>,
    rev: HashMap<K, usize>,
    h: &'a [u64],
    /// does the map hash with the case's table (sentinel classes are meaningful)?
    hasher_cell: bool,
    /// resynchronised model (expected answers)
    model: HashMap<usize, u64>,
    /// the mathematical map of the history (never resynchronised)
    pure: HashMap<usize, u64>,
    // input-class flags (reset by clear)
    tomb: bool,
    upd_tomb: bool,
    seen0: bool,
    seenmax: bool,
    cleared: bool,
    /// capacity() changed, or a shrink/compaction ran, at some point since creation / the last clear
    resized: bool,
    /// a retain() ran since creation / the last clear
    retained: bool,
    // non-triviality features
    removed_live: HashSet<usize>,
    f_reinsert: bool,
    f_iter_after_remove: bool,
    f_rehash: bool,
    f_sentinel: bool,
    f_upd_tomb: bool,
    last_cap: Option<usize>,
    have_cap: bool,
    refused: u32,
}

impl<'a, K: TestKey> Drv<'a, K> {
    fn class(&self, key: Option<usize>) -> String {
        let mut p: Vec<&str> = vec![];
        if self.hasher_cell {
            // a key with a sentinel hash was inserted since the last clear (it may have damaged the
            // probe chain of innocent keys), or this operation addresses such a key
            let (z, x) = match key {
                Some(k) => (self.seen0 || self.h[k] == 0, self.seenmax || self.h[k] == u64::MAX),
                None => (self.seen0, self.seenmax),
            };
            if z {
                p.push("h0");
            }
            if x {
                p.push("hmax");
            }
        }
        if self.upd_tomb {
            p.push("upd_tomb");
        } else if self.tomb {
            p.push("tomb");
        }
        if self.resized {
            p.push("resized");
        }
        if self.retained {
            p.push("retain");
        }
        if self.cleared {
            p.push("cleared");
        }
        p.join("+")
    }

    fn note_key(&mut self, k: usize) {
        if self.hasher_cell && (self.h[k] == 0 || self.h[k] == u64::MAX) {
            self.f_sentinel = true;
        }
    }

    fn observe_cap<M: Sut<K>>(&mut self, m: &M) {
        if let Ok(c) = try_call(|| m.capacity()) {
            if c != self.last_cap && self.have_cap {
                self.resized = true;
                if !self.pure.is_empty() {
                    self.f_rehash = true;
                }
            }
            self.last_cap = c;
            self.have_cap = true;
        }
    }

    /// set the model's entry for `k` to what the implementation answers now
    fn resync<M: Sut<K>>(&mut self, m: &M, k: usize) {
        match try_call(|| m.get(&self.keys[k])) {
            Ok(Some(v)) => {
                self.model.insert(k, v);
            }
            _ => {
                self.model.remove(&k);
            }
        }
    }
    fn resync_all<M: Sut<K>>(&mut self, m: &M) {
        for k in 0..self.keys.len() {
            self.resync(m, k);
        }
    }

    fn check_len<M: Sut<K>>(&mut self, ctx: &mut Ctx, m: &M) {
        let cls = self.class(None);
        if let Some(n) = ctx.no_panic("len", || m.len()) {
            ctx.eq("len", &cls, &n, &self.model.len());
        }
    }

    fn check_get<M: Sut<K>>(&mut self, ctx: &mut Ctx, m: &M, k: usize) {
        let cls = self.class(Some(k));
        let want = self.model.get(&k).copied();
        match ctx.no_panic("get", || m.get(&self.keys[k])) {
            Some(got) => {
                if !ctx.eq("get", &cls, &got, &want) {
                    self.resync(m, k);
                }
            }
            None => {}
        }
    }

    fn do_insert<M: Sut<K>>(&mut self, ctx: &mut Ctx, m: &mut M, k: usize, v: u64, alt: Option<u8>) {
        self.note_key(k);
        // input class of this very operation: updating a live key while tombstones exist
        if self.pure.contains_key(&k) && self.tomb {
            self.upd_tomb = true;
            self.f_upd_tomb = true;
        }
        if self.removed_live.contains(&k) && !self.pure.contains_key(&k) {
            self.f_reinsert = true;
        }
        if self.hasher_cell {
            self.seen0 |= self.h[k] == 0;
            self.seenmax |= self.h[k] == u64::MAX;
        }
        let cls = self.class(Some(k));
        let want_prev = self.model.get(&k).copied();
        let key = self.keys[k].clone();
        let aspect = if alt.is_some() { "alt_insert_ret" } else { "insert_ret" };
        let res = match alt {
            None => ctx.no_panic(aspect, || Some(m.insert(key, v))),
            Some(kind) => ctx.no_panic(aspect, || m.alt_insert(kind, key, v)),
        };
        self.pure.insert(k, v);
        match res {
            None => self.resync_all(m),
            Some(None) => {
                // entry point not available: undo
                unreachable_entry(ctx);
            }
            Some(Some(Err(_))) => {
                // refused: allowed, but the map must then be unchanged for this key or hold the new value
                self.refused += 1;
                ctx.label("insert_refused");
                self.resync(m, k);
            }
            Some(Some(Ok(Ins::NoRet))) => {
                self.model.insert(k, v);
            }
            Some(Some(Ok(Ins::Prev(p)))) => {
                self.model.insert(k, v);
                ctx.eq(aspect, &cls, &p, &want_prev);
            }
        }
        self.observe_cap(m);
        // post-condition: get(k) is the value just inserted; len is the number of live keys
        self.check_get(ctx, m, k);
        self.check_len(ctx, m);
    }

    fn do_remove<M: Sut<K>>(&mut self, ctx: &mut Ctx, m: &mut M, k: usize) {
        self.note_key(k);
        let cls = self.class(Some(k));
        let want = self.model.remove(&k);
        let got = ctx.no_panic("remove_ret", || m.remove(&self.keys[k]));
        if self.pure.remove(&k).is_some() {
            self.tomb = true;
            self.removed_live.insert(k);
        }
        match got {
            None => self.resync_all(m),
            Some(Err(_)) => {
                ctx.label("remove_refused");
                self.resync(m, k);
            }
            Some(Ok(g)) => {
                ctx.eq("remove_ret", &cls, &g, &want);
            }
        }
        self.observe_cap(m);
        self.check_get(ctx, m, k);
        self.check_len(ctx, m);
    }

    fn check_iter<M: Sut<K>>(&mut self, ctx: &mut Ctx, m: &M) {
        let cls = self.class(None);
        let Some(it) = ctx.no_panic("iter", || m.iter()) else { return };
        let mut want: Vec<(usize, u64)> = self.model.iter().map(|(k, v)| (*k, *v)).collect();
        want.sort();
        if let Some(items) = it {
            if !self.removed_live.is_empty() {
                self.f_iter_after_remove = true;
            }
            let mut got: Vec<(usize, u64)> = items.iter().map(|(k, v)| (self.rev.get(k).copied().unwrap_or(usize::MAX), *v)).collect();
            got.sort();
            if got != want {
                let extra: Vec<_> = got.iter().filter(|e| !want.contains(e)).take(6).collect();
                let missing: Vec<_> = want.iter().filter(|e| !got.contains(e)).take(6).collect();
                let mut dup = vec![];
                for w in got.windows(2) {
                    if w[0].0 == w[1].0 {
                        dup.push(w[0].0);
                    }
                }
                dup.truncate(6);
                ctx.out.checks += 1;
                ctx.fail("iter", "mismatch", &cls, format!("iteration yielded {} entries, {} live; extra (key,value) {:?}; missing {:?}; keys yielded more than once {:?}", got.len(), want.len(), extra, missing, dup));
            } else {
                ctx.out.checks += 1;
            }
        }
        if let Some(Some((ks, vs))) = ctx.no_panic("iter", || m.views()) {
            let mut gk: Vec<usize> = ks.iter().map(|k| self.rev.get(k).copied().unwrap_or(usize::MAX)).collect();
            gk.sort();
            let wk: Vec<usize> = want.iter().map(|e| e.0).collect();
            ctx.eq("iter", &format!("keys{}{}", if cls.is_empty() { "" } else { "+" }, cls), &gk, &wk);
            let mut gv = vs;
            gv.sort();
            let mut wv: Vec<u64> = want.iter().map(|e| e.1).collect();
            wv.sort();
            ctx.eq("iter", &format!("values{}{}", if cls.is_empty() { "" } else { "+" }, cls), &gv, &wv);
        }
    }

    /// everything the statement says about the current state: every key of the universe, len, iteration
    fn sweep<M: Sut<K>>(&mut self, ctx: &mut Ctx, m: &M) {
        for k in 0..self.keys.len() {
            if ctx.saturated() {
                return;
            }
            self.check_get(ctx, m, k);
            let cls = self.class(Some(k));
            if let Some(c) = ctx.no_panic("contains_key", || m.contains(&self.keys[k])) {
                ctx.eq("contains_key", &cls, &c, &self.model.contains_key(&k));
            }
        }
        self.check_len(ctx, m);
        self.check_iter(ctx, m);
    }
}

fn unreachable_entry(ctx: &mut Ctx) {
    ctx.label("op_unsupported");
}

fn value(i: usize, salt: u16) -> u64 {
    // unique per operation so that a stale value is always visible
    ((i as u64 + 1) << 16) | salt as u64
}

fn drive<K: TestKey, M: Sut<K>>(ctx: &mut Ctx, m: &mut M, c: &Case, hasher_cell: bool) {
    let n = c.h.len().max(1);
    let h: Vec<u64> = if c.h.is_empty() { vec![1] } else { c.h.clone() };
    let keys: Vec<K> = (0..n).map(|i| K::make(i, h[i])).collect();
    let rev: HashMap<K, usize> = keys.iter().cloned().enumerate().map(|(i, k)| (k, i)).collect();
    if rev.len() != n {
        ctx.skip("key universe not injective");
        return;
    }
    let mut d = Drv {
        keys,
        rev,
        h: &h,
        hasher_cell,
        model: HashMap::new(),
        pure: HashMap::new(),
        tomb: false,
        upd_tomb: false,
        seen0: false,
        seenmax: false,
        cleared: false,
        resized: false,
        retained: false,
        have_cap: false,
        removed_live: HashSet::new(),
        f_reinsert: false,
        f_iter_after_remove: false,
        f_rehash: false,
        f_sentinel: false,
        f_upd_tomb: false,
        last_cap: None,
        refused: 0,
    };
    ctx.label(format!("hash:{:?}", c.mode));
    ctx.label(match n {
        0..=8 => "universe:1-8",
        9..=40 => "universe:9-40",
        _ => "universe:41+",
    });
    d.observe_cap(m);
    // a fresh map is empty
    d.check_len(ctx, m);

    for (i, op) in c.ops.iter().enumerate() {
        if ctx.saturated() {
            break;
        }
        match op {
            Op::Ins(k, s) => {
                let k = idx(*k, n);
                d.do_insert(ctx, m, k, value(i, *s), None);
            }
            Op::AltIns(kind, k, s) => {
                let k = idx(*k, n);
                d.do_insert(ctx, m, k, value(i, *s), Some(*kind));
            }
            Op::Fill(k, cnt, s) => {
                let k0 = idx(*k, n);
                for j in 0..(*cnt as usize).min(n) {
                    d.do_insert(ctx, m, (k0 + j) % n, value(i, s.wrapping_add(j as u16)), None);
                }
            }
            Op::Rem(k) => {
                let k = idx(*k, n);
                d.do_remove(ctx, m, k);
            }
            Op::Drain(k, cnt) => {
                let k0 = idx(*k, n);
                for j in 0..(*cnt as usize).min(n) {
                    d.do_remove(ctx, m, (k0 + j) % n);
                }
            }
            Op::Get(k) => {
                let k = idx(*k, n);
                d.note_key(k);
                d.check_get(ctx, m, k);
            }
            Op::AltGet(kind, k) => {
                let k = idx(*k, n);
                d.note_key(k);
                let cls = d.class(Some(k));
                let name = m.alt_get_name();
                if let Some(Some(got)) = ctx.no_panic(name, || m.alt_get(*kind, &d.keys[k])) {
                    ctx.eq(name, &cls, &got, &d.model.get(&k).copied());
                }
            }
            Op::Has(k) => {
                let k = idx(*k, n);
                d.note_key(k);
                let cls = d.class(Some(k));
                if let Some(got) = ctx.no_panic("contains_key", || m.contains(&d.keys[k])) {
                    ctx.eq("contains_key", &cls, &got, &d.model.contains_key(&k));
                }
            }
            Op::Mut(k, s) => {
                let k = idx(*k, n);
                d.note_key(k);
                let cls = d.class(Some(k));
                let v = value(i, *s);
                let want = d.model.get(&k).copied();
                match ctx.no_panic("get_mut", || m.get_mut_set(&d.keys[k], v)) {
                    None => d.resync_all(m),
                    Some(None) => unreachable_entry(ctx),
                    Some(Some(got)) => {
                        if d.pure.contains_key(&k) {
                            d.pure.insert(k, v);
                        }
                        if want.is_some() {
                            d.model.insert(k, v);
                        }
                        let ok = ctx.eq("get_mut", &cls, &got, &want);
                        if !ok {
                            d.resync(m, k);
                        }
                        // the write through the reference is what get returns afterwards
                        d.check_get(ctx, m, k);
                        d.check_len(ctx, m);
                    }
                }
            }
            Op::Len => {
                d.check_len(ctx, m);
                let cls = d.class(None);
                if let Some(e) = ctx.no_panic("len", || m.is_empty()) {
                    ctx.eq("is_empty", &cls, &e, &d.model.is_empty());
                }
            }
            Op::Iter => d.check_iter(ctx, m),
            Op::Clear(variant) => {
                let done = ctx.no_panic("clear", || m.clear(*variant));
                if done == Some(true) || done.is_none() {
                    d.model.clear();
                    d.pure.clear();
                    d.tomb = false;
                    d.upd_tomb = false;
                    d.seen0 = false;
                    d.seenmax = false;
                    d.cleared = true;
                    d.observe_cap(m);
                    d.resized = false;
                    d.retained = false;
                    if done.is_none() {
                        d.resync_all(m);
                    }
                    // after clear everything is absent
                    d.sweep(ctx, m);
                }
            }
            Op::Reserve(x) => {
                let x = *x as usize % 600;
                match ctx.no_panic("reserve", || m.reserve(x)) {
                    Some(Some(Err(_))) => ctx.label("reserve_refused"),
                    None => d.resync_all(m),
                    _ => {}
                }
                d.observe_cap(m);
                d.check_len(ctx, m);
            }
            Op::Shrink => {
                // a shrink / compaction may rebuild the table even when capacity() ends up unchanged
                d.resized = true;
                match ctx.no_panic("shrink", || m.shrink()) {
                    Some(Some(Err(_))) => ctx.label("shrink_refused"),
                    None => d.resync_all(m),
                    _ => {}
                }
                d.observe_cap(m);
                d.sweep(ctx, m);
            }
            Op::Toggle(x) => {
                if ctx.no_panic("toggle", || m.toggle(*x)).is_none() {
                    d.resync_all(m);
                }
                d.check_len(ctx, m);
            }
            Op::CloneDiverge => {
                // Clone is not among the operations of the statement: the content of the clone is only
                // labelled; what is asserted is that the original still answers like the model afterwards.
                match try_call(|| m.clone_diverge(&d.keys)) {
                    Ok(Some(clen)) => {
                        ctx.label(if clen == d.model.len() { "clone:len_equal" } else { "clone:len_differs(not asserted)" });
                        d.sweep(ctx, m);
                    }
                    Ok(None) => unreachable_entry(ctx),
                    Err(_) => {
                        ctx.label("clone:panicked(not asserted)");
                        d.sweep(ctx, m);
                    }
                }
            }
            Op::GetOrIns(k, s, with, write) => {
                let k = idx(*k, n);
                d.note_key(k);
                let v = value(i, *s);
                let w = if *write { Some(v ^ 0x8000) } else { None };
                if d.pure.contains_key(&k) && d.tomb {
                    // counts as touching a live key with tombstones present only when it inserts; it does not here
                }
                if d.removed_live.contains(&k) && !d.pure.contains_key(&k) {
                    d.f_reinsert = true;
                }
                if d.hasher_cell {
                    d.seen0 |= d.h[k] == 0;
                    d.seenmax |= d.h[k] == u64::MAX;
                }
                let cls = d.class(Some(k));
                let want = d.model.get(&k).copied().unwrap_or(v);
                let key = d.keys[k].clone();
                let pv = d.pure.get(&k).copied().unwrap_or(v);
                d.pure.insert(k, w.unwrap_or(pv));
                match ctx.no_panic("get_or_insert", || m.get_or_insert(key, v, *with, w)) {
                    None => d.resync_all(m),
                    Some(None) => unreachable_entry(ctx),
                    Some(Some(Err(_))) => {
                        ctx.label("get_or_insert_refused");
                        d.resync(m, k);
                    }
                    Some(Some(Ok(got))) => {
                        d.model.insert(k, w.unwrap_or(want));
                        ctx.eq("get_or_insert", &cls, &got, &want);
                        d.observe_cap(m);
                        d.check_get(ctx, m, k);
                        d.check_len(ctx, m);
                    }
                }
            }
            Op::Retain(sel) => {
                let sel = *sel as usize;
                let rev = d.rev.clone();
                let keep = move |k: &K, v: u64| -> bool {
                    let id = rev.get(k).copied().unwrap_or(0);
                    match sel % 4 {
                        0 => (id + sel / 4) % 3 != 0,
                        1 => v & 1 == 0,
                        2 => true,
                        _ => false,
                    }
                };
                match ctx.no_panic("retain", || m.retain(&keep)) {
                    None => d.resync_all(m),
                    Some(false) => unreachable_entry(ctx),
                    Some(true) => {
                        d.retained = true;
                        let ks = d.keys.clone();
                        let before = d.pure.len();
                        d.pure.retain(|k, v| keep(&ks[*k], *v));
                        if d.pure.len() < before {
                            d.tomb = true;
                            let gone: Vec<usize> = d.model.keys().filter(|k| !d.pure.contains_key(k)).copied().collect();
                            for g in gone {
                                d.removed_live.insert(g);
                            }
                        }
                        d.model.retain(|k, v| keep(&ks[*k], *v));
                        d.sweep(ctx, m);
                    }
                }
            }
            Op::Batch(items) => {
                let its: Vec<(usize, u64)> = items.iter().enumerate().map(|(j, (k, s))| (idx(*k, n), value(i, s.wrapping_add(j as u16)))).collect();
                for (k, _) in &its {
                    d.note_key(*k);
                    if d.pure.contains_key(k) && d.tomb {
                        d.upd_tomb = true;
                        d.f_upd_tomb = true;
                    }
                    if d.removed_live.contains(k) && !d.pure.contains_key(k) {
                        d.f_reinsert = true;
                    }
                }
                let arg: Vec<(K, u64)> = its.iter().map(|(k, v)| (d.keys[*k].clone(), *v)).collect();
                for (k, v) in &its {
                    d.pure.insert(*k, *v);
                }
                match ctx.no_panic("batch", || m.batch(arg)) {
                    None => d.resync_all(m),
                    Some(None) => unreachable_entry(ctx),
                    Some(Some(Err(_))) => {
                        ctx.label("batch_refused");
                        d.resync_all(m);
                    }
                    Some(Some(Ok(()))) => {
                        for (k, v) in &its {
                            d.model.insert(*k, *v);
                        }
                        d.observe_cap(m);
                        for (k, _) in &its {
                            d.check_get(ctx, m, *k);
                        }
                        d.check_len(ctx, m);
                    }
                }
            }
        }
    }
    if !ctx.saturated() {
        d.sweep(ctx, m);
    }
    for (f, l) in [
        (d.f_reinsert, "feat:reinsert_after_remove"),
        (d.f_iter_after_remove, "feat:iter_after_remove"),
        (d.f_rehash, "feat:capacity_changed"),
        (d.f_sentinel, "feat:key_with_hash_0_or_MAX"),
        (d.f_upd_tomb, "feat:update_while_tombstones"),
    ] {
        if f {
            ctx.label(l);
        }
    }
    if d.f_reinsert || d.f_rehash || d.f_sentinel {
        ctx.nontrivial();
    }
}

// ---------------------------------------------------------------------------------------
// generators
// ---------------------------------------------------------------------------------------

#[derive(Clone, Copy, PartialEq, Eq, Debug)]
enum Fam {
    Zhm,
    Gold,
    GoldIdx,
    Small,
    Easy,
    Str,
}

fn hash_table(max_keys: usize) -> BoxedStrategy<(HashMode, Vec<u64>)> {
    let n = prop_oneof![
        4 => 1usize..=6,
        4 => 4usize..=32.min(max_keys),
        2 => 20usize..=max_keys,
    ];
    n.prop_flat_map(|n| {
        let sentinel = prop_oneof![
            3 => Just(0u64),
            3 => Just(u64::MAX),
            1 => Just(1u64),
            1 => Just(1u64 << 63),
            1 => Just(u64::MAX - 1),
            1 => Just(16u64),
            2 => any::<u64>(),
            2 => 0u64..64,
        ];
        prop_oneof![
            3 => proptest::collection::vec(any::<u64>(), n).prop_map(|v| (HashMode::Mixed, v)),
            2 => prop_oneof![any::<u64>(), Just(1u64), Just(5u64), Just(16u64), Just(1u64 << 63), Just(0u64), Just(u64::MAX)]
                .prop_map(move |c| (HashMode::Const, vec![c; n])),
            2 => (proptest::sample::select(vec![16u64, 32, 64, 128, 5, 11, 23, 47, 97, 1741]), 0u64..2000)
                .prop_map(move |(cap, base)| (HashMode::Bucket, (0..n as u64).map(|k| (base % cap).wrapping_add(k.wrapping_mul(cap))).collect())),
            3 => proptest::collection::vec(sentinel, n).prop_map(|v| (HashMode::Sentinel, v)),
            2 => prop_oneof![Just(0u64), Just(1u64), Just(u64::MAX - 3), any::<u64>()]
                .prop_map(move |off| (HashMode::Identity, (0..n as u64).map(|k| off.wrapping_add(k)).collect())),
            1 => (proptest::collection::vec(0usize..3, n), any::<[u64; 3]>()).prop_map(|(sel, c)| (HashMode::Few, sel.into_iter().map(|s| c[s]).collect())),
        ]
    })
    .boxed()
}

fn op(fam: Fam) -> BoxedStrategy<Op> {
    let k = || any::<u16>();
    let mut v: Vec<(u32, BoxedStrategy<Op>)> = vec![
        (30, (k(), any::<u16>()).prop_map(|(a, b)| Op::Ins(a, b)).boxed()),
        (18, k().prop_map(Op::Rem).boxed()),
        (9, k().prop_map(Op::Get).boxed()),
        (4, k().prop_map(Op::Has).boxed()),
        (4, Just(Op::Len).boxed()),
        (5, (k(), 1u8..24, any::<u16>()).prop_map(|(a, c, s)| Op::Fill(a, c, s)).boxed()),
        (3, (k(), 1u8..16).prop_map(|(a, c)| Op::Drain(a, c)).boxed()),
    ];
    let mut add = |w: u32, s: BoxedStrategy<Op>| v.push((w, s));
    if fam != Fam::Easy {
        add(6, (k(), any::<u16>()).prop_map(|(a, b)| Op::Mut(a, b)).boxed());
    }
    if !matches!(fam, Fam::Easy | Fam::GoldIdx) {
        add(6, Just(Op::Iter).boxed());
    }
    if fam != Fam::GoldIdx {
        add(1, any::<u8>().prop_map(Op::Clear).boxed());
    }
    match fam {
        Fam::Zhm => {
            add(1, Just(Op::CloneDiverge).boxed());
        }
        Fam::Gold => {
            add(2, any::<u16>().prop_map(Op::Reserve).boxed());
            add(3, Just(Op::Shrink).boxed());
            add(2, any::<u8>().prop_map(Op::Toggle).boxed());
        }
        Fam::GoldIdx => {
            add(2, Just(Op::Shrink).boxed());
            add(3, proptest::collection::vec((k(), any::<u16>()), 0..12).prop_map(Op::Batch).boxed());
            add(3, k().prop_map(|a| Op::AltGet(0, a)).boxed());
        }
        Fam::Small => {
            add(1, Just(Op::CloneDiverge).boxed());
            add(3, k().prop_map(|a| Op::AltGet(0, a)).boxed());
        }
        Fam::Easy => {
            add(1, any::<u16>().prop_map(Op::Reserve).boxed());
            add(2, Just(Op::Shrink).boxed());
            add(2, any::<u8>().prop_map(Op::Toggle).boxed());
            add(8, (k(), any::<u16>(), any::<bool>(), any::<bool>()).prop_map(|(a, s, w, x)| Op::GetOrIns(a, s, w, x)).boxed());
            add(2, any::<u8>().prop_map(Op::Retain).boxed());
            add(3, proptest::collection::vec((k(), any::<u16>()), 0..12).prop_map(Op::Batch).boxed());
            add(3, k().prop_map(|a| Op::AltGet(0, a)).boxed());
        }
        Fam::Str => {
            add(2, Just(Op::Shrink).boxed());
            add(8, (0u8..2, k(), any::<u16>()).prop_map(|(t, a, s)| Op::AltIns(t, a, s)).boxed());
            add(4, k().prop_map(|a| Op::AltGet(0, a)).boxed());
        }
    }
    proptest::strategy::Union::new_weighted(v).boxed()
}

fn case(fam: Fam, max_keys: usize, max_ops: usize) -> BoxedStrategy<Case> {
    let len = prop_oneof![1 => 0usize..=6, 6 => 0usize..=max_ops, 2 => (max_ops / 2)..=max_ops];
    (hash_table(max_keys), prop_oneof![2 => Just(0u8), 1 => any::<u8>()], len.prop_flat_map(move |l| proptest::collection::vec(op(fam), l)))
        .prop_map(|((mode, h), cfg, ops)| Case { mode, h, cfg, ops })
        .boxed()
}

// ---------------------------------------------------------------------------------------
// cells
// ---------------------------------------------------------------------------------------

const ZHM_CELLS: &[&str] = &["zhm_default", "zhm_pool", "zhm_cache_optimized", "zhm_string_optimized", "zhm_small_inline_1", "zhm_small_inline_4", "zhm_small_inline_16"];
const GOLD_PRESETS: &[&str] = &["default", "small", "large", "high_churn"];
const SMALL_CELLS: &[&str] = &["small_map_u8", "small_map_u32", "small_map_u64", "small_map_string", "small_map_hkey"];

fn gold_cells() -> Vec<String> {
    let mut v = vec![];
    for p in GOLD_PRESETS {
        for l in ["u32", "u64"] {
            for hc in ["hc", "nohc"] {
                v.push(format!("gold_{p}_{l}_{hc}"));
            }
        }
    }
    v
}

fn gold_config(cell: &str, cfg: u8, ctx: &mut Ctx) -> GoldHashMapConfig {
    let mut c = if cell.starts_with("gold_small") {
        GoldHashMapConfig::small()
    } else if cell.starts_with("gold_large") {
        GoldHashMapConfig::large()
    } else if cell.starts_with("gold_high_churn") {
        GoldHashMapConfig::high_churn()
    } else {
        GoldHashMapConfig::default()
    };
    c.enable_hash_cache = cell.ends_with("_hc");
    if cfg != 0 {
        // public configuration fields varied around the preset (0 = the plain preset)
        if cfg & 1 != 0 {
            c.enable_freelist_reuse = false;
            ctx.label("gold:no_freelist_reuse");
        }
        let lf = [c.load_factor, 0.1, 0.25, 0.95, 0.999, 1.5, c.load_factor, c.load_factor][(cfg as usize >> 1) % 8];
        if lf != c.load_factor {
            ctx.label("gold:load_factor_varied");
        }
        c.load_factor = lf;
        if cfg & 16 != 0 {
            c.enable_auto_gc = !c.enable_auto_gc;
            ctx.label("gold:auto_gc_flipped");
        }
        if cfg & 32 != 0 {
            c.initial_capacity = [0, 5, 6, 12][(cfg as usize >> 6) % 4];
            ctx.label("gold:tiny_initial_capacity");
        }
    }
    c
}

fn run_small<K: TestKey + 'static, V: TestVal>(ctx: &mut Ctx, c: &Case, fast: Option<fn(&SmallMap<K, V>, &K) -> Option<u64>>) {
    let mut s = SmallSut::<K, V> { m: SmallMap::new(), fast };
    drive::<K, _>(ctx, &mut s, c, false);
}

fn u8_get_fast(m: &SmallMap<u8, u64>, k: &u8) -> Option<u64> {
    m.get_fast(k).copied()
}

impl Prop for P {
    fn id(&self) -> &'static str {
        "C06"
    }
    fn rule(&self) -> &'static str {
        "a case = key universe of 1..200 keys with a per-key hash value (modes: well mixed / one constant for all / k*capacity same bucket / per-key from {0,u64::MAX,1,2^63,..} / identity incl. 0 and wrap to MAX / three classes) + a history of up to 80 (quick) operations (insert, remove, get, get_mut+write, contains, len, iter, clear, fill/drain of consecutive keys, reserve/shrink/revoke_deleted, clone-then-diverge, get_or_insert, retain, batch insert, alternative entry points) interpreted against a std HashMap model; after every mutation get(k) and len are re-checked, at the end every key of the universe, len and iteration (as a multiset) are checked. Non-trivial = the history re-inserts a key after removing it while live, or the capacity changed while the map was non-empty, or (hasher cells) an operation addressed a key whose hash is 0 or u64::MAX; distinct by hash of the case JSON"
    }
    fn assumptions(&self) -> Vec<String> {
        vec![
            "Err from insert/remove/reserve is counted as 'refused' (labelled), the model is then resynchronised from get(k); it is not a violation".into(),
            "Clone is not an operation of the statement: the clone's content is only labelled; asserted is that the original is unchanged after the clone was mutated and dropped".into(),
            "GoldHashMap::iter_fast / IterationStrategy::Fast are documented to include deleted entries and are not used".into(),
            "EasyHashMap::retain: mutations made by the predicate are documented nowhere as persisted and are not generated; EasyHashMap/GoldHashIdx have no iteration API, so the iteration clause is not checked for them".into(),
            "HashStrMap FastStr entry points are exercised with valid UTF-8 only (lossy conversion of other byte strings is unspecified)".into(),
            "EasyHashMap::get_or_default is only called when a default value was configured (it is documented to panic otherwise)".into(),
            "SmallMap (large mode) and EasyHashMap hash with std RandomState, which the harness cannot seed: keys that share a table value collide under any seed, all other collisions there are outside the harness' control".into(),
            "capacity() is only used to label growth and for the input class 'resized'; no value of capacity is asserted".into(),
        ]
    }
    fn plans(&self, tier: Tier) -> Vec<Plan> {
        let q = |a, b| tier.pick(a, b);
        let max_ops = q(80, 300);
        let max_keys = q(120, 200);
        let mut v = vec![];
        for cell in ZHM_CELLS {
            let stub = !matches!(*cell, "zhm_default" | "zhm_pool");
            let n = if stub { q(1000, 10_000) } else if *cell == "zhm_default" { q(40_000, 800_000) } else { q(20_000, 400_000) };
            v.push(Plan::new(cell, n, n / 10, case(Fam::Zhm, max_keys, max_ops)));
        }
        for cell in gold_cells() {
            v.push(Plan::new(&cell, q(6000, 120_000), q(300, 6000), case(Fam::Gold, max_keys, max_ops)));
        }
        for cell in ["gold_idx", "gold_idx_pool"] {
            // GoldHashIdx hashes with a per-process random key: which key sets form a probe cluster across
            // the table end differs from worker to worker, hence the larger share of cases
            v.push(Plan::new(cell, q(40_000, 400_000), q(2000, 20_000), case(Fam::GoldIdx, max_keys, max_ops)));
        }
        for cell in SMALL_CELLS {
            v.push(Plan::new(cell, q(12_000, 240_000), q(1200, 24_000), case(Fam::Small, q(40, 120), max_ops)));
        }
        v.push(Plan::new("easy", q(30_000, 600_000), q(1500, 30_000), case(Fam::Easy, max_keys, max_ops)));
        v.push(Plan::new("hash_str_map", q(5000, 100_000), 0, case(Fam::Str, max_keys, max_ops)));
        v
    }

    fn run(&self, case: &Value, ctx: &mut Ctx) {
        let c: Case = decode(case);
        let cell = ctx.cell.clone();
        match cell.as_str() {
            x if x.starts_with("zhm_") => {
                let built = try_call(|| -> Result<ZiporaHashMap<HKey, u64, AdvBuild>, String> {
                    let e = |e: zipora::ZiporaError| e.to_string();
                    match x {
                        "zhm_default" => {
                            if c.cfg == 0 {
                                ZiporaHashMap::with_config_and_hasher(ZiporaHashMapConfig::default(), AdvBuild).map_err(e)
                            } else {
                                let cap = [1usize, 16, 17, 20, 24, 33, 64, 100][c.cfg as usize % 8];
                                ZiporaHashMap::<HKey, u64, AdvBuild>::with_capacity(cap).map_err(e)
                            }
                        }
                        "zhm_pool" => {
                            let pool = SecureMemoryPool::new(SecurePoolConfig::small_secure()).map_err(e)?;
                            ZiporaHashMap::with_config_and_hasher(ZiporaHashMapConfig::concurrent_pool(pool), AdvBuild).map_err(e)
                        }
                        "zhm_cache_optimized" => ZiporaHashMap::with_config_and_hasher(ZiporaHashMapConfig::cache_optimized(), AdvBuild).map_err(e),
                        "zhm_string_optimized" => ZiporaHashMap::with_config_and_hasher(ZiporaHashMapConfig::string_optimized(), AdvBuild).map_err(e),
                        "zhm_small_inline_1" => ZiporaHashMap::with_config_and_hasher(ZiporaHashMapConfig::small_inline(1), AdvBuild).map_err(e),
                        "zhm_small_inline_4" => ZiporaHashMap::with_config_and_hasher(ZiporaHashMapConfig::small_inline(4), AdvBuild).map_err(e),
                        _ => ZiporaHashMap::with_config_and_hasher(ZiporaHashMapConfig::small_inline(16), AdvBuild).map_err(e),
                    }
                });
                match built {
                    Ok(Ok(m)) => {
                        if x == "zhm_default" && c.cfg != 0 {
                            ctx.label("zhm:with_capacity");
                        }
                        let mut s = ZhmSut(m);
                        drive::<HKey, _>(ctx, &mut s, &c, true);
                    }
                    Ok(Err(_)) => ctx.label("constructor_refused"),
                    Err(p) => ctx.fail("new", "panic", &p.class(), format!("{}:{}: {}", p.file, p.line, p.msg)),
                }
            }
            x if x.starts_with("gold_idx") => {
                let built = try_call(|| -> Result<GoldHashIdx<HKey, u64>, String> {
                    let cap = [16usize, 0, 1, 17, 64, 100, 1000, 16][c.cfg as usize % 8];
                    if x == "gold_idx_pool" {
                        let pool = SecureMemoryPool::new(SecurePoolConfig::small_secure()).map_err(|e| e.to_string())?;
                        Ok(GoldHashIdx::with_pool(cap, pool))
                    } else if c.cfg == 0 {
                        Ok(GoldHashIdx::new())
                    } else {
                        Ok(GoldHashIdx::with_capacity(cap))
                    }
                });
                match built {
                    Ok(Ok(m)) => {
                        let mut s = GoldIdxSut(m);
                        drive::<HKey, _>(ctx, &mut s, &c, false);
                    }
                    Ok(Err(_)) => ctx.label("constructor_refused"),
                    Err(p) => ctx.fail("new", "panic", &p.class(), format!("{}:{}: {}", p.file, p.line, p.msg)),
                }
            }
            x if x.starts_with("gold_") => {
                let conf = gold_config(x, c.cfg, ctx);
                if x.contains("_u64_") {
                    match try_call(|| GoldHashMap::<HKey, u64, u64>::with_config(conf)) {
                        Ok(m) => drive::<HKey, _>(ctx, &mut GoldSut(m), &c, false),
                        Err(p) => ctx.fail("new", "panic", &p.class(), format!("{}:{}: {}", p.file, p.line, p.msg)),
                    }
                } else {
                    match try_call(|| GoldHashMap::<HKey, u64, u32>::with_config(conf)) {
                        Ok(m) => drive::<HKey, _>(ctx, &mut GoldSut(m), &c, false),
                        Err(p) => ctx.fail("new", "panic", &p.class(), format!("{}:{}: {}", p.file, p.line, p.msg)),
                    }
                }
            }
            "small_map_u8" => run_small::<u8, u64>(ctx, &c, Some(u8_get_fast)),
            "small_map_u32" => run_small::<u32, u64>(ctx, &c, None),
            "small_map_u64" => run_small::<u64, u64>(ctx, &c, None),
            "small_map_string" => run_small::<String, String>(ctx, &c, None),
            "small_map_hkey" => run_small::<HKey, u64>(ctx, &c, None),
            "easy" => {
                let cfg = c.cfg;
                let default = if cfg & 1 == 1 { Some(7u64) } else { None };
                let built = try_call(|| -> EasyHashMap<HKey, u64> {
                    if cfg < 2 {
                        match default {
                            Some(d) => EasyHashMap::with_default(d),
                            None => EasyHashMap::new(),
                        }
                    } else {
                        let cap = [16usize, 1, 17, 20, 33, 64, 100, 24][(cfg as usize >> 1) % 8];
                        let mut b = EasyHashMap::<HKey, u64>::initial_capacity(cap).auto_grow(cfg & 16 == 0).max_load_factor([0.75, 0.1, 0.5, 0.95][(cfg as usize >> 5) % 4]);
                        if let Some(d) = default {
                            b = b.with_default(d);
                        }
                        b.build()
                    }
                });
                match built {
                    Ok(m) => {
                        if cfg >= 2 {
                            ctx.label("easy:builder");
                        }
                        let mut s = EasySut { m, has_default: default };
                        drive::<HKey, _>(ctx, &mut s, &c, false);
                    }
                    Err(p) => ctx.fail("new", "panic", &p.class(), format!("{}:{}: {}", p.file, p.line, p.msg)),
                }
            }
            "hash_str_map" => {
                let m = if c.cfg == 0 { HashStrMap::new() } else { HashStrMap::with_capacity(c.cfg as usize) };
                drive::<String, _>(ctx, &mut StrSut(m), &c, false);
            }
            other => ctx.skip(format!("unknown cell {other}")),
        }
    }
}
