//! C04 — rank/select answers match the bit-sequence definition in every implementation.
//!
//! Oracle: the bit string is expanded (in the worker) from a compact description into a plain
//! `Vec<bool>`; prefix sums / position lists computed from that vector are the definition.  Every
//! implementation, bulk and accelerated entry point is compared with these tables (never with
//! another zipora implementation).

use crate::engine::{decode, try_call, Ctx, Plan, Prop, Tier};
use crate::gen::{idx, Xs};
use proptest::prelude::*;
use serde::{Deserialize, Serialize};
use serde_json::Value;
use zipora::succinct::rank_select::{
    AccessPattern, AdaptiveMultiDimensional, AdaptiveRankSelect, BuilderOptions, MultiDimRankSelect, RankSelectAllOne,
    RankSelectAllZero, RankSelectBuilder, RankSelectFewOne, RankSelectFewZero, RankSelectInterleaved256,
    RankSelectMixedIL256, RankSelectOps, RankSelectPerformanceOps, RankSelectSE256, RankSelectSE512, RankSelectSimple,
    SelectionCriteria,
};
use zipora::succinct::BitVector;

pub struct P;

// ---------------------------------------------------------------------------------------
// case description
// ---------------------------------------------------------------------------------------

/// Pattern class of a bit string; together with (len, seed) it expands deterministically.
#[derive(Clone, Debug, Serialize, Deserialize)]
pub enum Pat {
    Zeros,
    Ones,
    /// only the listed positions (mapped monotonically onto 0..len) are one
    FewOnes(Vec<u16>),
    /// only the listed positions are zero
    FewZeros(Vec<u16>),
    /// every bit is one with probability x/1000
    Density(u16),
    /// alternating runs of zeros/ones with geometric lengths of the given mean
    Runs(u16),
    /// words alternate 0x00.. / 0xFF.. (true: first word is ones)
    AltWords(bool),
    Periodic { period: u8, pattern: u64 },
    /// ones exactly around every multiple of `b`: which = 0 both k*b-1 and k*b, 1 only k*b-1, 2 only k*b
    BlockEdges { b: u32, which: u8 },
    LastOnly,
    FirstOnly,
    /// explicit words, repeated cyclically
    Raw(Vec<u64>),
}

#[derive(Clone, Debug, Serialize, Deserialize)]
pub struct Bits {
    pub len: usize,
    pub pat: Pat,
    pub seed: u64,
}

/// How the `BitVector` holding the string is produced (all yield the same logical sequence).
#[derive(Clone, Copy, Debug, Serialize, Deserialize, PartialEq)]
pub enum Build {
    Push,
    /// `from_raw_bits` with garbage above `len` in the last word and one extra garbage word
    FromRaw,
    /// `with_size(len, v)` + `set`
    SizeSet,
    /// push `len + extra` bits (the extra ones are 1) then `resize(len, false)`
    Truncated(u16),
    /// push `len + extra` bits then `pop()` the extra ones
    Popped(u16),
}

#[derive(Clone, Debug, Serialize, Deserialize)]
pub struct Crit {
    pub sparse: u8,
    pub dense: u8,
    pub small: u8,
    pub access: u8,
    pub flags: u8,
    pub tier: u8,
    pub w1: u8,
    pub w2: u8,
}

#[derive(Clone, Debug, Serialize, Deserialize)]
pub enum Case {
    /// single-string cells; `opt` is a cell-specific option (sample-rate index, builder options ...)
    One { b: Bits, build: Build, opt: u32 },
    Two { a: Bits, b: Bits, build_a: Build, build_b: Build },
    Multi { len: usize, dims: Vec<(Pat, u64)>, build: Build },
    Trivial { len: usize },
    Adaptive { b: Bits, build: Build, crit: Option<Crit> },
    /// raw word cells (raw_bulk, bmi2): the string is padded to whole words
    Words { b: Bits },
}

impl Pat {
    fn name(&self) -> &'static str {
        match self {
            Pat::Zeros => "Zeros",
            Pat::Ones => "Ones",
            Pat::FewOnes(_) => "FewOnes",
            Pat::FewZeros(_) => "FewZeros",
            Pat::Density(_) => "Density",
            Pat::Runs(_) => "Runs",
            Pat::AltWords(_) => "AltWords",
            Pat::Periodic { .. } => "Periodic",
            Pat::BlockEdges { .. } => "BlockEdges",
            Pat::LastOnly => "LastOnly",
            Pat::FirstOnly => "FirstOnly",
            Pat::Raw(_) => "Raw",
        }
    }
}

pub fn expand(pat: &Pat, n: usize, seed: u64) -> Vec<bool> {
    let mut r = Xs(seed | 1);
    let mut v = vec![false; n];
    if n == 0 {
        return v;
    }
    match pat {
        Pat::Zeros => {}
        Pat::Ones => v.iter_mut().for_each(|b| *b = true),
        Pat::FewOnes(ps) => {
            for &p in ps {
                v[idx(p, n)] = true;
            }
        }
        Pat::FewZeros(ps) => {
            v.iter_mut().for_each(|b| *b = true);
            for &p in ps {
                v[idx(p, n)] = false;
            }
        }
        Pat::Density(x) => {
            let x = (*x).min(1000) as u64;
            for b in v.iter_mut() {
                *b = r.below(1000) < x;
            }
        }
        Pat::Runs(mean) => {
            let mean = (*mean).max(1) as f64;
            let mut cur = seed & 2 != 0;
            let mut i = 0;
            while i < n {
                // geometric length with the given mean (>= 1)
                let u = r.unit().max(1e-12);
                let run = 1 + (-(u.ln()) * (mean - 0.5).max(0.5)) as usize;
                for _ in 0..run {
                    if i < n {
                        v[i] = cur;
                        i += 1;
                    }
                }
                cur = !cur;
            }
        }
        Pat::AltWords(first) => {
            for (i, b) in v.iter_mut().enumerate() {
                *b = ((i / 64) % 2 == 0) == *first;
            }
        }
        Pat::Periodic { period, pattern } => {
            let p = (*period as usize).clamp(1, 64);
            for (i, b) in v.iter_mut().enumerate() {
                *b = (pattern >> (i % p)) & 1 == 1;
            }
        }
        Pat::BlockEdges { b, which } => {
            let b = (*b as usize).max(2);
            let mut k = b;
            while k <= n {
                if *which != 2 {
                    v[k - 1] = true;
                }
                if *which != 1 && k < n {
                    v[k] = true;
                }
                k += b;
            }
        }
        Pat::LastOnly => v[n - 1] = true,
        Pat::FirstOnly => v[0] = true,
        Pat::Raw(ws) => {
            if !ws.is_empty() {
                for (i, b) in v.iter_mut().enumerate() {
                    *b = (ws[(i / 64) % ws.len()] >> (i % 64)) & 1 == 1;
                }
            }
        }
    }
    v
}

impl Bits {
    fn expand(&self) -> Vec<bool> {
        expand(&self.pat, self.len, self.seed)
    }
}

// ---------------------------------------------------------------------------------------
// generators
// ---------------------------------------------------------------------------------------

const BLOCKS: [usize; 5] = [64, 256, 512, 2048, 65536];

fn len_strategy(tier: Tier) -> BoxedStrategy<usize> {
    let big_k = tier.pick(2, 4);
    let uni = tier.pick(5000, 300_000);
    let mut small = vec![];
    for b in [64usize, 256, 512, 2048] {
        for k in 1..=4usize {
            for d in [-1i64, 0, 1] {
                small.push(((b * k) as i64 + d) as usize);
            }
        }
    }
    let mut big = vec![];
    for k in 1..=big_k {
        for d in [-1i64, 0, 1] {
            big.push(((65536 * k) as i64 + d) as usize);
        }
    }
    prop_oneof![
        2 => 0usize..=3,
        2 => 0usize..=130,
        5 => proptest::sample::select(small),
        1 => proptest::sample::select(big),
        3 => 0usize..=uni,
    ]
    .boxed()
}

fn pat_strategy() -> BoxedStrategy<Pat> {
    prop_oneof![
        1 => Just(Pat::Zeros),
        1 => Just(Pat::Ones),
        2 => proptest::collection::vec(any::<u16>(), 1..4).prop_map(Pat::FewOnes),
        1 => proptest::collection::vec(any::<u16>(), 4..200).prop_map(Pat::FewOnes),
        2 => proptest::collection::vec(any::<u16>(), 1..4).prop_map(Pat::FewZeros),
        1 => proptest::collection::vec(any::<u16>(), 4..200).prop_map(Pat::FewZeros),
        3 => proptest::sample::select(vec![1u16, 10, 500, 990, 999]).prop_map(Pat::Density),
        1 => (0u16..=1000).prop_map(Pat::Density),
        2 => proptest::sample::select(vec![1u16, 2, 5, 40, 64, 300, 3000]).prop_map(Pat::Runs),
        1 => any::<bool>().prop_map(Pat::AltWords),
        1 => (1u8..=64, any::<u64>()).prop_map(|(period, pattern)| Pat::Periodic { period, pattern }),
        2 => (proptest::sample::select(vec![64u32, 256, 512, 2048, 65536]), 0u8..3).prop_map(|(b, which)| Pat::BlockEdges { b, which }),
        1 => Just(Pat::LastOnly),
        1 => Just(Pat::FirstOnly),
        1 => proptest::collection::vec(prop_oneof![any::<u64>(), Just(0u64), Just(u64::MAX), Just(1u64), Just(1u64 << 63)], 1..6).prop_map(Pat::Raw),
    ]
    .boxed()
}

fn bits_strategy(tier: Tier) -> BoxedStrategy<Bits> {
    (len_strategy(tier), pat_strategy(), any::<u64>()).prop_map(|(len, pat, seed)| Bits { len, pat, seed }).boxed()
}

fn build_strategy() -> BoxedStrategy<Build> {
    prop_oneof![
        5 => Just(Build::Push),
        2 => Just(Build::FromRaw),
        1 => Just(Build::SizeSet),
        2 => prop_oneof![1u16..=3, 1u16..=700, Just(64u16), Just(256u16)].prop_map(Build::Truncated),
        1 => prop_oneof![1u16..=3, 1u16..=700].prop_map(Build::Popped),
    ]
    .boxed()
}

fn one(tier: Tier) -> BoxedStrategy<Case> {
    (bits_strategy(tier), build_strategy(), any::<u32>()).prop_map(|(b, build, opt)| Case::One { b, build, opt }).boxed()
}

fn two(tier: Tier, same_len: bool) -> BoxedStrategy<Case> {
    (bits_strategy(tier), bits_strategy(tier), build_strategy(), build_strategy(), any::<bool>())
        .prop_map(move |(a, mut b, build_a, build_b, near)| {
            if same_len {
                b.len = a.len;
            } else if near {
                // lengths in the same / neighbouring 256-bit line
                b.len = (a.len + (b.seed % 5) as usize * 128).saturating_sub(256);
            }
            Case::Two { a, b, build_a, build_b }
        })
        .boxed()
}

fn multi(tier: Tier, dims: usize) -> BoxedStrategy<Case> {
    (len_strategy(tier), proptest::collection::vec((pat_strategy(), any::<u64>()), dims), build_strategy())
        .prop_map(|(len, dims, build)| Case::Multi { len, dims, build })
        .boxed()
}

fn crit_strategy() -> BoxedStrategy<Crit> {
    (0u8..4, 0u8..4, 0u8..4, 0u8..5, 0u8..8, 0u8..5, 0u8..3, 0u8..3)
        .prop_map(|(sparse, dense, small, access, flags, tier, w1, w2)| Crit { sparse, dense, small, access, flags, tier, w1, w2 })
        .boxed()
}

// ---------------------------------------------------------------------------------------
// reference model
// ---------------------------------------------------------------------------------------

pub struct Model {
    bits: Vec<bool>,
    /// rank[p] = number of ones in bits[0..p], p in 0..=n
    rank: Vec<u32>,
    ones: Vec<u32>,
    zeros: Vec<u32>,
}

impl Model {
    fn new(bits: Vec<bool>) -> Model {
        let mut rank = Vec::with_capacity(bits.len() + 1);
        let (mut ones, mut zeros) = (vec![], vec![]);
        let mut c = 0u32;
        for (i, &b) in bits.iter().enumerate() {
            rank.push(c);
            if b {
                c += 1;
                ones.push(i as u32);
            } else {
                zeros.push(i as u32);
            }
        }
        rank.push(c);
        Model { bits, rank, ones, zeros }
    }
    fn n(&self) -> usize {
        self.bits.len()
    }
    fn words(&self) -> Vec<u64> {
        let mut w = vec![0u64; (self.n() + 63) / 64];
        for &p in &self.ones {
            w[p as usize / 64] |= 1u64 << (p % 64);
        }
        w
    }
}

fn build_bv(bits: &[bool], mode: Build, seed: u64) -> Result<BitVector, String> {
    let e = |x: zipora::ZiporaError| x.to_string();
    let n = bits.len();
    match mode {
        Build::Push => {
            let mut bv = BitVector::new();
            for &b in bits {
                bv.push(b).map_err(e)?;
            }
            Ok(bv)
        }
        Build::FromRaw => {
            let mut w = vec![0u64; (n + 63) / 64];
            for (i, &b) in bits.iter().enumerate() {
                if b {
                    w[i / 64] |= 1u64 << (i % 64);
                }
            }
            if n % 64 != 0 {
                let last = w.len() - 1;
                w[last] |= !0u64 << (n % 64);
            }
            if seed & 1 == 1 {
                w.push(u64::MAX);
            }
            BitVector::from_raw_bits(w, n).map_err(e)
        }
        Build::SizeSet => {
            let fill = seed & 1 == 1;
            let mut bv = BitVector::with_size(n, fill).map_err(e)?;
            for (i, &b) in bits.iter().enumerate() {
                if b != fill {
                    bv.set(i, b).map_err(e)?;
                }
            }
            Ok(bv)
        }
        Build::Truncated(x) => {
            let mut bv = BitVector::new();
            for &b in bits {
                bv.push(b).map_err(e)?;
            }
            for _ in 0..x.max(1) {
                bv.push(true).map_err(e)?;
            }
            bv.resize(n, false).map_err(e)?;
            Ok(bv)
        }
        Build::Popped(x) => {
            let mut bv = BitVector::new();
            for &b in bits {
                bv.push(b).map_err(e)?;
            }
            for _ in 0..x.max(1) {
                bv.push(true).map_err(e)?;
            }
            for _ in 0..x.max(1) {
                bv.pop();
            }
            Ok(bv)
        }
    }
}

fn build_sfx(mode: Build) -> &'static str {
    match mode {
        Build::Truncated(_) => "trunc",
        _ => "",
    }
}

fn cls(base: &str, sfx: &str) -> String {
    match (base.is_empty(), sfx.is_empty()) {
        (_, true) => base.to_string(),
        (true, false) => sfx.to_string(),
        (false, false) => format!("{base},{sfx}"),
    }
}

// ---------------------------------------------------------------------------------------
// labels
// ---------------------------------------------------------------------------------------

fn len_label(n: usize) -> String {
    let size = match n {
        0 => "0",
        1..=64 => "1-64",
        65..=4096 => "65-4096",
        4097..=65534 => "4097-65534",
        _ => ">=65535",
    };
    let mut edge = "off_boundary";
    for (b, name) in [(65536usize, "~65536k"), (2048, "~2048k"), (512, "~512k"), (256, "~256k"), (64, "~64k")] {
        if n + 1 >= b && ((n + 1) % b <= 2) {
            edge = name;
            break;
        }
    }
    format!("len:{size},{edge}")
}

fn density_label(m: &Model) -> &'static str {
    let (n, o) = (m.n(), m.ones.len());
    if n == 0 {
        "dens:empty"
    } else if o == 0 {
        "dens:all0"
    } else if o == n {
        "dens:all1"
    } else if o == 1 {
        "dens:one1"
    } else if o == n - 1 {
        "dens:one0"
    } else if o * 20 < n {
        "dens:<5%"
    } else if o * 20 > n * 19 {
        "dens:>95%"
    } else {
        "dens:5-95%"
    }
}

fn describe(ctx: &mut Ctx, pat: &Pat, build: Option<Build>, m: &Model) {
    ctx.label(len_label(m.n()));
    ctx.label(density_label(m));
    ctx.label(format!("pat:{}", pat.name()));
    if let Some(b) = build {
        ctx.label(format!(
            "build:{}",
            match b {
                Build::Push => "push",
                Build::FromRaw => "from_raw_dirty",
                Build::SizeSet => "with_size+set",
                Build::Truncated(_) => "truncated",
                Build::Popped(_) => "popped",
            }
        ));
    }
    if m.n() >= 65 && !m.ones.is_empty() && m.ones.len() < m.n() {
        ctx.nontrivial();
    }
}

// ---------------------------------------------------------------------------------------
// query sampling and comparison helpers
// ---------------------------------------------------------------------------------------

/// positions p in 0..=n: all of them when n <= full, else block boundaries +-1, the ends and a stride
fn positions(n: usize, full: usize, seed: u64) -> Vec<usize> {
    if n <= full {
        return (0..=n).collect();
    }
    let mut v: Vec<usize> = vec![0, 1, 2, n - 2, n - 1, n];
    for b in BLOCKS {
        let cnt = n / b;
        let step = (cnt / 300).max(1);
        let mut k = 1 + (seed as usize % step);
        while k <= cnt {
            for d in [-1i64, 0, 1] {
                let p = (k * b) as i64 + d;
                if p >= 0 && p as usize <= n {
                    v.push(p as usize);
                }
            }
            k += step;
        }
        // always the last boundary
        if cnt >= 1 {
            for d in [-1i64, 0, 1] {
                let p = (cnt * b) as i64 + d;
                if p as usize <= n {
                    v.push(p as usize);
                }
            }
        }
    }
    let stride = n / 1500 + 1;
    let mut p = (seed >> 8) as usize % stride;
    while p <= n {
        v.push(p);
        p += stride;
    }
    v.sort_unstable();
    v.dedup();
    v
}

/// indices k in 0..cnt: all when cnt <= cap, else ends, block multiples +-1 and a stride
fn sel_ks(cnt: usize, cap: usize, seed: u64) -> Vec<usize> {
    if cnt <= cap {
        return (0..cnt).collect();
    }
    let mut v: Vec<usize> = vec![0, 1, 2, cnt - 3, cnt - 2, cnt - 1];
    for b in [64usize, 256, 512, 1000, 2048, 65536] {
        let m = cnt / b;
        for k in (1..=m.min(6)).chain(m.saturating_sub(2)..=m) {
            for d in [-1i64, 0, 1] {
                let x = (k * b) as i64 + d;
                if x >= 0 && (x as usize) < cnt {
                    v.push(x as usize);
                }
            }
        }
    }
    let stride = cnt / cap.max(1) + 1;
    let mut k = (seed >> 16) as usize % stride;
    while k < cnt {
        v.push(k);
        k += stride;
    }
    v.sort_unstable();
    v.dedup();
    v
}

/// indices >= cnt that must be refused
fn bad_ks(cnt: usize) -> Vec<usize> {
    vec![cnt, cnt + 1, cnt + 63, cnt + 64, cnt + 255, cnt + 256, cnt + 511, cnt + 512, 2 * cnt + 1, usize::MAX]
}

/// Run a zipora call; a panic is recorded as `<aspect>/panic/<class>|<panic class>`.
fn call<R>(ctx: &mut Ctx, aspect: &str, class: &str, f: impl FnOnce() -> R) -> Option<R> {
    match try_call(f) {
        Ok(r) => Some(r),
        Err(p) => {
            let c = if class.is_empty() { p.class() } else { format!("{}|{}", class, p.class()) };
            ctx.fail(aspect, "panic", &c, format!("{}:{}: {}", p.file, p.line, crate::engine::clip(&p.msg, 300)));
            None
        }
    }
}

fn chk<T: PartialEq + std::fmt::Debug>(ctx: &mut Ctx, aspect: &str, class: &str, got: T, want: T, at: impl FnOnce() -> String) -> bool {
    ctx.out.checks += 1;
    if got == want {
        true
    } else {
        let a = at();
        ctx.fail(aspect, "mismatch", class, format!("{a}: got {:?} want {:?}", got, want));
        false
    }
}

/// compare a select answer; `want` = Some(position) for a valid index, None when it must be refused
fn chk_sel<E: std::fmt::Display>(ctx: &mut Ctx, aspect: &str, sfx: &str, what: &str, got: Result<usize, E>, want: Option<usize>, at: impl FnOnce() -> String) {
    ctx.out.checks += 1;
    match (got, want) {
        (Ok(g), Some(w)) if g == w => {}
        (Ok(g), Some(w)) => ctx.fail(aspect, "mismatch", &cls(&format!("k<{what}"), sfx), format!("{}: got Ok({g}) want {w}", at())),
        (Err(e), Some(w)) => ctx.fail(aspect, "err", &cls(&format!("k<{what}"), sfx), format!("{}: got Err({e}) want {w}", at())),
        (Err(_), None) => {}
        (Ok(g), None) => ctx.fail(aspect, "mismatch", &cls(&format!("k>={what}"), sfx), format!("{}: got Ok({g}) for an index that does not exist", at())),
    }
}

pub struct Q<'a> {
    m: &'a Model,
    sfx: &'a str,
    /// query every position when n <= full
    full: usize,
    /// query every select index when the count is <= sel_cap
    sel_cap: usize,
    /// is select0 offered by this implementation?
    select0: bool,
    seed: u64,
}

/// bit-probe budget for implementations whose select is linear in the answer position
fn linear_sel_cap(n: usize) -> usize {
    (20_000_000 / n.max(1)).max(64)
}

/// The whole RankSelectOps contract against the model.
fn check_ops<R: RankSelectOps + ?Sized>(ctx: &mut Ctx, rs: &R, q: &Q) {
    let m = q.m;
    let n = m.n();
    let sfx = q.sfx;
    let ones = m.ones.len();
    let zeros = m.zeros.len();
    if let Some(v) = call(ctx, "len", sfx, || rs.len()) {
        chk(ctx, "len", sfx, v, n, String::new);
    }
    if let Some(v) = call(ctx, "len", sfx, || rs.is_empty()) {
        chk(ctx, "len", &cls("is_empty", sfx), v, n == 0, String::new);
    }
    if let Some(v) = call(ctx, "count_ones", sfx, || rs.count_ones()) {
        chk(ctx, "count_ones", sfx, v, ones, || format!("n={n}"));
    }
    if let Some(v) = call(ctx, "count_zeros", sfx, || rs.count_zeros()) {
        chk(ctx, "count_zeros", sfx, v, zeros, || format!("n={n}"));
    }
    let ps = positions(n, q.full, q.seed);
    // get
    let mut pan = 0;
    for &i in &ps {
        if i >= n {
            continue;
        }
        match call(ctx, "get", &cls("i<len", sfx), || rs.get(i)) {
            Some(v) => {
                chk(ctx, "get", &cls("i<len", sfx), v, Some(m.bits[i]), || format!("i={i} n={n}"));
            }
            None => {
                pan += 1;
                if pan > 3 {
                    break;
                }
            }
        }
    }
    for i in [n, n + 1, (n / 64 + 1) * 64 - 1, (n / 256 + 1) * 256 - 1, (n / 512 + 1) * 512] {
        if i >= n {
            if let Some(v) = call(ctx, "get", &cls("i>=len", sfx), || rs.get(i)) {
                chk(ctx, "get", &cls("i>=len", sfx), v, None, || format!("i={i} n={n}"));
            }
        }
    }
    // rank1 / rank0
    let (mut pan1, mut pan0) = (0, 0);
    for &p in &ps {
        let c = cls(if p == n { "p=len" } else { "p<len" }, sfx);
        if pan1 <= 3 {
            match call(ctx, "rank1", &c, || rs.rank1(p)) {
                Some(v) => {
                    chk(ctx, "rank1", &c, v, m.rank[p] as usize, || format!("p={p} n={n}"));
                }
                None => pan1 += 1,
            }
        }
        if pan0 <= 3 {
            match call(ctx, "rank0", &c, || rs.rank0(p)) {
                Some(v) => {
                    chk(ctx, "rank0", &c, v, p - m.rank[p] as usize, || format!("p={p} n={n}"));
                }
                None => pan0 += 1,
            }
        }
    }
    // select1 (+ inverse law with the implementation's own rank1/get)
    let mut pan = 0;
    for k in sel_ks(ones, q.sel_cap, q.seed) {
        let Some(r) = call(ctx, "select1", &cls("k<ones", sfx), || rs.select1(k)) else {
            pan += 1;
            if pan > 3 {
                break;
            }
            continue;
        };
        if let Ok(pos) = &r {
            let pos = *pos;
            if pos < n {
                if let Some(rk) = call(ctx, "rank_select_inverse", sfx, || rs.rank1(pos)) {
                    chk(ctx, "rank_select_inverse", sfx, rk, k, || format!("rank1(select1({k})={pos}) n={n}"));
                }
            }
        }
        chk_sel(ctx, "select1", sfx, "ones", r, Some(m.ones[k] as usize), || format!("k={k} ones={ones} n={n}"));
    }
    for k in bad_ks(ones) {
        if let Some(r) = call(ctx, "select1", &cls("k>=ones", sfx), || rs.select1(k)) {
            chk_sel(ctx, "select1", sfx, "ones", r, None, || format!("k={k} ones={ones} n={n}"));
        }
    }
    // select0
    if q.select0 {
        let mut pan = 0;
        for k in sel_ks(zeros, q.sel_cap.max(4096), q.seed) {
            let Some(r) = call(ctx, "select0", &cls("k<zeros", sfx), || rs.select0(k)) else {
                pan += 1;
                if pan > 3 {
                    break;
                }
                continue;
            };
            if let Ok(pos) = &r {
                let pos = *pos;
                if pos < n {
                    if let Some(rk) = call(ctx, "rank_select_inverse", &cls("zero", sfx), || rs.rank0(pos)) {
                        chk(ctx, "rank_select_inverse", &cls("zero", sfx), rk, k, || format!("rank0(select0({k})={pos}) n={n}"));
                    }
                }
            }
            chk_sel(ctx, "select0", sfx, "zeros", r, Some(m.zeros[k] as usize), || format!("k={k} zeros={zeros} n={n}"));
        }
        for k in bad_ks(zeros) {
            if let Some(r) = call(ctx, "select0", &cls("k>=zeros", sfx), || rs.select0(k)) {
                chk_sel(ctx, "select0", sfx, "zeros", r, None, || format!("k={k} zeros={zeros} n={n}"));
            }
        }
    } else {
        match try_call(|| rs.select0(0)) {
            Ok(Err(_)) => ctx.label("select0:not_offered"),
            Ok(Ok(_)) => ctx.label("select0:answers_but_not_checked"),
            Err(_) => ctx.label("select0:panics_not_offered"),
        }
    }
}

/// constructor result: Err = refused (labelled, allowed), panic = discrepancy
fn built<T, E: std::fmt::Display>(ctx: &mut Ctx, sfx: &str, f: impl FnOnce() -> Result<T, E>) -> Option<T> {
    match call(ctx, "construct", sfx, f) {
        Some(Ok(v)) => Some(v),
        Some(Err(e)) => {
            // no statement clause allows refusing an ordinary bit string, and nothing is checked
            // afterwards, so surface it (soundness rule 2 covers encoders/limits, not this)
            ctx.fail("construct", "err", sfx, format!("{e}"));
            None
        }
        None => None,
    }
}

fn make_bv(ctx: &mut Ctx, bits: &[bool], build: Build, seed: u64) -> Option<BitVector> {
    match try_call(|| build_bv(bits, build, seed)) {
        Ok(Ok(bv)) => Some(bv),
        Ok(Err(e)) => {
            ctx.fail("bitvector_build", "err", build_sfx(build), e);
            None
        }
        Err(p) => {
            ctx.fail("bitvector_build", "panic", &p.class(), p.msg);
            None
        }
    }
}

// ---------------------------------------------------------------------------------------
// cells
// ---------------------------------------------------------------------------------------

const RATES: [usize; 12] = [1, 2, 3, 7, 64, 255, 256, 257, 512, 1000, 4096, 1_000_000];

const ONE_CELLS: &[&str] = &[
    "il256_new",
    "il256_cache",
    "il256_nocache",
    "se256_s00",
    "se256_s01",
    "se256_s10",
    "se256_s11",
    "se512_s00",
    "se512_s01",
    "se512_s10",
    "se512_s11",
    "simple_new",
    "simple_from_words",
    "few_one_new",
    "few_one_from_bv",
    "few_zero_new",
    "few_zero_from_bv",
    "bitvector",
    "perf_ops_cache",
    "perf_ops_nocache",
    "builder_from_bit_vector",
    "builder_from_iter",
    "builder_from_bytes",
    "builder_with_optimizations_cache",
    "builder_with_optimizations_nocache",
];

fn run_one(ctx: &mut Ctx, b: &Bits, build: Build, opt: u32) {
    let m = Model::new(b.expand());
    let n = m.n();
    let cell = ctx.cell.clone();
    let uses_bv = !matches!(cell.as_str(), "simple_from_words" | "few_one_new" | "few_zero_new" | "builder_from_iter" | "builder_from_bytes");
    describe(ctx, &b.pat, if uses_bv { Some(build) } else { None }, &m);
    let sfx = if uses_bv { build_sfx(build) } else { "" };
    let mut q = Q { m: &m, sfx, full: 400_000, sel_cap: 400_000, select0: true, seed: b.seed };
    let bv = if uses_bv {
        match make_bv(ctx, &m.bits, build, b.seed) {
            Some(bv) => Some(bv),
            None => return,
        }
    } else {
        None
    };
    let rate = RATES[opt as usize % RATES.len()];
    match cell.as_str() {
        "il256_new" => {
            q.sel_cap = linear_sel_cap(n);
            if let Some(rs) = built(ctx, sfx, || RankSelectInterleaved256::new(bv.unwrap())) {
                check_ops(ctx, &rs, &q);
            }
        }
        "il256_cache" | "il256_nocache" => {
            let cache = cell == "il256_cache";
            ctx.label(format!("sample_rate:{rate}"));
            q.sel_cap = if cache { linear_sel_cap(n) } else { 400_000 };
            if let Some(rs) = built(ctx, sfx, || RankSelectInterleaved256::with_options(bv.unwrap(), cache, rate)) {
                check_ops(ctx, &rs, &q);
            }
        }
        c if c.starts_with("se256_s") || c.starts_with("se512_s") => {
            let s0 = c.as_bytes()[7] == b'1';
            let s1 = c.as_bytes()[8] == b'1';
            if c.starts_with("se256") {
                if let Some(rs) = built(ctx, sfx, || RankSelectSE256::with_options(bv.unwrap(), s0, s1)) {
                    check_ops(ctx, &rs, &q);
                    if let Some(v) = call(ctx, "count_ones", &cls("max_rank1", sfx), || (rs.max_rank1(), rs.max_rank0())) {
                        chk(ctx, "count_ones", &cls("max_rank", sfx), v, (m.ones.len(), m.zeros.len()), String::new);
                    }
                }
            } else if let Some(rs) = built(ctx, sfx, || RankSelectSE512::with_options(bv.unwrap(), s0, s1)) {
                check_ops(ctx, &rs, &q);
                if let Some(v) = call(ctx, "count_ones", &cls("max_rank1", sfx), || (rs.max_rank1(), rs.max_rank0())) {
                    chk(ctx, "count_ones", &cls("max_rank", sfx), v, (m.ones.len(), m.zeros.len()), String::new);
                }
            }
        }
        "simple_new" => {
            if let Some(rs) = built(ctx, sfx, || RankSelectSimple::new(bv.unwrap())) {
                check_ops(ctx, &rs, &q);
            }
        }
        "simple_from_words" => {
            // `size` says how many bits are valid; bits above it in the last word are garbage
            let mut w = m.words();
            if n % 64 != 0 && opt & 1 == 1 {
                let last = w.len() - 1;
                w[last] |= !0u64 << (n % 64);
                ctx.label("words:dirty_tail");
            }
            if opt & 2 == 2 {
                w.push(u64::MAX);
                ctx.label("words:extra_word");
            }
            if let Some(rs) = built(ctx, "", || RankSelectSimple::from_words(w, n)) {
                check_ops(ctx, &rs, &q);
            }
        }
        "few_one_new" => {
            if let Some(rs) = built(ctx, "", || RankSelectFewOne::new(m.ones.clone(), n)) {
                check_ops(ctx, &rs, &q);
                if let Some(v) = call(ctx, "count_ones", "num", || (rs.num_ones(), rs.num_zeros())) {
                    chk(ctx, "count_ones", "num", v, (m.ones.len(), m.zeros.len()), String::new);
                }
            }
        }
        "few_one_from_bv" => {
            let bv = bv.unwrap();
            if let Some(rs) = built(ctx, sfx, || RankSelectFewOne::from_bitvector(&bv)) {
                check_ops(ctx, &rs, &q);
            }
        }
        "few_zero_new" => {
            if let Some(rs) = built(ctx, "", || RankSelectFewZero::new(m.zeros.clone(), n)) {
                check_ops(ctx, &rs, &q);
                if let Some(v) = call(ctx, "count_ones", "num", || (rs.num_ones(), rs.num_zeros())) {
                    chk(ctx, "count_ones", "num", v, (m.ones.len(), m.zeros.len()), String::new);
                }
            }
        }
        "few_zero_from_bv" => {
            let bv = bv.unwrap();
            if let Some(rs) = built(ctx, sfx, || RankSelectFewZero::from_bitvector(&bv)) {
                check_ops(ctx, &rs, &q);
            }
        }
        "bitvector" => run_bitvector(ctx, &bv.unwrap(), &m, sfx, b.seed),
        "perf_ops_cache" | "perf_ops_nocache" => {
            let cache = cell == "perf_ops_cache";
            ctx.label(format!("sample_rate:{rate}"));
            // the default constructor is the common way to get the cached variant
            let r = if cache && opt & 0x100 == 0 {
                built(ctx, sfx, || RankSelectInterleaved256::new(bv.unwrap()))
            } else {
                built(ctx, sfx, || RankSelectInterleaved256::with_options(bv.unwrap(), cache, rate))
            };
            if let Some(rs) = r {
                run_perf_ops(ctx, &rs, &m, sfx, b.seed, cache);
            }
        }
        "builder_from_bit_vector" => {
            q.sel_cap = linear_sel_cap(n);
            if let Some(rs) = built(ctx, sfx, || <RankSelectInterleaved256 as RankSelectBuilder<RankSelectInterleaved256>>::from_bit_vector(bv.unwrap())) {
                check_ops(ctx, &rs, &q);
            }
        }
        "builder_from_iter" => {
            q.sel_cap = linear_sel_cap(n);
            let it = m.bits.clone();
            if let Some(rs) = built(ctx, "", || <RankSelectInterleaved256 as RankSelectBuilder<RankSelectInterleaved256>>::from_iter(it)) {
                check_ops(ctx, &rs, &q);
            }
        }
        "builder_from_bytes" => {
            q.sel_cap = linear_sel_cap(n);
            let mut bytes = vec![0u8; (n + 7) / 8];
            for &p in &m.ones {
                bytes[p as usize / 8] |= 1 << (p % 8);
            }
            if n % 8 != 0 && opt & 1 == 1 {
                let last = bytes.len() - 1;
                bytes[last] |= 0xFFu8 << (n % 8);
                ctx.label("bytes:dirty_tail");
            }
            if opt & 2 == 2 {
                bytes.extend_from_slice(&[0xFF, 0xFF, 0xFF]);
                ctx.label("bytes:extra_bytes");
            }
            if let Some(rs) = built(ctx, "", || <RankSelectInterleaved256 as RankSelectBuilder<RankSelectInterleaved256>>::from_bytes(&bytes, n)) {
                check_ops(ctx, &rs, &q);
            }
        }
        "builder_with_optimizations_cache" | "builder_with_optimizations_nocache" => {
            let opts = BuilderOptions {
                optimize_select: cell.ends_with("_cache"),
                block_size: [256usize, 512, 1024, 64][(opt as usize >> 1) % 4],
                select_sample_rate: rate,
                enable_simd: opt & 8 == 0,
                prefer_space: opt & 16 != 0,
            };
            ctx.label(format!("sample_rate:{rate}"));
            q.sel_cap = if opts.optimize_select { linear_sel_cap(n) } else { 400_000 };
            if let Some(rs) = built(ctx, sfx, || <RankSelectInterleaved256 as RankSelectBuilder<RankSelectInterleaved256>>::with_optimizations(bv.unwrap(), opts)) {
                check_ops(ctx, &rs, &q);
            }
        }
        other => ctx.skip(format!("unknown cell {other}")),
    }
}

/// `BitVector`'s own len/get/count/rank and its bulk rank
fn run_bitvector(ctx: &mut Ctx, bv: &BitVector, m: &Model, sfx: &str, seed: u64) {
    let n = m.n();
    chk(ctx, "len", sfx, bv.len(), n, String::new);
    chk(ctx, "len", &cls("is_empty", sfx), bv.is_empty(), n == 0, String::new);
    if let Some(v) = call(ctx, "count_ones", sfx, || bv.count_ones()) {
        chk(ctx, "count_ones", sfx, v, m.ones.len(), || format!("n={n}"));
    }
    if let Some(v) = call(ctx, "count_zeros", sfx, || bv.count_zeros()) {
        chk(ctx, "count_zeros", sfx, v, m.zeros.len(), || format!("n={n}"));
    }
    // BitVector::rank1 is O(n/64) per query: sample above 8192 bits
    let ps = positions(n, 8192, seed);
    for &i in &ps {
        if i < n {
            if let Some(v) = call(ctx, "get", &cls("i<len", sfx), || bv.get(i)) {
                chk(ctx, "get", &cls("i<len", sfx), v, Some(m.bits[i]), || format!("i={i} n={n}"));
            }
        }
    }
    for i in [n, n + 1, (n / 64 + 1) * 64 - 1, (n / 64 + 1) * 64] {
        if i >= n {
            if let Some(v) = call(ctx, "get", &cls("i>=len", sfx), || bv.get(i)) {
                chk(ctx, "get", &cls("i>=len", sfx), v, None, || format!("i={i} n={n}"));
            }
        }
    }
    for &p in &ps {
        let c = cls(if p == n { "p=len" } else { "p<len" }, sfx);
        if let Some(v) = call(ctx, "rank1", &c, || bv.rank1(p)) {
            chk(ctx, "rank1", &c, v, m.rank[p] as usize, || format!("p={p} n={n}"));
        }
        if let Some(v) = call(ctx, "rank0", &c, || bv.rank0(p)) {
            chk(ctx, "rank0", &c, v, p - m.rank[p] as usize, || format!("p={p} n={n}"));
        }
    }
    let want: Vec<usize> = ps.iter().map(|&p| m.rank[p] as usize).collect();
    if let Some(v) = call(ctx, "rank1_bulk_simd", sfx, || bv.rank1_bulk_simd(&ps)) {
        bulk_cmp(ctx, "rank1_bulk_simd", sfx, &v, &want, &ps, n);
    }
    for chunk in [1usize, 3, 4, 5] {
        let sub: Vec<usize> = ps.iter().rev().take(chunk).copied().collect();
        let want: Vec<usize> = sub.iter().map(|&p| m.rank[p] as usize).collect();
        if let Some(v) = call(ctx, "rank1_bulk_simd", sfx, || bv.rank1_bulk_simd(&sub)) {
            bulk_cmp(ctx, "rank1_bulk_simd", sfx, &v, &want, &sub, n);
        }
    }
}

/// element-wise comparison of a bulk rank answer; class tells whether the first wrong query was p = len
fn bulk_cmp(ctx: &mut Ctx, aspect: &str, sfx: &str, got: &[usize], want: &[usize], ps: &[usize], n: usize) {
    ctx.out.checks += 1;
    if got.len() != want.len() {
        ctx.fail(aspect, "mismatch", &cls("result_len", sfx), format!("{} answers for {} queries", got.len(), want.len()));
        return;
    }
    // report p<len and p=len separately so one does not hide the other
    let mut seen = [false; 2];
    for i in 0..got.len() {
        if got[i] != want[i] {
            let at_len = ps[i] == n;
            if !seen[at_len as usize] {
                seen[at_len as usize] = true;
                ctx.fail(aspect, "mismatch", &cls(if at_len { "p=len" } else { "p<len" }, sfx), format!("p={} n={n}: got {} want {}", ps[i], got[i], want[i]));
            }
        }
    }
}

/// bulk select answer for valid indices; class = is the wanted bit the first one of its 64-bit word?
fn bulk_sel_cmp<E: std::fmt::Display>(ctx: &mut Ctx, aspect: &str, sfx: &str, got: Result<Vec<usize>, E>, ks: &[usize], m: &Model) {
    ctx.out.checks += 1;
    match got {
        Err(e) => ctx.fail(aspect, "err", &cls("k<ones", sfx), format!("valid indices {:?}... refused: {e}", &ks[..ks.len().min(5)])),
        Ok(v) => {
            if v.len() != ks.len() {
                ctx.fail(aspect, "mismatch", &cls("k<ones,result_len", sfx), format!("{} answers for {} valid indices", v.len(), ks.len()));
                return;
            }
            let mut seen = [false; 2];
            for (i, &k) in ks.iter().enumerate() {
                let w = m.ones[k] as usize;
                if v[i] != w {
                    let first = k == 0 || (m.ones[k - 1] as usize) / 64 != w / 64;
                    if !seen[first as usize] {
                        seen[first as usize] = true;
                        ctx.fail(
                            aspect,
                            "mismatch",
                            &cls(if first { "k<ones,first_one_of_word" } else { "k<ones,later_one_of_word" }, sfx),
                            format!("k={k} ones={} n={}: got {} want {w}", m.ones.len(), m.n(), v[i]),
                        );
                    }
                }
            }
        }
    }
}

fn shuffled(mut v: Vec<usize>, seed: u64) -> Vec<usize> {
    let mut r = Xs(seed | 1);
    for i in (1..v.len()).rev() {
        let j = r.below(i as u64 + 1) as usize;
        v.swap(i, j);
    }
    v
}

/// RankSelectPerformanceOps + the `*_optimized` inherent methods of the interleaved implementation
fn run_perf_ops(ctx: &mut Ctx, rs: &RankSelectInterleaved256, m: &Model, sfx: &str, seed: u64, cache: bool) {
    let n = m.n();
    let ones = m.ones.len();
    let ps = positions(n, 20_000, seed);
    for &p in &ps {
        let c = cls(if p == n { "p=len" } else { "p<len" }, sfx);
        let want = m.rank[p] as usize;
        if let Some(v) = call(ctx, "rank1_hardware_accelerated", &c, || rs.rank1_hardware_accelerated(p)) {
            chk(ctx, "rank1_hardware_accelerated", &c, v, want, || format!("p={p} n={n}"));
        }
        if let Some(v) = call(ctx, "rank1_adaptive", &c, || rs.rank1_adaptive(p)) {
            chk(ctx, "rank1_adaptive", &c, v, want, || format!("p={p} n={n}"));
        }
        if let Some(v) = call(ctx, "rank1_optimized", &c, || rs.rank1_optimized(p)) {
            chk(ctx, "rank1_optimized", &c, v, want, || format!("p={p} n={n}"));
        }
    }
    let ks = sel_ks(ones, if cache { linear_sel_cap(n) / 5 } else { 20_000 }, seed);
    for &k in &ks {
        let w = Some(m.ones[k] as usize);
        if let Some(r) = call(ctx, "select1_hardware_accelerated", &cls("k<ones", sfx), || rs.select1_hardware_accelerated(k)) {
            chk_sel(ctx, "select1_hardware_accelerated", sfx, "ones", r, w, || format!("k={k} ones={ones} n={n}"));
        }
        if let Some(r) = call(ctx, "select1_adaptive", &cls("k<ones", sfx), || rs.select1_adaptive(k)) {
            chk_sel(ctx, "select1_adaptive", sfx, "ones", r, w, || format!("k={k} ones={ones} n={n}"));
        }
        if let Some(r) = call(ctx, "select1_optimized", &cls("k<ones", sfx), || rs.select1_optimized(k)) {
            chk_sel(ctx, "select1_optimized", sfx, "ones", r, w, || format!("k={k} ones={ones} n={n}"));
        }
    }
    for k in bad_ks(ones) {
        if let Some(r) = call(ctx, "select1_hardware_accelerated", &cls("k>=ones", sfx), || rs.select1_hardware_accelerated(k)) {
            chk_sel(ctx, "select1_hardware_accelerated", sfx, "ones", r, None, || format!("k={k} ones={ones}"));
        }
        if let Some(r) = call(ctx, "select1_adaptive", &cls("k>=ones", sfx), || rs.select1_adaptive(k)) {
            chk_sel(ctx, "select1_adaptive", sfx, "ones", r, None, || format!("k={k} ones={ones}"));
        }
        if let Some(r) = call(ctx, "select1_optimized", &cls("k>=ones", sfx), || rs.select1_optimized(k)) {
            chk_sel(ctx, "select1_optimized", sfx, "ones", r, None, || format!("k={k} ones={ones}"));
        }
    }
    // bulk entry points, in a non-monotone order, batch sizes around the prefetch distance (8)
    let psh = shuffled(ps.clone(), seed);
    for take in [psh.len(), 1, 7, 8, 9, 17] {
        let sub = &psh[..take.min(psh.len())];
        let want: Vec<usize> = sub.iter().map(|&p| m.rank[p] as usize).collect();
        if let Some(v) = call(ctx, "rank1_bulk", sfx, || rs.rank1_bulk(sub)) {
            bulk_cmp(ctx, "rank1_bulk", sfx, &v, &want, sub, n);
        }
        if let Some(v) = call(ctx, "rank1_bulk_optimized", sfx, || rs.rank1_bulk_optimized(sub)) {
            bulk_cmp(ctx, "rank1_bulk_optimized", sfx, &v, &want, sub, n);
        }
    }
    if let Some(v) = call(ctx, "rank1_bulk", sfx, || rs.rank1_bulk(&[])) {
        chk(ctx, "rank1_bulk", &cls("empty", sfx), v.len(), 0, String::new);
    }
    let ksh = shuffled(ks.clone(), seed ^ 0x55);
    for take in [ksh.len(), 1, 8, 9] {
        let sub = &ksh[..take.min(ksh.len())];
        if let Some(r) = call(ctx, "select1_bulk", sfx, || rs.select1_bulk(sub)) {
            bulk_sel_cmp(ctx, "select1_bulk", sfx, r, sub, m);
        }
        if let Some(r) = call(ctx, "select1_bulk_optimized", sfx, || rs.select1_bulk_optimized(sub)) {
            bulk_sel_cmp(ctx, "select1_bulk_optimized", sfx, r, sub, m);
        }
    }
    // one index that does not exist anywhere in the batch => the whole call is an error
    let mut bad: Vec<usize> = ksh.iter().take(5).copied().collect();
    bad.insert(bad.len() / 2, ones);
    if let Some(r) = call(ctx, "select1_bulk", &cls("k>=ones", sfx), || rs.select1_bulk(&bad)) {
        ctx.out.checks += 1;
        if let Ok(v) = r {
            ctx.fail("select1_bulk", "mismatch", &cls("k>=ones", sfx), format!("indices {:?} (ones={ones}) answered {:?}", bad, v));
        }
    }
    if let Some(r) = call(ctx, "select1_bulk_optimized", &cls("k>=ones", sfx), || rs.select1_bulk_optimized(&bad)) {
        ctx.out.checks += 1;
        if let Ok(v) = r {
            ctx.fail("select1_bulk_optimized", "mismatch", &cls("k>=ones", sfx), format!("indices {:?} (ones={ones}) answered {:?}", bad, v));
        }
    }
}

fn run_two(ctx: &mut Ctx, a: &Bits, b: &Bits, build_a: Build, build_b: Build) {
    let ma = Model::new(a.expand());
    let mb = Model::new(b.expand());
    let cell = ctx.cell.clone();
    let Some(bva) = make_bv(ctx, &ma.bits, build_a, a.seed) else { return };
    let Some(bvb) = make_bv(ctx, &mb.bits, build_b, b.seed) else { return };
    match cell.as_str() {
        "mixed_dim0" | "mixed_dim1" => {
            let d = if cell == "mixed_dim0" { 0 } else { 1 };
            let (m, pat, build, other) = if d == 0 { (&ma, &a.pat, build_a, &mb) } else { (&mb, &b.pat, build_b, &ma) };
            describe(ctx, pat, Some(build), m);
            ctx.label(match m.n().cmp(&other.n()) {
                std::cmp::Ordering::Less => "this_dim:shorter",
                std::cmp::Ordering::Equal => "this_dim:same_len",
                std::cmp::Ordering::Greater => "this_dim:longer",
            });
            let sfx = build_sfx(build);
            let Some(rs) = built(ctx, sfx, || RankSelectMixedIL256::new(bva, bvb)) else { return };
            let q = Q { m, sfx, full: 400_000, sel_cap: 400_000, select0: false, seed: a.seed ^ b.seed };
            let view = if d == 0 { rs.dim0() } else { rs.dim1() };
            check_ops(ctx, &view, &q);
            // the direct per-dimension entry points
            let n = m.n();
            chk(ctx, "len", &cls("size_dim", sfx), rs.size_dim(d), n, String::new);
            chk(ctx, "count_ones", &cls("max_rank1_dim", sfx), rs.max_rank1_dim(d), m.ones.len(), String::new);
            for p in positions(n, 3000, a.seed) {
                let c = cls(if p == n { "p=len" } else { "p<len" }, sfx);
                if let Some(v) = call(ctx, "rank1_dim", &c, || rs.rank1_dim(d, p)) {
                    chk(ctx, "rank1_dim", &c, v, m.rank[p] as usize, || format!("p={p} n={n}"));
                }
                if let Some(v) = call(ctx, "rank0_dim", &c, || rs.rank0_dim(d, p)) {
                    chk(ctx, "rank0_dim", &c, v, p - m.rank[p] as usize, || format!("p={p} n={n}"));
                }
            }
        }
        "adaptive_multidim" => {
            // source comment (adaptive.rs new_dual): the structure answers for the *first* vector
            describe(ctx, &a.pat, Some(build_a), &ma);
            let sfx = build_sfx(build_a);
            let same = ma.n() == mb.n();
            match call(ctx, "construct", sfx, || AdaptiveMultiDimensional::new_dual(bva, bvb)) {
                Some(Ok(rs)) => {
                    ctx.label("new_dual:accepted");
                    if !same {
                        // documented as an error ("Bit vectors must have the same length"); not a C04 clause
                        ctx.label("new_dual:accepted_different_lengths");
                    }
                    chk(ctx, "dimensions", "", rs.dimensions(), 2, String::new);
                    let q = Q { m: &ma, sfx, full: 400_000, sel_cap: linear_sel_cap(ma.n()), select0: true, seed: a.seed };
                    check_ops(ctx, &rs, &q);
                }
                Some(Err(e)) => {
                    if same {
                        ctx.fail("construct", "err", sfx, format!("{e}"));
                    } else {
                        ctx.label("new_dual:refused_different_lengths");
                    }
                }
                None => {}
            }
        }
        other => ctx.skip(format!("unknown cell {other}")),
    }
}

fn run_multi_d<const D: usize>(ctx: &mut Ctx, ms: &[Model], bvs: Vec<BitVector>, sfx: &str, seed: u64) {
    let n = ms[0].n();
    let rs = match call(ctx, "construct", sfx, || MultiDimRankSelect::<D>::new(bvs)) {
        Some(Ok(rs)) => rs,
        Some(Err(e)) => {
            if n == 0 {
                ctx.label("empty:refused"); // documented: "Returns error if any dimension is empty"
            } else {
                ctx.fail("construct", "err", sfx, format!("{e}"));
            }
            return;
        }
        None => return,
    };
    chk(ctx, "len", sfx, rs.total_bits(), n, String::new);
    // bulk rank: one position per dimension
    let ps = positions(n, 4000, seed);
    for (j, &p) in ps.iter().enumerate() {
        let mut pos = [0usize; D];
        let mut want = [0usize; D];
        for d in 0..D {
            let pd = match d % 3 {
                0 => p,
                1 => n - p,
                _ => ps[(j * 7 + d) % ps.len()],
            };
            pos[d] = pd;
            want[d] = ms[d].rank[pd] as usize;
        }
        let at_len = pos.iter().any(|&x| x == n);
        let c = cls(if at_len { "some_p=len" } else { "all_p<len" }, sfx);
        if let Some(v) = call(ctx, "bulk_rank_multidim", &c, || rs.bulk_rank_multidim(&pos)) {
            chk(ctx, "bulk_rank_multidim", &c, v, want, || format!("positions={:?} n={n}", pos));
        }
    }
    // bulk select: valid in every dimension
    let min_ones = ms.iter().map(|m| m.ones.len()).min().unwrap_or(0);
    for k in sel_ks(min_ones, (linear_sel_cap(n) / (2 * D)).max(16), seed) {
        let mut ks = [0usize; D];
        let mut want = [0usize; D];
        for d in 0..D {
            let o = ms[d].ones.len();
            ks[d] = if d % 2 == 0 { k } else { o - 1 - k.min(o - 1) };
            want[d] = ms[d].ones[ks[d]] as usize;
        }
        if let Some(r) = call(ctx, "bulk_select_multidim", &cls("k<ones", sfx), || rs.bulk_select_multidim(&ks)) {
            ctx.out.checks += 1;
            match r {
                Ok(v) if v == want => {}
                Ok(v) => ctx.fail("bulk_select_multidim", "mismatch", &cls("k<ones", sfx), format!("ranks={:?}: got {:?} want {:?}", ks, v, want)),
                Err(e) => ctx.fail("bulk_select_multidim", "err", &cls("k<ones", sfx), format!("ranks={:?}: {e}", ks)),
            }
        }
    }
    // one dimension asked for a one that does not exist => error
    for bad_dim in 0..D {
        let mut ks = [0usize; D];
        for d in 0..D {
            ks[d] = if d == bad_dim { ms[d].ones.len() } else { 0 };
        }
        if let Some(r) = call(ctx, "bulk_select_multidim", &cls("k>=ones", sfx), || rs.bulk_select_multidim(&ks)) {
            ctx.out.checks += 1;
            if let Ok(v) = r {
                ctx.fail("bulk_select_multidim", "mismatch", &cls("k>=ones", sfx), format!("ranks={:?} ones={:?}: got Ok({:?})", ks, ms.iter().map(|m| m.ones.len()).collect::<Vec<_>>(), v));
            }
        }
    }
    // set operations, compared bit by bit and through the result's own len/count
    let cmp_bv = |ctx: &mut Ctx, aspect: &str, r: zipora::Result<BitVector>, want: Vec<bool>, what: String| match r {
        Err(e) => ctx.fail(aspect, "err", sfx, format!("{what}: {e}")),
        Ok(bv) => {
            chk(ctx, aspect, &cls("len", sfx), bv.len(), n, || what.clone());
            let cnt = want.iter().filter(|b| **b).count();
            chk(ctx, aspect, &cls("count_ones", sfx), bv.count_ones(), cnt, || what.clone());
            let got: Vec<bool> = (0..bv.len().min(n)).map(|i| bv.get(i).unwrap_or(false)).collect();
            if got.len() == n {
                let first = (0..n).find(|&i| got[i] != want[i]);
                chk(ctx, aspect, &cls("bits", sfx), first, None, || format!("{what}: first differing bit"));
            }
        }
    };
    for a in 0..D {
        for b in a..D {
            let want: Vec<bool> = (0..n).map(|i| ms[a].bits[i] && ms[b].bits[i]).collect();
            if let Some(r) = call(ctx, "intersect_dimensions", sfx, || rs.intersect_dimensions(a, b)) {
                cmp_bv(ctx, "intersect_dimensions", r, want, format!("dims ({a},{b}) n={n}"));
            }
        }
    }
    let mut subsets: Vec<Vec<usize>> = vec![(0..D).collect(), vec![0], vec![D - 1, 0], vec![D - 1, D - 1]];
    if D >= 3 {
        subsets.push(vec![1, 2]);
    }
    for s in subsets {
        let want: Vec<bool> = (0..n).map(|i| s.iter().any(|&d| ms[d].bits[i])).collect();
        if let Some(r) = call(ctx, "union_dimensions", sfx, || rs.union_dimensions(&s)) {
            cmp_bv(ctx, "union_dimensions", r, want, format!("dims {:?} n={n}", s));
        }
    }
}

fn run_multi(ctx: &mut Ctx, len: usize, dims: &[(Pat, u64)], build: Build) {
    let ms: Vec<Model> = dims.iter().map(|(p, s)| Model::new(expand(p, len, *s))).collect();
    if ms.is_empty() {
        return;
    }
    describe(ctx, &dims[0].0, Some(build), &ms[0]);
    if len >= 65 && ms.iter().any(|m| !m.ones.is_empty() && m.ones.len() < len) {
        ctx.nontrivial();
    }
    let mut bvs = vec![];
    for (i, m) in ms.iter().enumerate() {
        // only the first dimension uses the adversarial build mode; the others are pushed
        let mode = if i == 0 { build } else { Build::Push };
        let Some(bv) = make_bv(ctx, &m.bits, mode, dims[i].1) else { return };
        bvs.push(bv);
    }
    let sfx = build_sfx(build);
    let seed = dims[0].1;
    match ms.len() {
        2 => run_multi_d::<2>(ctx, &ms, bvs, sfx, seed),
        3 => run_multi_d::<3>(ctx, &ms, bvs, sfx, seed),
        4 => run_multi_d::<4>(ctx, &ms, bvs, sfx, seed),
        k => ctx.skip(format!("unsupported dimension count {k}")),
    }
}

fn run_trivial(ctx: &mut Ctx, len: usize) {
    let cell = ctx.cell.clone();
    let one = cell == "allone";
    let m = Model::new(vec![one; len]);
    ctx.label(len_label(len));
    if len >= 65 {
        ctx.nontrivial(); // 0 < ones < len is impossible for these two implementations
    }
    let q = Q { m: &m, sfx: "", full: 400_000, sel_cap: 400_000, select0: true, seed: len as u64 };
    if one {
        let rs = RankSelectAllOne::new(len);
        check_ops(ctx, &rs, &q);
        chk(ctx, "count_ones", "max_rank", (rs.max_rank1(), rs.max_rank0()), (len, 0), String::new);
    } else {
        let rs = RankSelectAllZero::new(len);
        check_ops(ctx, &rs, &q);
        chk(ctx, "count_ones", "max_rank", (rs.max_rank1(), rs.max_rank0()), (0, len), String::new);
    }
}

fn criteria(c: &Crit) -> SelectionCriteria {
    SelectionCriteria {
        sparse_threshold: [0.0, 0.05, 0.25, 1.0][c.sparse as usize % 4],
        dense_threshold: [0.0, 0.5, 0.9, 1.0][c.dense as usize % 4],
        small_dataset_threshold: [0usize, 100, 10_000, usize::MAX][c.small as usize % 4],
        large_dataset_threshold: 1_000_000,
        very_large_dataset_threshold: 100_000_000,
        access_pattern: [AccessPattern::Mixed, AccessPattern::RankHeavy, AccessPattern::SelectHeavy, AccessPattern::Sequential, AccessPattern::Random][c.access as usize % 5],
        enable_select_cache: c.flags & 1 != 0,
        prefer_space: c.flags & 2 != 0,
        enable_adaptive_thresholds: c.flags & 4 != 0,
        min_hardware_tier: c.tier % 5,
        pattern_complexity_weight: [0.0, 0.3, 1.0][c.w1 as usize % 3],
        clustering_weight: [0.0, 0.2, 1.0][c.w2 as usize % 3],
    }
}

fn run_adaptive(ctx: &mut Ctx, b: &Bits, build: Build, crit: &Option<Crit>) {
    let m = Model::new(b.expand());
    describe(ctx, &b.pat, Some(build), &m);
    let Some(bv) = make_bv(ctx, &m.bits, build, b.seed) else { return };
    let sfx = build_sfx(build);
    let rs = match crit {
        None => built(ctx, sfx, || AdaptiveRankSelect::new(bv)),
        Some(c) => {
            let cr = criteria(c);
            built(ctx, sfx, || AdaptiveRankSelect::with_criteria(bv, cr))
        }
    };
    let Some(rs) = rs else { return };
    // back-end / profile the library chose
    let name = rs.implementation_name().to_string();
    let short = name.split('(').nth(1).map(|s| s.trim_end_matches(')').to_string()).unwrap_or_else(|| name.clone());
    ctx.label(format!("backend:{}:{}", name.split(' ').next().unwrap_or("?"), short));
    // the profile's counts are "len/count_ones are exact" observables too
    let p = rs.data_profile();
    chk(ctx, "len", &cls("profile", sfx), p.total_bits, m.n(), String::new);
    chk(ctx, "count_ones", &cls("profile", sfx), p.ones_count, m.ones.len(), String::new);
    let q = Q { m: &m, sfx, full: 400_000, sel_cap: linear_sel_cap(m.n()), select0: true, seed: b.seed };
    check_ops(ctx, &rs, &q);
}

/// raw `&[u64]` entry points: the sequence is exactly 64 * words bits
fn run_raw_bulk(ctx: &mut Ctx, m: &Model, seed: u64) {
    use zipora::succinct::rank_select::{bulk_popcount_simd, bulk_rank1_simd, bulk_select1_simd};
    let n = m.n();
    let w = m.words();
    let ones = m.ones.len();
    // popcount per word
    let want_pc: Vec<usize> = w.iter().map(|x| x.count_ones() as usize).collect();
    if let Some(v) = call(ctx, "bulk_popcount", "", || bulk_popcount_simd(&w)) {
        chk(ctx, "bulk_popcount", "", v, want_pc, || format!("{} words", w.len()));
    }
    // rank: bulk_rank1 is O(n/64) per query
    let ps = shuffled(positions(n, 6000, seed), seed);
    for take in [ps.len(), 1, 4, 5, 9] {
        let sub = &ps[..take.min(ps.len())];
        let want: Vec<usize> = sub.iter().map(|&p| m.rank[p] as usize).collect();
        if let Some(v) = call(ctx, "bulk_rank1", "", || bulk_rank1_simd(&w, sub)) {
            bulk_cmp(ctx, "bulk_rank1", "", &v, &want, sub, n);
        }
    }
    if let Some(v) = call(ctx, "bulk_rank1", "", || bulk_rank1_simd(&w, &[])) {
        chk(ctx, "bulk_rank1", "empty", v.len(), 0, String::new);
    }
    // select: each query costs a binary search over O(n/64)-time ranks
    let ks = shuffled(sel_ks(ones, (2_000_000 / (n / 64 + 1)).clamp(32, 3000), seed), seed ^ 0xA5);
    for take in [ks.len(), 1, 4, 5] {
        let sub = &ks[..take.min(ks.len())];
        if sub.is_empty() {
            continue;
        }
        if let Some(r) = call(ctx, "bulk_select1", "k<ones", || bulk_select1_simd(&w, sub)) {
            bulk_sel_cmp(ctx, "bulk_select1", "", r, sub, m);
        }
    }
    if let Some(r) = call(ctx, "bulk_select1", "empty", || bulk_select1_simd(&w, &[])) {
        chk(ctx, "bulk_select1", "empty", r.map(|v| v.len()).ok(), Some(0), String::new);
    }
    for bad in [ones, ones + 1, ones + 64, usize::MAX] {
        let mut q: Vec<usize> = ks.iter().take(3).copied().collect();
        q.push(bad);
        if let Some(r) = call(ctx, "bulk_select1", "k>=ones", || bulk_select1_simd(&w, &q)) {
            ctx.out.checks += 1;
            if let Ok(v) = r {
                ctx.fail("bulk_select1", "mismatch", "k>=ones", format!("indices {:?} (ones={ones}) answered {:?}", q, v));
            }
        }
    }
}

/// in-word rank/select helpers and the word-array bulk helpers of the two bmi2 modules
fn run_bmi2(ctx: &mut Ctx, m: &Model, seed: u64) {
    use zipora::succinct::rank_select::bmi2_acceleration::{Bmi2AdvancedPatterns, Bmi2RangeOps, Bmi2RankOps, Bmi2SelectOps};
    use zipora::succinct::rank_select::bmi2_comprehensive::{Bmi2BitOps as CBitOps, Bmi2BlockOps as CBlockOps};
    use zipora::succinct::rank_select::Bmi2Accelerator;
    let n = m.n();
    let w = m.words();
    let ones = m.ones.len();
    let acc = Bmi2Accelerator::new();
    ctx.label(if acc.is_available() { "bmi2:available" } else { "bmi2:unavailable" });
    // ---- single words (a few, spread over the string)
    let mut r = Xs(seed | 1);
    let mut picks: Vec<usize> = vec![];
    if !w.is_empty() {
        picks.push(0);
        picks.push(w.len() - 1);
        for _ in 0..4 {
            picks.push(r.below(w.len() as u64) as usize);
        }
        picks.sort_unstable();
        picks.dedup();
    }
    for &wi in &picks {
        let word = w[wi];
        let pc = word.count_ones();
        let prefix = |p: u32| if p >= 64 { pc } else { (word & ((1u64 << p) - 1)).count_ones() };
        chk(ctx, "word_popcount", "", Bmi2RankOps::popcount_u64(word), pc, || format!("word={word:#x}"));
        for p in 0..=64u32 {
            let c = if p == 64 { "p=64" } else { "p<64" };
            if let Some(v) = call(ctx, "word_rank1", c, || acc.rank1(word, p)) {
                chk(ctx, "word_rank1", &format!("accelerator,{c}"), v, prefix(p), || format!("word={word:#x} p={p}"));
            }
            if let Some(v) = call(ctx, "word_rank1", c, || Bmi2RankOps::popcount_trail(word, p)) {
                chk(ctx, "word_rank1", &format!("popcount_trail,{c}"), v, prefix(p), || format!("word={word:#x} p={p}"));
            }
            if let Some(v) = call(ctx, "word_rank1", c, || CBitOps::rank1_optimized(word, p as usize)) {
                chk(ctx, "word_rank1", &format!("rank1_optimized,{c}"), v, prefix(p) as usize, || format!("word={word:#x} p={p}"));
            }
            // count_ones_range(word, start, len) over [p, p+len)
            for len in [0u32, 1, 7, 64 - p.min(64), 64] {
                let want = if p >= 64 { 0 } else { prefix((p + len).min(64)) - prefix(p) };
                if let Some(v) = call(ctx, "word_range_count", "", || Bmi2RangeOps::count_ones_range(word, p, len)) {
                    chk(ctx, "word_range_count", "", v, want, || format!("word={word:#x} start={p} len={len}"));
                }
            }
        }
        let pos1: Vec<u32> = (0..64).filter(|i| (word >> i) & 1 == 1).collect();
        let pos0: Vec<u32> = (0..64).filter(|i| (word >> i) & 1 == 0).collect();
        for k in 0..=66u32 {
            let want = pos1.get(k as usize).copied();
            let c = if (k as usize) < pos1.len() { "k<ones" } else if k < 64 { "k>=ones" } else { "k>=64" };
            if let Some(v) = call(ctx, "word_select1", c, || acc.select1(word, k)) {
                chk(ctx, "word_select1", &format!("accelerator,{c}"), v, want, || format!("word={word:#x} k={k}"));
            }
            if let Some(v) = call(ctx, "word_select1", c, || acc.select1_enhanced(word, k)) {
                chk(ctx, "word_select1", &format!("accelerator_enhanced,{c}"), v, want, || format!("word={word:#x} k={k}"));
            }
            if let Some(v) = call(ctx, "word_select1", c, || Bmi2SelectOps::select1_u64(word, k)) {
                chk(ctx, "word_select1", &format!("select1_u64,{c}"), v, want, || format!("word={word:#x} k={k}"));
            }
            if let Some(v) = call(ctx, "word_select1", c, || Bmi2SelectOps::select1_u64_enhanced(word, k)) {
                chk(ctx, "word_select1", &format!("select1_u64_enhanced,{c}"), v, want, || format!("word={word:#x} k={k}"));
            }
            if let Some(v) = call(ctx, "word_select1", c, || Bmi2AdvancedPatterns::pdep_ctz_select(word, k)) {
                chk(ctx, "word_select1", &format!("pdep_ctz_select,{c}"), v, want, || format!("word={word:#x} k={k}"));
            }
            // the comprehensive module counts ones from 1 (its own unit tests: select1_fallback(0b1010.., 1) == Some(1))
            let want1 = want.map(|x| x as usize);
            if let Some(v) = call(ctx, "word_select1", c, || CBitOps::select1_ultra_fast(word, k as usize + 1)) {
                chk(ctx, "word_select1", &format!("select1_ultra_fast,{c}"), v, want1, || format!("word={word:#x} rank={}", k + 1));
            }
            if let Some(v) = call(ctx, "word_select1", c, || CBitOps::select1_fallback(word, k as usize + 1)) {
                chk(ctx, "word_select1", &format!("select1_fallback,{c}"), v, want1, || format!("word={word:#x} rank={}", k + 1));
            }
            let want0 = pos0.get(k as usize).copied();
            let c0 = if (k as usize) < pos0.len() { "k<zeros" } else if k < 64 { "k>=zeros" } else { "k>=64" };
            if let Some(v) = call(ctx, "word_select0", c0, || Bmi2SelectOps::select0_u64(word, k)) {
                chk(ctx, "word_select0", c0, v, want0, || format!("word={word:#x} k={k}"));
            }
        }
        // all valid indices of this word at once
        let all: Vec<u32> = (0..pc).collect();
        if pc > 0 {
            if let Some(rr) = call(ctx, "word_select1_bulk", "", || Bmi2AdvancedPatterns::pdep_ctz_select_bulk(word, &all)) {
                chk(ctx, "word_select1_bulk", "k<ones", rr.ok(), Some(pos1.clone()), || format!("word={word:#x}"));
            }
            if let Some(rr) = call(ctx, "word_select1_bulk", "", || Bmi2AdvancedPatterns::pdep_ctz_select_bulk(word, &[0, pc])) {
                chk(ctx, "word_select1_bulk", "k>=ones", rr.is_err(), true, || format!("word={word:#x}"));
            }
        }
    }
    // ---- word arrays
    let want_pc: Vec<u32> = w.iter().map(|x| x.count_ones()).collect();
    if let Some(v) = call(ctx, "popcount_bulk", "", || Bmi2RankOps::popcount_bulk(&w)) {
        chk(ctx, "popcount_bulk", "", v, want_pc, || format!("{} words", w.len()));
    }
    let ps = shuffled(positions(n, 4000, seed), seed);
    let want: Vec<usize> = ps.iter().map(|&p| m.rank[p] as usize).collect();
    if let Some(v) = call(ctx, "rank_bulk", "", || acc.rank_bulk(&w, &ps)) {
        bulk_cmp(ctx, "rank_bulk", "", &v, &want, &ps, n);
    }
    let ks = shuffled(sel_ks(ones, (1_000_000 / (n / 64 + 1)).clamp(32, 2000), seed), seed ^ 0x3C);
    if !ks.is_empty() {
        if let Some(rr) = call(ctx, "select_bulk", "k<ones", || acc.select_bulk(&w, &ks)) {
            bulk_sel_cmp(ctx, "select_bulk", "accelerator", rr, &ks, m);
        }
        let k32: Vec<u32> = ks.iter().map(|&k| k as u32).collect();
        if let Some(rr) = call(ctx, "select_bulk", "k<ones", || Bmi2SelectOps::select1_bulk(&w, &k32)) {
            bulk_sel_cmp(ctx, "select_bulk", "select1_bulk", rr.map(|v| v.into_iter().map(|x| x as usize).collect()), &ks, m);
        }
        let k1: Vec<usize> = ks.iter().map(|&k| k + 1).collect();
        if let Some(rr) = call(ctx, "select_bulk", "k<ones", || CBlockOps::bulk_select1(&w, &k1)) {
            bulk_sel_cmp(ctx, "select_bulk", "comprehensive_1based", rr, &ks, m);
        }
    }
    for bad in [ones, ones + 1, ones + 64] {
        let q = vec![bad];
        if let Some(rr) = call(ctx, "select_bulk", "k>=ones", || acc.select_bulk(&w, &q)) {
            chk(ctx, "select_bulk", "accelerator,k>=ones", rr.is_err(), true, || format!("k={bad} ones={ones}"));
        }
        if bad <= u32::MAX as usize {
            if let Some(rr) = call(ctx, "select_bulk", "k>=ones", || Bmi2SelectOps::select1_bulk(&w, &[bad as u32])) {
                chk(ctx, "select_bulk", "select1_bulk,k>=ones", rr.is_err(), true, || format!("k={bad} ones={ones}"));
            }
        }
        if let Some(rr) = call(ctx, "select_bulk", "k>=ones", || CBlockOps::bulk_select1(&w, &[bad + 1])) {
            chk(ctx, "select_bulk", "comprehensive_1based,k>=ones", rr.is_err(), true, || format!("rank={} ones={ones}", bad + 1));
        }
    }
}

fn run_words(ctx: &mut Ctx, b: &Bits) {
    // whole words only: the pattern is expanded over the padded length
    let n = (b.len + 63) / 64 * 64;
    let m = Model::new(expand(&b.pat, n, b.seed));
    describe(ctx, &b.pat, None, &m);
    match ctx.cell.clone().as_str() {
        "raw_bulk" => run_raw_bulk(ctx, &m, b.seed),
        "bmi2" => run_bmi2(ctx, &m, b.seed),
        other => ctx.skip(format!("unknown cell {other}")),
    }
}

// ---------------------------------------------------------------------------------------
// the property
// ---------------------------------------------------------------------------------------

impl Prop for P {
    fn id(&self) -> &'static str {
        "C04"
    }
    fn rule(&self) -> &'static str {
        "bit strings are generated as (length, pattern class, seed) and expanded in the worker: lengths 0-3, 0-130, k*B+{-1,0,1} for B in {64,256,512,2048} (k=1..4) and B=65536 (k=1..2 quick / 1..4 thorough), uniform up to 5000 (quick) / 300000 (thorough); patterns all-0, all-1, 1-200 isolated ones/zeros, densities 0.1%/1%/50%/99%/99.9%/uniform, geometric runs, alternating words, periodic, ones at block edges, first/last bit only, raw words; the BitVector is produced by push, from_raw_bits with dirty padding, with_size+set, push-then-resize-down, or push-then-pop; every position 0..=len (sampled above a per-cell threshold) and every select index (sampled when select is linear) plus indices >= count are queried and compared with prefix sums of the expanded Vec<bool>. non-trivial = len >= 65 and 0 < ones < len (allzero/allone: len >= 65); distinct by hash of the case JSON"
    }
    fn assumptions(&self) -> Vec<String> {
        vec![
            "rank queries with p > len are not generated (outside the statement)".into(),
            "select_sample_rate = 0 is not generated for RankSelectInterleaved256::with_options / BuilderOptions (API silent; it divides by the rate)".into(),
            "RankSelectFew*::new is only given strictly increasing in-range positions (its documented precondition)".into(),
            "select0 is not asserted for the mixed two-dimension views (not offered: always Err)".into(),
            "AdaptiveMultiDimensional is compared with its first bit vector (source comment in new_dual); a refusal of different lengths is allowed".into(),
            "raw &[u64] entry points treat the data as exactly 64*words bits; bmi2_comprehensive select ranks are 1-based (its unit tests); bmi2_comprehensive::Bmi2BlockOps::bulk_rank1 (undocumented, returns in-word ranks) is not asserted".into(),
            "MultiDimRankSelect::new may refuse empty dimensions (documented); construction Err for any other ordinary bit string is reported".into(),
            "quick tier runs at the native CPU tier only (no SIMD tier cap hook yet)".into(),
        ]
    }
    fn tier_caps(&self) -> Vec<(&'static str, f64)> {
        // hook H2: the same generated cases also run with run-time CPU detection capped
        vec![("scalar", 0.12), ("sse42", 0.12), ("avx2", 0.12)]
    }
    fn plans(&self, tier: Tier) -> Vec<Plan> {
        let q = |a, b| tier.pick(a, b);
        let mut v = vec![];
        for cell in ONE_CELLS {
            let (cases, cases_b) = match *cell {
                "il256_new" | "bitvector" | "perf_ops_cache" => (q(1600, 30_000), q(120, 3000)),
                _ => (q(1000, 20_000), q(80, 2000)),
            };
            v.push(Plan::new(cell, cases, cases_b, one(tier)));
        }
        v.push(Plan::new("allzero", q(400, 6000), 0, len_strategy(tier).prop_map(|len| Case::Trivial { len })));
        v.push(Plan::new("allone", q(400, 6000), 0, len_strategy(tier).prop_map(|len| Case::Trivial { len })));
        v.push(Plan::new("mixed_dim0", q(1000, 20_000), q(80, 2000), two(tier, false)));
        v.push(Plan::new("mixed_dim1", q(1000, 20_000), q(80, 2000), two(tier, false)));
        v.push(Plan::new(
            "adaptive_new",
            q(1200, 24_000),
            q(80, 2000),
            (bits_strategy(tier), build_strategy()).prop_map(|(b, build)| Case::Adaptive { b, build, crit: None }),
        ));
        v.push(Plan::new(
            "adaptive_criteria",
            q(1200, 24_000),
            q(80, 2000),
            (bits_strategy(tier), build_strategy(), crit_strategy()).prop_map(|(b, build, c)| Case::Adaptive { b, build, crit: Some(c) }),
        ));
        v.push(Plan::new(
            "adaptive_multidim",
            q(800, 16_000),
            q(60, 1500),
            prop_oneof![4 => two(tier, true), 1 => two(tier, false)],
        ));
        v.push(Plan::new("multidim2", q(700, 14_000), q(60, 1500), multi(tier, 2)));
        v.push(Plan::new("multidim3", q(600, 12_000), q(50, 1200), multi(tier, 3)));
        v.push(Plan::new("multidim4", q(600, 12_000), q(50, 1200), multi(tier, 4)));
        v.push(Plan::new("raw_bulk", q(1500, 30_000), q(120, 3000), bits_strategy(tier).prop_map(|b| Case::Words { b })));
        v.push(Plan::new("bmi2", q(1200, 24_000), q(100, 2500), bits_strategy(tier).prop_map(|b| Case::Words { b })));
        v
    }

    fn run(&self, case: &Value, ctx: &mut Ctx) {
        let c: Case = decode(case);
        match c {
            Case::One { b, build, opt } => run_one(ctx, &b, build, opt),
            Case::Two { a, b, build_a, build_b } => run_two(ctx, &a, &b, build_a, build_b),
            Case::Multi { len, dims, build } => run_multi(ctx, len, &dims, build),
            Case::Trivial { len } => run_trivial(ctx, len),
            Case::Adaptive { b, build, crit } => run_adaptive(ctx, &b, build, &crit),
            Case::Words { b } => run_words(ctx, &b),
        }
    }
}
