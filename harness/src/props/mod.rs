//! One module per property; each exposes `pub struct P;` implementing `engine::Prop`.
use crate::engine::Prop;

macro_rules! props {
    ($( $feat:literal $m:ident ),* $(,)?) => {
        $( #[cfg(feature = $feat)] pub mod $m; )*
        pub fn all() -> Vec<Box<dyn Prop>> {
            let mut v: Vec<Box<dyn Prop>> = vec![];
            $( #[cfg(feature = $feat)] v.push(Box::new($m::P)); )*
            v
        }
    };
}

props! {
    "c01" c01,
    "c02" c02,
    "c03" c03,
    "c04" c04,
    "c05" c05,
    "c06" c06,
    "c07" c07,
    "c08" c08,
    "c09" c09,
    "c10" c10,
    "c11" c11,
    "c12" c12,
    "c13" c13,
    "c14" c14,
    "c15" c15,
    "c16" c16,
    "c17" c17,
    "c18" c18,
    "c19" c19,
    "c20" c20,
}
