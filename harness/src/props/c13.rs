//! C13 — serialised values decode to themselves and consume exactly their own bytes.
//!
//! Oracles: round-trip (decode(encode(v)) == (v, |encode(v)|)), the concatenation law
//! (sequential decode of concatenated encodings using only the reported consumed counts),
//! `encoded_len` == actual length, scalar == SIMD bytes, and for the stream wrappers a
//! byte-exact comparison with the plain slice restricted to the requested range.

use crate::engine::{decode, try_call, Ctx, Plan, Prop, Tier};
use crate::gen::{i64_boundary, idx, u64_boundary, Bytes};
use proptest::prelude::*;
use serde::{Deserialize, Serialize};
use serde_json::Value;
use std::io::{Read, Write};
use zipora::io::{
    DataInput, DataOutput, EndianConvert, EndianIO, Endianness, SignedVarInt, VarInt, VarIntEncoder, VarIntStrategy,
};

pub struct P;

#[derive(Clone, Debug, Serialize, Deserialize)]
pub enum Item {
    U8(u8),
    U16(u16),
    U32(u32),
    U64(u64),
    Var(u64),
    Bytes(Bytes),
    LpBytes(Bytes),
    Str(String),
    LpStr(String),
}

#[derive(Clone, Debug, Serialize, Deserialize)]
pub enum Cx {
    Tuple2(u32, String),
    Tuple3(u8, i64, Vec<u16>),
    Tuple12(u8, u16, u32, u64, i8, i16, i32, i64, bool, String, Vec<u8>, Vec<String>),
    Arr4([u32; 4]),
    Arr0,
    OptStr(Option<String>),
    ResU64Str(Result<u64, String>),
    HashMapU32Str(Vec<(u32, String)>),
    HashSetI64(Vec<i64>),
    BTreeMapStrVecU64(Vec<(String, Vec<u64>)>),
    BTreeSetU16(Vec<u16>),
    VecVecStr(Vec<Vec<String>>),
    OptVecOpt(Option<Vec<Option<u32>>>),
    Batch(Vec<(u32, String)>),
}

#[derive(Clone, Debug, Serialize, Deserialize)]
pub enum Case {
    VarInt { vals: Vec<u64>, svals: Vec<i64> },
    Strategy { strat: u8, u: Vec<u64>, i: Vec<i64> },
    Simd { vals: Vec<u64> },
    DataIo { backend: u8, items: Vec<Item>, chunks: Vec<u8> },
    Endian { a: u64, b: u64, v16: Vec<u16>, v32: Vec<u32>, v64: Vec<u64> },
    Complex { cfg: u8, v: Cx },
    SmartPtr { kind: u8, a: u32, s: String, v: Vec<u64> },
    Range { data: Bytes, start: u16, len: u16, chunks: Vec<u8>, via_seek: bool },
    StreamBuf { data: Bytes, cfg: u8, reads: Vec<u16>, chunks: Vec<u8>, mode: u8 },
    Versioned { wmaj: u8, wmin: u8, fmaj: u8, fmin: u8, rmaj: u8, rmin: u8, val: u64, s: String },
}

// ---------------------------------------------------------------------------------------
// generators
// ---------------------------------------------------------------------------------------

fn u64_seq(max: usize) -> BoxedStrategy<Vec<u64>> {
    let len = prop_oneof![3 => 0usize..=9, 2 => 0usize..=max, 1 => Just(4usize), 1 => Just(8usize)];
    prop_oneof![
        3 => len.clone().prop_flat_map(|n| proptest::collection::vec(u64_boundary(), n)),
        // sorted with small gaps
        2 => (len.clone(), any::<u64>(), 0u32..40).prop_flat_map(|(n, base, sh)| {
            proptest::collection::vec(0u64..64, n).prop_map(move |gaps| {
                let mut cur = base >> sh;
                gaps.iter().map(|g| { cur = cur.saturating_add(*g); cur }).collect()
            })
        }),
        // alternating extremes / huge first difference / decreasing
        1 => len.clone().prop_map(|n| (0..n).map(|i| if i % 2 == 0 { u64::MAX } else { 0 }).collect()),
        1 => len.clone().prop_map(|n| (0..n).map(|i| if i == 0 { 0 } else { u64::MAX - i as u64 }).collect()),
        1 => (len.clone(), any::<u64>()).prop_map(|(n, b)| (0..n).map(|i| b.wrapping_sub((i as u64).wrapping_mul(b / 7 + 1))).collect()),
        1 => len.prop_flat_map(|n| proptest::collection::vec(any::<u64>(), n)),
    ]
    .boxed()
}

fn i64_seq(max: usize) -> BoxedStrategy<Vec<i64>> {
    prop_oneof![
        3 => (0usize..=max.min(12)).prop_flat_map(|n| proptest::collection::vec(i64_boundary(), n)),
        2 => u64_seq(max).prop_map(|v| v.into_iter().map(|x| x as i64).collect()),
        1 => (0usize..=max).prop_map(|n| (0..n).map(|i| if i % 2 == 0 { i64::MAX } else { i64::MIN }).collect()),
        1 => (0usize..=max).prop_flat_map(|n| proptest::collection::vec(-1000i64..1000, n)),
    ]
    .boxed()
}

fn small_string() -> BoxedStrategy<String> {
    prop_oneof![
        3 => "[a-zA-Z0-9 ]{0,12}",
        2 => "\\PC{0,20}",
        1 => (120usize..140).prop_map(|n| "é".repeat(n / 2)),
        1 => (125usize..132).prop_map(|n| "x".repeat(n)),
        1 => Just(String::new()),
    ]
    .boxed()
}

fn small_bytes(max: usize) -> BoxedStrategy<Bytes> {
    prop_oneof![
        3 => proptest::collection::vec(any::<u8>(), 0..=max.min(16)),
        1 => proptest::collection::vec(any::<u8>(), 0..=max),
        1 => (126usize..131).prop_map(|n| vec![0xAB; n]),
    ]
    .prop_map(Bytes)
    .boxed()
}

fn item() -> BoxedStrategy<Item> {
    prop_oneof![
        any::<u8>().prop_map(Item::U8),
        any::<u16>().prop_map(Item::U16),
        any::<u32>().prop_map(Item::U32),
        u64_boundary().prop_map(Item::U64),
        u64_boundary().prop_map(Item::Var),
        small_bytes(300).prop_map(Item::Bytes),
        small_bytes(300).prop_map(Item::LpBytes),
        small_string().prop_map(Item::Str),
        small_string().prop_map(Item::LpStr),
    ]
    .boxed()
}

fn chunks() -> BoxedStrategy<Vec<u8>> {
    prop_oneof![
        2 => proptest::collection::vec(1u8..=3, 1..8),
        2 => proptest::collection::vec(1u8..=255, 1..8),
        1 => Just(vec![1u8]),
        1 => Just(vec![255u8]),
    ]
    .boxed()
}

fn cx() -> BoxedStrategy<Cx> {
    let s = small_string;
    prop_oneof![
        (any::<u32>(), s()).prop_map(|(a, b)| Cx::Tuple2(a, b)),
        (any::<u8>(), i64_boundary(), proptest::collection::vec(any::<u16>(), 0..6)).prop_map(|(a, b, c)| Cx::Tuple3(a, b, c)),
        (
            (any::<u8>(), any::<u16>(), any::<u32>(), u64_boundary(), any::<i8>(), any::<i16>()),
            (any::<i32>(), i64_boundary(), any::<bool>(), s(), proptest::collection::vec(any::<u8>(), 0..5), proptest::collection::vec(s(), 0..3))
        )
            .prop_map(|((a, b, c, d, e, f), (g, h, i, j, k, l))| Cx::Tuple12(a, b, c, d, e, f, g, h, i, j, k, l)),
        any::<[u32; 4]>().prop_map(Cx::Arr4),
        Just(Cx::Arr0),
        proptest::option::of(s()).prop_map(Cx::OptStr),
        prop_oneof![u64_boundary().prop_map(Ok), s().prop_map(Err)].prop_map(Cx::ResU64Str),
        proptest::collection::vec((0u32..8, s()), 0..8).prop_map(Cx::HashMapU32Str),
        proptest::collection::vec(i64_boundary(), 0..8).prop_map(Cx::HashSetI64),
        proptest::collection::vec((s(), proptest::collection::vec(u64_boundary(), 0..4)), 0..5).prop_map(Cx::BTreeMapStrVecU64),
        proptest::collection::vec(any::<u16>(), 0..10).prop_map(Cx::BTreeSetU16),
        proptest::collection::vec(proptest::collection::vec(s(), 0..3), 0..4).prop_map(Cx::VecVecStr),
        proptest::option::of(proptest::collection::vec(proptest::option::of(any::<u32>()), 0..5)).prop_map(Cx::OptVecOpt),
        proptest::collection::vec((any::<u32>(), s()), 0..5).prop_map(Cx::Batch),
    ]
    .boxed()
}

const STRATS: &[(&str, VarIntStrategy)] = &[
    ("leb128", VarIntStrategy::Leb128),
    ("zigzag", VarIntStrategy::Zigzag),
    ("delta", VarIntStrategy::Delta),
    ("group_varint", VarIntStrategy::GroupVarint),
    ("prefix_free", VarIntStrategy::PrefixFree),
    ("compact", VarIntStrategy::Compact),
    ("simd", VarIntStrategy::Simd),
];

// ---------------------------------------------------------------------------------------
// helpers
// ---------------------------------------------------------------------------------------

/// `Read` adaptor that returns at most the next generated chunk size per call.
struct Chunked<'a> {
    data: &'a [u8],
    pos: usize,
    chunks: &'a [u8],
    ci: usize,
}
impl<'a> Read for Chunked<'a> {
    fn read(&mut self, buf: &mut [u8]) -> std::io::Result<usize> {
        if buf.is_empty() || self.pos >= self.data.len() {
            return Ok(0);
        }
        let c = if self.chunks.is_empty() { 255 } else { self.chunks[self.ci % self.chunks.len()].max(1) } as usize;
        self.ci += 1;
        let n = c.min(buf.len()).min(self.data.len() - self.pos);
        buf[..n].copy_from_slice(&self.data[self.pos..self.pos + n]);
        self.pos += n;
        Ok(n)
    }
}

fn write_items<O: DataOutput>(o: &mut O, items: &[Item]) -> zipora::Result<()> {
    for it in items {
        match it {
            Item::U8(v) => o.write_u8(*v)?,
            Item::U16(v) => o.write_u16(*v)?,
            Item::U32(v) => o.write_u32(*v)?,
            Item::U64(v) => o.write_u64(*v)?,
            Item::Var(v) => o.write_var_int(*v)?,
            Item::Bytes(b) => o.write_bytes(&b.0)?,
            Item::LpBytes(b) => o.write_length_prefixed_bytes(&b.0)?,
            Item::Str(s) => o.write_string(s)?,
            Item::LpStr(s) => o.write_length_prefixed_string(s)?,
        }
    }
    o.flush()
}

/// reads the items back and compares; returns false on first divergence
fn read_items<I: DataInput>(ctx: &mut Ctx, i: &mut I, items: &[Item], aspect: &str) -> bool {
    for (n, it) in items.iter().enumerate() {
        let ok = match it {
            Item::U8(v) => cmp_res(ctx, aspect, "u8", i.read_u8(), v),
            Item::U16(v) => cmp_res(ctx, aspect, "u16", i.read_u16(), v),
            Item::U32(v) => cmp_res(ctx, aspect, "u32", i.read_u32(), v),
            Item::U64(v) => cmp_res(ctx, aspect, "u64", i.read_u64(), v),
            Item::Var(v) => cmp_res(ctx, aspect, "var_int", i.read_var_int(), v),
            Item::Bytes(b) => cmp_res(ctx, aspect, "bytes", i.read_vec(b.len()), &b.0),
            Item::LpBytes(b) => cmp_res(ctx, aspect, "lp_bytes", i.read_length_prefixed_bytes(), &b.0),
            Item::Str(s) => cmp_res(ctx, aspect, "string", i.read_string(s.len()), s),
            Item::LpStr(s) => cmp_res(ctx, aspect, "lp_string", i.read_length_prefixed_string(), s),
        };
        if !ok {
            ctx.label(format!("diverged_at_item_{}", n.min(3)));
            return false;
        }
    }
    true
}

fn cmp_res<T: PartialEq + std::fmt::Debug>(ctx: &mut Ctx, aspect: &str, class: &str, got: zipora::Result<T>, want: &T) -> bool {
    match got {
        Ok(g) => ctx.eq(aspect, class, &g, want),
        Err(e) => {
            ctx.fail(aspect, "err", class, format!("decode of freshly encoded data failed: {e}"));
            false
        }
    }
}

macro_rules! endian_rt {
    ($ctx:expr, $t:ty, $v:expr) => {{
        let v: $t = $v;
        $ctx.eq("endian_roundtrip", stringify!($t), &<$t as EndianConvert>::from_le(v.to_le()), &v);
        $ctx.eq("endian_roundtrip", stringify!($t), &<$t as EndianConvert>::from_be(EndianConvert::to_be(v)), &v);
        $ctx.eq("endian_to_be", stringify!($t), &EndianConvert::to_be(v), &<$t>::from_ne_bytes(v.to_be_bytes()));
        $ctx.eq("endian_to_le", stringify!($t), &EndianConvert::to_le(v), &<$t>::from_ne_bytes(v.to_le_bytes()));
        for e in [Endianness::Little, Endianness::Big, Endianness::Native] {
            $ctx.eq("endian_roundtrip", stringify!($t), &v.to_endian(e).from_endian(e), &v);
            let io = EndianIO::<$t>::new(e);
            let mut buf = [0u8; 16];
            match io.write_to_bytes(v, &mut buf) {
                Ok(()) => {
                    let want: Vec<u8> = match e {
                        Endianness::Little => v.to_le_bytes().to_vec(),
                        Endianness::Big => v.to_be_bytes().to_vec(),
                        _ => v.to_ne_bytes().to_vec(),
                    };
                    $ctx.eq("endian_io_bytes", stringify!($t), &buf[..want.len()].to_vec(), &want);
                    match io.read_from_bytes(&buf) {
                        Ok(r) => {
                            $ctx.eq("endian_io_roundtrip", stringify!($t), &r, &v);
                        }
                        Err(err) => $ctx.fail("endian_io_roundtrip", "err", stringify!($t), format!("{err}")),
                    }
                }
                Err(err) => $ctx.fail("endian_io_roundtrip", "err", stringify!($t), format!("{err}")),
            }
        }
    }};
}

fn cx_roundtrip<T>(ctx: &mut Ctx, name: &str, cfg: u8, v: &T)
where
    T: zipora::io::ComplexSerialize + PartialEq + std::fmt::Debug,
{
    use zipora::io::{ComplexTypeConfig, ComplexTypeSerializer};
    let config = match cfg % 5 {
        0 => ComplexTypeConfig::new(),
        1 => ComplexTypeConfig::safe(),
        2 => ComplexTypeConfig::fast(),
        3 => ComplexTypeConfig::compact(),
        _ => ComplexTypeConfig::compatible(),
    };
    let ser = ComplexTypeSerializer::new(config);
    let Some(enc) = ctx.no_panic("complex_serialize", || ser.serialize_to_bytes(v)) else { return };
    let Ok(bytes) = enc else { ctx.label("encode_refused"); return };
    match ctx.no_panic("complex_roundtrip", || ser.deserialize_from_bytes::<T>(&bytes)) {
        Some(Ok(back)) => {
            ctx.eq("complex_roundtrip", name, &back, v);
        }
        Some(Err(e)) => ctx.fail("complex_roundtrip", "err", name, format!("{e}")),
        None => {}
    }
    // raw trait round trip + exact consumption (concatenation law): value, sentinel, value
    let mut out = zipora::io::VecDataOutput::new();
    if v.serialize_with_metadata(&mut out).is_ok() {
        let one = out.len();
        let _ = out.write_u32(0xDEADBEEF);
        let _ = v.serialize_with_metadata(&mut out);
        let buf = out.into_vec();
        let mut inp = zipora::io::SliceDataInput::new(&buf);
        let r1 = ctx.no_panic("complex_consumed", || T::deserialize_with_metadata(&mut inp));
        if let Some(Ok(a)) = r1 {
            ctx.eq("complex_roundtrip", name, &a, v);
            ctx.eq("complex_consumed", name, &inp.pos(), &one);
            if inp.pos() == one {
                let s = inp.read_u32().ok();
                ctx.eq("complex_consumed", name, &s, &Some(0xDEADBEEF));
                if let Some(Ok(b)) = ctx.no_panic("complex_consumed", || T::deserialize_with_metadata(&mut inp)) {
                    ctx.eq("complex_roundtrip", name, &b, v);
                    ctx.eq("complex_consumed", name, &inp.remaining(), &0usize);
                }
            }
        } else if let Some(Err(e)) = r1 {
            ctx.fail("complex_roundtrip", "err", name, format!("{e}"));
        }
    }
}

// ---------------------------------------------------------------------------------------
// the property
// ---------------------------------------------------------------------------------------

impl Prop for P {
    fn id(&self) -> &'static str {
        "C13"
    }
    fn rule(&self) -> &'static str {
        "proptest strategies per cell (varint, each VarIntStrategy, SIMD varint, DataOutput->DataInput over Vec/slice, chunked std::io reader, file+mmap, endian, complex types, smart pointers, range/buffered streams, versioned fields); values biased to 2^(7k)+-1, 2^63, MAX/MIN; non-trivial = some value needs >= 2 bytes or a sequence of >= 3 values / >= 3 typed items; distinct by hash of the case JSON"
    }
    fn assumptions(&self) -> Vec<String> {
        vec![
            "encoders returning Err are counted as 'encoding refused', not as violations".into(),
            "HashMap/HashSet results are compared as maps/sets (iteration order not asserted)".into(),
        ]
    }
    fn tier_caps(&self) -> Vec<(&'static str, f64)> {
        // hook H2: the same generated cases also run with run-time CPU detection capped
        vec![("scalar", 0.1), ("sse42", 0.1), ("avx2", 0.1)]
    }
    fn plans(&self, tier: Tier) -> Vec<Plan> {
        let q = |a, b| tier.pick(a, b);
        let seq_max = q(60, 400);
        let mut v = vec![];
        v.push(Plan::new("varint", q(4000, 100_000), q(300, 5000), (u64_seq(seq_max), i64_seq(seq_max)).prop_map(|(vals, svals)| Case::VarInt { vals, svals })));
        for (si, (name, _)) in STRATS.iter().enumerate() {
            v.push(Plan::new(
                &format!("strategy_{name}"),
                q(2500, 60_000),
                q(200, 4000),
                (u64_seq(seq_max), i64_seq(seq_max)).prop_map(move |(u, i)| Case::Strategy { strat: si as u8, u, i }),
            ));
        }
        v.push(Plan::new("simd_varint", q(4000, 100_000), q(400, 8000), u64_seq(seq_max).prop_map(|vals| Case::Simd { vals })));
        for (b, name) in ["data_io_vec", "data_io_reader", "data_io_file"].iter().enumerate() {
            v.push(Plan::new(
                name,
                q(if b == 2 { 800 } else { 2500 }, 40_000),
                q(150, 3000),
                (proptest::collection::vec(item(), 0..14), chunks()).prop_map(move |(items, chunks)| Case::DataIo { backend: b as u8, items, chunks }),
            ));
        }
        v.push(Plan::new(
            "endian",
            q(2500, 50_000),
            q(200, 3000),
            (
                u64_boundary(),
                any::<u64>(),
                proptest::collection::vec(any::<u16>(), 0..70),
                proptest::collection::vec(any::<u32>(), 0..40),
                proptest::collection::vec(any::<u64>(), 0..20),
            )
                .prop_map(|(a, b, v16, v32, v64)| Case::Endian { a, b, v16, v32, v64 }),
        ));
        v.push(Plan::new("complex", q(4000, 80_000), q(300, 5000), (any::<u8>(), cx()).prop_map(|(cfg, v)| Case::Complex { cfg, v })));
        v.push(Plan::new(
            "smart_ptr",
            q(2000, 40_000),
            q(300, 5000),
            (0u8..8, any::<u32>(), small_string(), proptest::collection::vec(u64_boundary(), 0..6)).prop_map(|(kind, a, s, v)| Case::SmartPtr { kind, a, s, v }),
        ));
        v.push(Plan::new(
            "range_stream",
            q(2500, 50_000),
            q(200, 3000),
            (small_bytes(600), any::<u16>(), any::<u16>(), chunks(), any::<bool>()).prop_map(|(data, start, len, chunks, via_seek)| Case::Range { data, start, len, chunks, via_seek }),
        ));
        v.push(Plan::new(
            "stream_buffer",
            q(2000, 40_000),
            q(200, 3000),
            (
                prop_oneof![small_bytes(600), (0usize..70_000).prop_map(|n| Bytes((0..n).map(|i| (i * 7 + i / 251) as u8).collect()))],
                0u8..4,
                proptest::collection::vec(any::<u16>(), 1..12),
                chunks(),
                0u8..4,
            )
                .prop_map(|(data, cfg, reads, chunks, mode)| Case::StreamBuf { data, cfg, reads, chunks, mode }),
        ));
        v.push(Plan::new(
            "versioning",
            q(1500, 30_000),
            0,
            (0u8..4, 0u8..4, 0u8..4, 0u8..4, 0u8..4, 0u8..4, u64_boundary(), small_string())
                .prop_map(|(wmaj, wmin, fmaj, fmin, rmaj, rmin, val, s)| Case::Versioned { wmaj, wmin, fmaj, fmin, rmaj, rmin, val, s }),
        ));
        v
    }

    fn run(&self, case: &Value, ctx: &mut Ctx) {
        let c: Case = decode(case);
        match c {
            Case::VarInt { vals, svals } => run_varint(ctx, &vals, &svals),
            Case::Strategy { strat, u, i } => run_strategy(ctx, strat as usize, &u, &i),
            Case::Simd { vals } => run_simd(ctx, &vals),
            Case::DataIo { backend, items, chunks } => run_data_io(ctx, backend, &items, &chunks),
            Case::Endian { a, b, v16, v32, v64 } => run_endian(ctx, a, b, v16, v32, v64),
            Case::Complex { cfg, v } => run_complex(ctx, cfg, v),
            Case::SmartPtr { kind, a, s, v } => run_smart_ptr(ctx, kind, a, s, v),
            Case::Range { data, start, len, chunks, via_seek } => run_range(ctx, &data.0, start, len, &chunks, via_seek),
            Case::StreamBuf { data, cfg, reads, chunks, mode } => run_stream_buf(ctx, &data.0, cfg, &reads, &chunks, mode),
            Case::Versioned { wmaj, wmin, fmaj, fmin, rmaj, rmin, val, s } => run_versioned(ctx, wmaj, wmin, fmaj, fmin, rmaj, rmin, val, s),
        }
    }
}

fn width_class(v: u64) -> &'static str {
    match 64 - v.leading_zeros() {
        0..=7 => "1B",
        8..=14 => "2B",
        15..=35 => "3-5B",
        36..=63 => "6-9B",
        _ => "10B",
    }
}

fn run_varint(ctx: &mut Ctx, vals: &[u64], svals: &[i64]) {
    if vals.iter().any(|v| *v >= 128) || vals.len() >= 3 || svals.len() >= 3 {
        ctx.nontrivial();
    }
    let mut concat = vec![];
    let mut lens = vec![];
    for &v in vals {
        ctx.label(format!("width_{}", width_class(v)));
        let enc = VarInt::encode(v);
        ctx.eq("encoded_len", "", &VarInt::encoded_len(v), &enc.len());
        match VarInt::decode(&enc) {
            Ok((d, n)) => {
                ctx.eq("roundtrip", "u64", &d, &v);
                ctx.eq("consumed", "u64", &n, &enc.len());
            }
            Err(e) => ctx.fail("roundtrip", "err", "u64", format!("{v}: {e}")),
        }
        // the three writers agree
        let mut b2 = vec![];
        let n2 = VarInt::write_to_vec(&mut b2, v).unwrap_or(usize::MAX);
        ctx.eq("writers_agree", "write_to_vec", &b2, &enc);
        ctx.eq("writers_agree", "write_to_vec_len", &n2, &enc.len());
        let mut b3: Vec<u8> = vec![];
        let n3 = VarInt::write_to(&mut b3, v).unwrap_or(usize::MAX);
        ctx.eq("writers_agree", "write_to", &b3, &enc);
        ctx.eq("writers_agree", "write_to_len", &n3, &enc.len());
        // decode with trailing garbage consumes only its own bytes
        let mut withtail = enc.clone();
        withtail.extend_from_slice(&[0xFF, 0x80, 0x01]);
        if let Ok((d, n)) = VarInt::decode(&withtail) {
            ctx.eq("consumed", "u64_trailing", &(d, n), &(v, enc.len()));
        } else {
            ctx.fail("consumed", "err", "u64_trailing", format!("{v}"));
        }
        // read_from over a DataInput
        let mut inp = zipora::io::SliceDataInput::new(&withtail);
        match VarInt::read_from(&mut inp) {
            Ok(d) => {
                ctx.eq("roundtrip", "read_from", &d, &v);
                ctx.eq("consumed", "read_from", &inp.pos(), &enc.len());
            }
            Err(e) => ctx.fail("roundtrip", "err", "read_from", format!("{v}: {e}")),
        }
        lens.push(enc.len());
        concat.extend_from_slice(&enc);
    }
    // concatenation law
    let mut pos = 0;
    for (k, &v) in vals.iter().enumerate() {
        match VarInt::decode(&concat[pos..]) {
            Ok((d, n)) => {
                if !ctx.eq("concat", "u64", &(d, n), &(v, lens[k])) {
                    break;
                }
                pos += n;
            }
            Err(e) => {
                ctx.fail("concat", "err", "u64", format!("{e}"));
                break;
            }
        }
    }
    let multi = VarInt::encode_multiple(vals.iter().copied());
    ctx.eq("encode_multiple", "", &multi, &concat);
    match VarInt::decode_multiple(&multi) {
        Ok(d) => {
            ctx.eq("decode_multiple", "", &d, &vals.to_vec());
        }
        Err(e) => ctx.fail("decode_multiple", "err", "", format!("{e}")),
    }
    for &s in svals {
        let enc = <VarInt as SignedVarInt>::encode_signed(s);
        match <VarInt as SignedVarInt>::decode_signed(&enc) {
            Ok((d, n)) => {
                ctx.eq("roundtrip", "i64", &d, &s);
                ctx.eq("consumed", "i64", &n, &enc.len());
            }
            Err(e) => ctx.fail("roundtrip", "err", "i64", format!("{s}: {e}")),
        }
        // zigzag keeps small magnitudes short
        let zz = ((s << 1) ^ (s >> 63)) as u64;
        ctx.eq("signed_is_zigzag", "", &enc, &VarInt::encode(zz));
    }
}

fn seq_class_u(v: &[u64]) -> String {
    let maxbits = v.iter().map(|x| 64 - x.leading_zeros()).max().unwrap_or(0);
    let maxdiff = v.windows(2).map(|w| 64 - (w[1].wrapping_sub(w[0]) as i64).unsigned_abs().leading_zeros()).max().unwrap_or(0);
    let decreasing = v.windows(2).any(|w| w[1] < w[0]);
    format!(
        "{}{}{}",
        if maxbits > 32 { "val>32b" } else { "val<=32b" },
        if v.windows(2).any(|w| (w[1] as i128 - w[0] as i128).abs() > i64::MAX as i128) { ",diff>63b" } else if maxdiff > 32 { ",diff>32b" } else { "" },
        if decreasing { ",decr" } else { "" }
    )
}

fn run_strategy(ctx: &mut Ctx, si: usize, u: &[u64], i: &[i64]) {
    let (_, strat) = STRATS[si % STRATS.len()];
    let enc = VarIntEncoder::new(strat);
    if u.len() >= 3 || i.len() >= 3 || u.iter().any(|v| *v >= 128) {
        ctx.nontrivial();
    }
    // single values: decode(encode(v)) == (v, len) and concatenation
    let mut cat = vec![];
    let mut ok_vals = vec![];
    for &v in u.iter().take(12) {
        match try_call(|| enc.encode_u64(v)) {
            Ok(Ok(b)) => {
                match try_call(|| enc.decode_u64(&b)) {
                    Ok(Ok((d, n))) => {
                        ctx.eq("single_u64", width_class(v), &(d, n), &(v, b.len()));
                    }
                    Ok(Err(e)) => ctx.fail("single_u64", "err", width_class(v), format!("{v}: {e}")),
                    Err(p) => ctx.fail("single_u64", "panic", &p.class(), format!("{v}: {}", p.msg)),
                }
                cat.extend_from_slice(&b);
                ok_vals.push((v, b.len()));
            }
            Ok(Err(_)) => ctx.label("single_u64_refused"),
            Err(_) => ctx.label("single_u64_encode_panicked"),
        }
    }
    let mut pos = 0;
    for (v, l) in &ok_vals {
        match try_call(|| enc.decode_u64(&cat[pos..])) {
            Ok(Ok((d, n))) => {
                if !ctx.eq("concat_u64", "", &(d, n), &(*v, *l)) {
                    break;
                }
                pos += n;
            }
            Ok(Err(e)) => {
                ctx.fail("concat_u64", "err", "", format!("{e}"));
                break;
            }
            Err(p) => {
                ctx.fail("concat_u64", "panic", &p.class(), p.msg.clone());
                break;
            }
        }
    }
    let mut cat = vec![];
    let mut ok_vals = vec![];
    for &v in i.iter().take(12) {
        match try_call(|| enc.encode_i64(v)) {
            Ok(Ok(b)) => {
                let cls = if v < 0 { "neg" } else { "nonneg" };
                match try_call(|| enc.decode_i64(&b)) {
                    Ok(Ok((d, n))) => {
                        ctx.eq("single_i64", cls, &(d, n), &(v, b.len()));
                    }
                    Ok(Err(e)) => ctx.fail("single_i64", "err", cls, format!("{v}: {e}")),
                    Err(p) => ctx.fail("single_i64", "panic", &p.class(), format!("{v}: {}", p.msg)),
                }
                cat.extend_from_slice(&b);
                ok_vals.push((v, b.len()));
            }
            Ok(Err(_)) => ctx.label("single_i64_refused"),
            Err(_) => ctx.label("single_i64_encode_panicked"),
        }
    }
    let mut pos = 0;
    for (v, l) in &ok_vals {
        match try_call(|| enc.decode_i64(&cat[pos..])) {
            Ok(Ok((d, n))) => {
                if !ctx.eq("concat_i64", "", &(d, n), &(*v, *l)) {
                    break;
                }
                pos += n;
            }
            _ => {
                ctx.fail("concat_i64", "err", "", "decode failed inside concatenation".to_string());
                break;
            }
        }
    }
    // sequences
    let ucls = seq_class_u(u);
    match try_call(|| enc.encode_u64_sequence(u)) {
        Ok(Ok(b)) => match try_call(|| enc.decode_u64_sequence(&b)) {
            Ok(Ok(d)) => {
                ctx.label(format!("useq_{}", if u.len() % 4 == 0 { "len%4==0" } else { "len%4!=0" }));
                ctx.eq("seq_u64", &ucls, &d, &u.to_vec());
            }
            Ok(Err(e)) => ctx.fail("seq_u64", "err", &ucls, format!("{e}")),
            Err(p) => ctx.fail("seq_u64", "panic", &p.class(), p.msg.clone()),
        },
        Ok(Err(_)) => ctx.label("seq_u64_refused"),
        Err(_) => ctx.label("seq_u64_encode_panicked"),
    }
    let iu: Vec<u64> = i.iter().map(|x| *x as u64).collect();
    let icls = {
        let big = i.iter().any(|x| x.unsigned_abs() > u32::MAX as u64);
        let wide = i.windows(2).any(|w| w[1].checked_sub(w[0]).is_none());
        format!("{}{}", if big { "mag>32b" } else { "mag<=32b" }, if wide { ",diff_overflows_i64" } else { "" })
    };
    let _ = iu;
    match try_call(|| enc.encode_i64_sequence(i)) {
        Ok(Ok(b)) => match try_call(|| enc.decode_i64_sequence(&b)) {
            Ok(Ok(d)) => {
                ctx.eq("seq_i64", &icls, &d, &i.to_vec());
            }
            Ok(Err(e)) => ctx.fail("seq_i64", "err", &icls, format!("{e}")),
            Err(p) => ctx.fail("seq_i64", "panic", &p.class(), p.msg.clone()),
        },
        Ok(Err(_)) => ctx.label("seq_i64_refused"),
        Err(_) => ctx.label("seq_i64_encode_panicked"),
    }
}

fn run_simd(ctx: &mut Ctx, vals: &[u64]) {
    use zipora::io::simd_encoding::varint::{decode_varint, decode_varint_batch, encode_varint, encode_varint_batch, SimdVarintCodec};
    if vals.len() >= 3 || vals.iter().any(|v| *v >= 128) {
        ctx.nontrivial();
    }
    ctx.label(format!("batch_len_{}", match vals.len() { 0 => "0", 1..=3 => "1-3", 4..=7 => "4-7", 8..=15 => "8-15", _ => "16+" }));
    let codec = SimdVarintCodec::new();
    let scalar = VarInt::encode_multiple(vals.iter().copied());
    match ctx.no_panic("batch_encode", || codec.encode_batch(vals)) {
        Some(Ok(b)) => {
            ctx.eq("batch_bytes_identical_to_scalar", "", &b, &scalar);
            match ctx.no_panic("batch_decode", || codec.decode_batch(&b, vals.len())) {
                Some(Ok(d)) => {
                    ctx.eq("batch_roundtrip", "", &d, &vals.to_vec());
                }
                Some(Err(e)) => ctx.fail("batch_roundtrip", "err", "", format!("{e}")),
                None => {}
            }
        }
        Some(Err(e)) => ctx.fail("batch_encode", "err", "", format!("{e}")),
        None => {}
    }
    // decode a scalar-encoded buffer with the batch decoder (cross decode)
    match ctx.no_panic("batch_decode", || codec.decode_batch(&scalar, vals.len())) {
        Some(Ok(d)) => {
            ctx.eq("batch_decodes_scalar", "", &d, &vals.to_vec());
        }
        Some(Err(e)) => ctx.fail("batch_decodes_scalar", "err", "", format!("{e}")),
        None => {}
    }
    // prefix decode: asking for fewer values than encoded returns exactly the prefix
    if vals.len() >= 2 {
        let k = vals.len() / 2;
        if let Some(Ok(d)) = ctx.no_panic("batch_decode", || codec.decode_batch(&scalar, k)) {
            ctx.eq("batch_prefix", "", &d, &vals[..k].to_vec());
        }
    }
    if let Some(Ok(b)) = ctx.no_panic("batch_encode", || encode_varint_batch(vals)) {
        ctx.eq("batch_bytes_identical_to_scalar", "global", &b, &scalar);
        if let Some(Ok(d)) = ctx.no_panic("batch_decode", || decode_varint_batch(&b, vals.len())) {
            ctx.eq("batch_roundtrip", "global", &d, &vals.to_vec());
        }
    }
    for &v in vals.iter().take(8) {
        let want = VarInt::encode(v);
        if let Some(Ok(b)) = ctx.no_panic("single_encode", || codec.encode_single(v)) {
            ctx.eq("single_bytes_identical_to_scalar", "", &b, &want);
        }
        let mut tail = want.clone();
        tail.extend_from_slice(&[0x81, 0x82, 0x83, 0x84, 0x85, 0x86, 0x87, 0x88, 0x89, 0x8a, 0x8b, 0x8c, 0x8d, 0x8e, 0x8f, 0x01]);
        match ctx.no_panic("single_decode", || codec.decode_single(&tail)) {
            Some(Ok(r)) => {
                ctx.eq("single_consumed", "", &r, &(v, want.len()));
            }
            Some(Err(e)) => ctx.fail("single_consumed", "err", "", format!("{e}")),
            None => {}
        }
        if let Some(Ok(b)) = ctx.no_panic("single_encode", || encode_varint(v)) {
            ctx.eq("single_bytes_identical_to_scalar", "global", &b, &want);
        }
        if let Some(Ok(r)) = ctx.no_panic("single_decode", || decode_varint(&want)) {
            ctx.eq("single_consumed", "global", &r, &(v, want.len()));
        }
    }
}

fn run_data_io(ctx: &mut Ctx, backend: u8, items: &[Item], chunks: &[u8]) {
    use zipora::io::{ReaderDataInput, SliceDataInput, VecDataOutput, WriterDataOutput};
    if items.len() >= 3 {
        ctx.nontrivial();
    }
    // reference encoding through VecDataOutput
    let mut vo = VecDataOutput::new();
    if let Err(e) = write_items(&mut vo, items) {
        ctx.fail("write", "err", "vec", format!("{e}"));
        return;
    }
    let reference = vo.into_vec();
    match backend {
        0 => {
            let mut inp = SliceDataInput::new(&reference);
            if read_items(ctx, &mut inp, items, "vec_to_slice") {
                ctx.eq("consumed", "vec_to_slice", &inp.remaining(), &0usize);
                ctx.eq("position", "vec_to_slice", &inp.position(), &Some(reference.len() as u64));
            }
            // skip() law: skipping item k's bytes then reading k+1 works — exercised via position()
            let mut inp = SliceDataInput::new(&reference);
            if !reference.is_empty() {
                let k = reference.len() / 2;
                if inp.skip(k).is_ok() {
                    ctx.eq("skip", "slice", &inp.pos(), &k);
                }
                ctx.ensure("skip", "slice_past_end", inp.skip(reference.len() + 1).is_err(), || "skip beyond the end succeeded".into());
            }
        }
        1 => {
            let mut wo = WriterDataOutput::new(Vec::<u8>::new());
            if let Err(e) = write_items(&mut wo, items) {
                ctx.fail("write", "err", "writer", format!("{e}"));
                return;
            }
            ctx.eq("bytes_written", "writer", &wo.bytes_written(), &(reference.len() as u64));
            let bytes = wo.into_inner();
            ctx.eq("backends_agree", "writer_vs_vec", &bytes, &reference);
            let rd = Chunked { data: &bytes, pos: 0, chunks, ci: 0 };
            let mut inp = ReaderDataInput::new(rd);
            if read_items(ctx, &mut inp, items, "writer_to_chunked_reader") {
                ctx.eq("position", "reader", &inp.pos(), &(reference.len() as u64));
                ctx.ensure("consumed", "reader", inp.read_u8().is_err(), || "read past the end succeeded".into());
            }
        }
        _ => {
            let dir = ctx.scratch.clone();
            let _ = std::fs::create_dir_all(&dir);
            let path = dir.join("c13_data_io.bin");
            let _ = std::fs::remove_file(&path);
            {
                let mut fo = match zipora::io::FileDataOutput::create(&path) {
                    Ok(f) => f,
                    Err(e) => {
                        ctx.skip(format!("cannot create file: {e}"));
                        return;
                    }
                };
                if let Err(e) = write_items(&mut fo, items) {
                    ctx.fail("write", "err", "file", format!("{e}"));
                    return;
                }
                ctx.eq("bytes_written", "file", &fo.bytes_written(), &(reference.len() as u64));
            }
            let on_disk = std::fs::read(&path).unwrap_or_default();
            ctx.eq("backends_agree", "file_vs_vec", &on_disk, &reference);
            if !reference.is_empty() {
                match zipora::io::MmapDataInput::open(&path) {
                    Ok(mut inp) => {
                        if read_items(ctx, &mut inp, items, "file_to_mmap") {
                            ctx.eq("consumed", "file_to_mmap", &inp.remaining(), &0usize);
                        }
                    }
                    Err(e) => ctx.fail("open", "err", "mmap_input", format!("{e}")),
                }
                match zipora::io::MemoryMappedInput::new(std::fs::File::open(&path).unwrap()) {
                    Ok(mut inp) => {
                        read_items(ctx, &mut inp, items, "file_to_mmapped_input");
                    }
                    Err(e) => ctx.fail("open", "err", "memory_mapped_input", format!("{e}")),
                }
            }
            let _ = std::fs::remove_file(&path);
        }
    }
}

fn run_endian(ctx: &mut Ctx, a: u64, b: u64, v16: Vec<u16>, v32: Vec<u32>, v64: Vec<u64>) {
    ctx.nontrivial();
    endian_rt!(ctx, u16, a as u16);
    endian_rt!(ctx, u32, a as u32);
    endian_rt!(ctx, u64, a);
    endian_rt!(ctx, i16, b as i16);
    endian_rt!(ctx, i32, b as i32);
    endian_rt!(ctx, i64, b as i64);
    endian_rt!(ctx, u128, ((a as u128) << 64) | b as u128);
    endian_rt!(ctx, i128, (((b as u128) << 64) | a as u128) as i128);
    // floats by bit pattern
    let f = f64::from_bits(a);
    ctx.eq("endian_roundtrip", "f64", &EndianConvert::from_be(EndianConvert::to_be(f)).to_bits(), &a);
    ctx.eq("endian_roundtrip", "f64", &EndianConvert::from_le(EndianConvert::to_le(f)).to_bits(), &a);
    ctx.eq("endian_to_be", "f64", &EndianConvert::to_be(f).to_bits(), &u64::from_ne_bytes(a.to_be_bytes()));
    let g = f32::from_bits(b as u32);
    ctx.eq("endian_roundtrip", "f32", &EndianConvert::from_be(EndianConvert::to_be(g)).to_bits(), &(b as u32));
    ctx.eq("endian_to_be", "f32", &EndianConvert::to_be(g).to_bits(), &u32::from_ne_bytes((b as u32).to_be_bytes()));
    // slices
    ctx.label(format!("v16_len_{}", if v16.len() >= 16 { "16+" } else { "<16" }));
    // the doc comment of the bulk helpers does not say which direction `from_little` selects, so
    // only the direction-independent law is asserted: every element is transformed the same way
    // (identity or byte swap) whether it falls in the vector body or the scalar tail.
    for from_little in [true, false] {
        let mut s = v16.clone();
        zipora::io::endian::simd::convert_u16_slice_simd(&mut s, from_little);
        let id = s == v16;
        let sw = s.iter().zip(&v16).all(|(a, b)| *a == b.swap_bytes());
        ctx.ensure("slice_simd", "u16", id || sw, || format!("neither identity nor uniform byte swap: {:?} -> {:?}", v16, s));
        let mut s = v32.clone();
        zipora::io::endian::simd::convert_u32_slice_simd(&mut s, from_little);
        let id = s == v32;
        let sw = s.iter().zip(&v32).all(|(a, b)| *a == b.swap_bytes());
        ctx.ensure("slice_simd", "u32", id || sw, || format!("neither identity nor uniform byte swap: {:?} -> {:?}", v32, s));
    }
    for e in [Endianness::Little, Endianness::Big, Endianness::Native] {
        let io = EndianIO::<u64>::new(e);
        let mut s = v64.clone();
        io.convert_slice_to_endian(&mut s);
        let want: Vec<u64> = v64.iter().map(|x| match e { Endianness::Little => x.to_le(), Endianness::Big => x.to_be(), _ => *x }).collect();
        ctx.eq("slice_convert", "u64_to", &s, &want);
        io.convert_slice_from_endian(&mut s);
        ctx.eq("slice_convert", "u64_roundtrip", &s, &v64);
        let io = EndianIO::<u16>::new(e);
        let mut s = v16.clone();
        io.convert_slice_to_endian(&mut s);
        io.convert_slice_from_endian(&mut s);
        ctx.eq("slice_convert", "u16_roundtrip", &s, &v16);
    }
}

fn run_complex(ctx: &mut Ctx, cfg: u8, v: Cx) {
    use std::collections::{BTreeMap, BTreeSet, HashMap, HashSet};
    ctx.nontrivial();
    match v {
        Cx::Tuple2(a, b) => cx_roundtrip(ctx, "tuple2", cfg, &(a, b)),
        Cx::Tuple3(a, b, c) => cx_roundtrip(ctx, "tuple3", cfg, &(a, b, c)),
        Cx::Tuple12(a, b, c, d, e, f, g, h, i, j, k, l) => cx_roundtrip(ctx, "tuple12", cfg, &(a, b, c, d, e, f, g, h, i, j, k, l)),
        Cx::Arr4(a) => cx_roundtrip(ctx, "array4", cfg, &a),
        Cx::Arr0 => cx_roundtrip::<[u32; 0]>(ctx, "array0", cfg, &[]),
        Cx::OptStr(o) => cx_roundtrip(ctx, "option", cfg, &o),
        Cx::ResU64Str(r) => cx_roundtrip(ctx, "result", cfg, &r),
        Cx::HashMapU32Str(p) => cx_roundtrip(ctx, "hashmap", cfg, &p.into_iter().collect::<HashMap<_, _>>()),
        Cx::HashSetI64(p) => cx_roundtrip(ctx, "hashset", cfg, &p.into_iter().collect::<HashSet<_>>()),
        Cx::BTreeMapStrVecU64(p) => cx_roundtrip(ctx, "btreemap", cfg, &p.into_iter().collect::<BTreeMap<_, _>>()),
        Cx::BTreeSetU16(p) => cx_roundtrip(ctx, "btreeset", cfg, &p.into_iter().collect::<BTreeSet<_>>()),
        Cx::VecVecStr(p) => cx_roundtrip(ctx, "tuple1_vecvec", cfg, &(p,)),
        Cx::OptVecOpt(p) => cx_roundtrip(ctx, "option_nested", cfg, &p),
        Cx::Batch(items) => {
            use zipora::io::ComplexTypeSerializer;
            let ser = ComplexTypeSerializer::default();
            if let Some(Ok(b)) = ctx.no_panic("batch_serialize", || ser.serialize_batch(&items)) {
                match ctx.no_panic("batch_roundtrip", || ser.deserialize_batch::<(u32, String)>(&b)) {
                    Some(Ok(d)) => {
                        ctx.eq("batch_roundtrip", "", &d, &items);
                    }
                    Some(Err(e)) => ctx.fail("batch_roundtrip", "err", "", format!("{e}")),
                    None => {}
                }
            }
        }
    }
}

fn run_smart_ptr(ctx: &mut Ctx, kind: u8, a: u32, s: String, v: Vec<u64>) {
    use std::rc::Rc;
    use std::sync::Arc;
    use zipora::io::{SerializableType, SliceDataInput, SmartPtrConfig, SmartPtrSerialize, SmartPtrSerializer, VecDataOutput};
    ctx.nontrivial();
    fn rt<T: SerializableType + PartialEq + std::fmt::Debug>(ctx: &mut Ctx, name: &str, val: &T) {
        // value, sentinel byte, value: exact consumption
        let mut o = VecDataOutput::new();
        if SerializableType::serialize(val, &mut o).is_err() {
            ctx.label("encode_refused");
            return;
        }
        let one = o.len();
        let _ = o.write_u8(0x5A);
        let _ = SerializableType::serialize(val, &mut o);
        let buf = o.into_vec();
        let mut i = SliceDataInput::new(&buf);
        match ctx.no_panic("serializable_roundtrip", || <T as SerializableType>::deserialize(&mut i)) {
            Some(Ok(b)) => {
                ctx.eq("serializable_roundtrip", name, &b, val);
                ctx.eq("serializable_consumed", name, &i.pos(), &one);
                if i.pos() == one {
                    let _ = i.read_u8();
                    if let Some(Ok(c)) = ctx.no_panic("serializable_roundtrip", || <T as SerializableType>::deserialize(&mut i)) {
                        ctx.eq("serializable_roundtrip", name, &c, val);
                        ctx.eq("serializable_consumed", name, &i.remaining(), &0usize);
                    }
                }
            }
            Some(Err(e)) => ctx.fail("serializable_roundtrip", "err", name, format!("{e}")),
            None => {}
        }
    }
    let config = match kind % 4 {
        0 => SmartPtrConfig::new(),
        1 => SmartPtrConfig::performance_optimized(),
        2 => SmartPtrConfig::space_optimized(),
        _ => SmartPtrConfig::robust(),
    };
    let ser = SmartPtrSerializer::new(config);
    match kind {
        0 => {
            rt(ctx, "u32", &a);
            rt(ctx, "string", &s);
            rt(ctx, "vec_u64", &v);
            rt(ctx, "bool", &(a & 1 == 1));
            rt(ctx, "i64", &(v.first().copied().unwrap_or(0) as i64));
            rt(ctx, "i8", &(a as i8));
            rt(ctx, "i16", &(a as i16));
            rt(ctx, "u16", &(a as u16));
            rt(ctx, "u8", &(a as u8));
            rt(ctx, "i32", &(a as i32));
        }
        1 => {
            rt(ctx, "box_string", &Box::new(s.clone()));
            let p = Box::new(s.clone());
            if let Some(Ok(b)) = ctx.no_panic("smart_serialize", || ser.serialize_to_bytes::<String, Box<String>>(&p)) {
                match ctx.no_panic("smart_roundtrip", || ser.deserialize_from_bytes::<String, Box<String>>(&b)) {
                    Some(Ok(q)) => {
                        ctx.eq("smart_roundtrip", "box", &*q, &s);
                    }
                    Some(Err(e)) => ctx.fail("smart_roundtrip", "err", "box", format!("{e}")),
                    None => {}
                }
            }
        }
        2 => {
            rt(ctx, "rc_vec", &Rc::new(v.clone()));
            let p = Rc::new(v.clone());
            if let Some(Ok(b)) = ctx.no_panic("smart_serialize", || ser.serialize_to_bytes::<Vec<u64>, Rc<Vec<u64>>>(&p)) {
                match ctx.no_panic("smart_roundtrip", || ser.deserialize_from_bytes::<Vec<u64>, Rc<Vec<u64>>>(&b)) {
                    Some(Ok(q)) => {
                        ctx.eq("smart_roundtrip", "rc", &*q, &v);
                    }
                    Some(Err(e)) => ctx.fail("smart_roundtrip", "err", "rc", format!("{e}")),
                    None => {}
                }
            }
        }
        3 => {
            rt(ctx, "arc_u32", &Arc::new(a));
            let p = Arc::new(s.clone());
            if let Some(Ok(b)) = ctx.no_panic("smart_serialize", || ser.serialize_to_bytes::<String, Arc<String>>(&p)) {
                match ctx.no_panic("smart_roundtrip", || ser.deserialize_from_bytes::<String, Arc<String>>(&b)) {
                    Some(Ok(q)) => {
                        ctx.eq("smart_roundtrip", "arc", &*q, &s);
                    }
                    Some(Err(e)) => ctx.fail("smart_roundtrip", "err", "arc", format!("{e}")),
                    None => {}
                }
            }
        }
        4 => {
            let p: Option<Box<u32>> = if a % 3 == 0 { None } else { Some(Box::new(a)) };
            if let Some(Ok(b)) = ctx.no_panic("smart_serialize", || ser.serialize_to_bytes::<u32, Option<Box<u32>>>(&p)) {
                match ctx.no_panic("smart_roundtrip", || ser.deserialize_from_bytes::<u32, Option<Box<u32>>>(&b)) {
                    Some(Ok(q)) => {
                        ctx.eq("smart_roundtrip", "option_box", &q, &p);
                    }
                    Some(Err(e)) => ctx.fail("smart_roundtrip", "err", "option_box", format!("{e}")),
                    None => {}
                }
            }
        }
        5 => {
            // the same Rc serialised twice in one context (shared pointer), followed by a sentinel
            use zipora::io::{DeserializationContext, SerializationContext};
            let p = Rc::new(s.clone());
            let mut sc = SerializationContext::new();
            let mut o = VecDataOutput::new();
            let r1 = p.serialize_with_context(&mut o, &mut sc);
            let r2 = p.serialize_with_context(&mut o, &mut sc);
            let _ = o.write_u8(0x77);
            if r1.is_ok() && r2.is_ok() {
                let buf = o.into_vec();
                let mut i = SliceDataInput::new(&buf);
                let mut dc: DeserializationContext<Rc<String>> = DeserializationContext::new();
                let a1 = ctx.no_panic("shared_roundtrip", || <Rc<String> as SmartPtrSerialize<String>>::deserialize_with_context(&mut i, &mut dc));
                let a2 = ctx.no_panic("shared_roundtrip", || <Rc<String> as SmartPtrSerialize<String>>::deserialize_with_context(&mut i, &mut dc));
                match (a1, a2) {
                    (Some(Ok(x)), Some(Ok(y))) => {
                        ctx.eq("shared_roundtrip", "rc_first", &*x, &s);
                        ctx.eq("shared_roundtrip", "rc_second", &*y, &s);
                        ctx.eq("shared_consumed", "rc", &i.read_u8().ok(), &Some(0x77));
                    }
                    (Some(Err(e)), _) | (_, Some(Err(e))) => ctx.fail("shared_roundtrip", "err", "rc", format!("{e}")),
                    _ => {}
                }
            }
        }
        6 => {
            rt(ctx, "vec_string", &vec![s.clone(), String::new(), s.clone()]);
            rt(ctx, "vec_vec", &vec![v.clone(), vec![], v.clone()]);
        }
        _ => {
            rt(ctx, "box_vec_box", &Box::new(vec![Box::new(a), Box::new(a.wrapping_add(1))]));
        }
    }
}

fn run_range(ctx: &mut Ctx, data: &[u8], start: u16, len: u16, chunks: &[u8], via_seek: bool) {
    use zipora::io::{RangeReader, RangeWriter};
    let n = data.len();
    let start = idx(start, n + 2);
    let len = idx(len, n + 3);
    if n >= 3 && len >= 2 {
        ctx.nontrivial();
    }
    // expected bytes: the range clipped to the data
    let s = start.min(n);
    let e = (start + len).min(n);
    let want = data[s..e].to_vec();
    ctx.label(format!("range_{}", if start + len > n { "beyond_eof" } else if len == 0 { "empty" } else { "inside" }));
    let got = ctx.no_panic("range_read", || {
        let mut out = vec![];
        if via_seek {
            let cur = std::io::Cursor::new(data.to_vec());
            let mut r = RangeReader::new_and_seek(cur, start as u64, len as u64).ok()?;
            r.read_to_end(&mut out).ok()?;
        } else {
            // caller positions the inner stream at `start` itself (documented contract of `new`)
            let rd = Chunked { data: &data[s..], pos: 0, chunks, ci: 0 };
            let mut r = RangeReader::new(rd, start as u64, len as u64);
            r.read_to_end(&mut out).ok()?;
        }
        Some(out)
    });
    if let Some(Some(out)) = got {
        if start <= n {
            ctx.eq("range_read", if via_seek { "seek" } else { "chunked" }, &out, &want);
        } else {
            ctx.ensure("range_read", "start_beyond_eof", out.is_empty(), || format!("{} bytes returned for a range starting beyond EOF", out.len()));
        }
    }
    // RangeWriter: at most `len` bytes are accepted, the rest refused
    let r = ctx.no_panic("range_write", || {
        let mut w = RangeWriter::new(Vec::<u8>::new(), 0, len as u64);
        let mut written = 0usize;
        let mut ci = 0;
        while written < data.len() {
            let c = (chunks[ci % chunks.len()].max(1) as usize).min(data.len() - written);
            ci += 1;
            match w.write(&data[written..written + c]) {
                Ok(0) => break,
                Ok(k) => written += k,
                Err(_) => break,
            }
        }
        (written, w.bytes_written(), w.into_inner())
    });
    if let Some((written, bw, inner)) = r {
        let lim = len.min(n);
        ctx.eq("range_write", "accepted", &written, &lim);
        ctx.eq("range_write", "bytes_written", &bw, &(lim as u64));
        ctx.eq("range_write", "content", &inner, &data[..lim].to_vec());
    }
}

fn run_stream_buf(ctx: &mut Ctx, data: &[u8], cfg: u8, reads: &[u16], chunks: &[u8], mode: u8) {
    use zipora::io::{StreamBufferConfig, StreamBufferedReader, StreamBufferedWriter};
    let config = || match cfg % 4 {
        0 => StreamBufferConfig::default(),
        1 => StreamBufferConfig::performance_optimized(),
        2 => StreamBufferConfig::memory_efficient(),
        _ => StreamBufferConfig::low_latency(),
    };
    if data.len() >= 3 {
        ctx.nontrivial();
    }
    ctx.label(format!("data_{}", if data.len() > 65536 { ">64K" } else if data.len() > 4096 { ">4K" } else { "small" }));
    let res = ctx.no_panic("buffered_read", || -> Option<Vec<u8>> {
        let rd = Chunked { data, pos: 0, chunks, ci: 0 };
        let mut r = StreamBufferedReader::with_config(rd, config()).ok()?;
        let mut out = vec![];
        let mut k = 0;
        loop {
            let want = 1 + idx(reads[k % reads.len()], if k % 3 == 0 { 9000 } else { 70 });
            k += 1;
            let mut buf = vec![0u8; want];
            let n = match mode % 4 {
                0 => r.read(&mut buf).ok()?,
                1 => r.read_bulk(&mut buf).ok()?,
                2 => r.read_simd_optimized(&mut buf).ok()?,
                _ => match r.read_byte_fast() {
                    Ok(b) => {
                        buf[0] = b;
                        1
                    }
                    Err(_) => 0,
                },
            };
            if n == 0 {
                break;
            }
            out.extend_from_slice(&buf[..n]);
            if out.len() > data.len() + 10 {
                break;
            }
        }
        Some(out)
    });
    if let Some(Some(out)) = res {
        ctx.eq("buffered_read", &format!("mode{}", mode % 4), &(out.len(), crate::engine::fnv(&out)), &(data.len(), crate::engine::fnv(data)));
    } else if let Some(None) = res {
        ctx.fail("buffered_read", "err", &format!("mode{}", mode % 4), "reader reported an error on a healthy inner stream".to_string());
    }
    let res = ctx.no_panic("buffered_write", || -> Option<Vec<u8>> {
        let mut w = StreamBufferedWriter::with_config(Vec::<u8>::new(), config()).ok()?;
        let mut pos = 0;
        let mut k = 0;
        while pos < data.len() {
            let want = (1 + idx(reads[k % reads.len()], if k % 3 == 0 { 9000 } else { 70 })).min(data.len() - pos);
            k += 1;
            if mode % 2 == 1 && want == 1 {
                w.write_byte_fast(data[pos]).ok()?;
                pos += 1;
            } else {
                let n = w.write(&data[pos..pos + want]).ok()?;
                if n == 0 {
                    return None;
                }
                pos += n;
            }
        }
        w.into_inner().ok()
    });
    if let Some(Some(out)) = res {
        ctx.eq("buffered_write", "", &(out.len(), crate::engine::fnv(&out)), &(data.len(), crate::engine::fnv(data)));
    } else if let Some(None) = res {
        ctx.fail("buffered_write", "err", "", "writer reported an error on a Vec sink".to_string());
    }
}

fn run_versioned(ctx: &mut Ctx, wmaj: u8, wmin: u8, fmaj: u8, fmin: u8, rmaj: u8, rmin: u8, val: u64, s: String) {
    use zipora::io::{SliceDataInput, VecDataOutput, Version, VersionManager, VersionProxy};
    ctx.nontrivial();
    let wv = Version::new(wmaj as u16, wmin as u16, 0);
    let fv = Version::new(fmaj as u16, fmin as u16, 0);
    // a field registered at version fv, written by a writer at version wv, read back by a
    // reader configured for the same stream version: value, then a sentinel, must line up.
    let mut m = VersionManager::new(wv);
    m.register_field("f", fv);
    let mut o = VecDataOutput::new();
    let r = ctx.no_panic("versioned_write", || -> zipora::Result<()> {
        m.serialize_field("f", &val, &mut o)?;
        m.serialize_field("always", &s, &mut o)?;
        o.write_u8(0x42)
    });
    let Some(Ok(())) = r else { ctx.label("encode_refused"); return };
    let buf = o.into_vec();
    let mut rm = VersionManager::new(wv);
    rm.register_field("f", fv);
    rm.set_reading_version(wv);
    let mut i = SliceDataInput::new(&buf);
    let wrote_f = m.should_serialize_field("f");
    ctx.label(if wrote_f { "field_present" } else { "field_absent" });
    let got = ctx.no_panic("versioned_read", || -> zipora::Result<(Option<u64>, Option<String>, u8)> {
        let a = rm.deserialize_field::<u64, _>("f", &mut i)?;
        let b = rm.deserialize_field::<String, _>("always", &mut i)?;
        let c = i.read_u8()?;
        Ok((a, b, c))
    });
    match got {
        Some(Ok((a, b, c))) => {
            ctx.eq("versioned_roundtrip", "field", &a, &if wrote_f { Some(val) } else { None });
            ctx.eq("versioned_roundtrip", "unregistered_field", &b, &Some(s.clone()));
            ctx.eq("versioned_consumed", "", &c, &0x42);
        }
        Some(Err(e)) => ctx.fail("versioned_roundtrip", "err", "", format!("{e}")),
        None => {}
    }
    // A reader configured for a *different* reading version (typically older than the field):
    // whatever it decides about the field, it must consume exactly the bytes the writer
    // produced for it, so the following field and the sentinel still line up; and a field the
    // writer did write must come back as its value or as None, never as something else.
    let rv = Version::new(rmaj as u16, rmin as u16, 0);
    let mut rm2 = VersionManager::new(wv);
    rm2.register_field("f", fv);
    rm2.set_reading_version(rv);
    let mut i2 = SliceDataInput::new(&buf);
    ctx.label(if rm2.should_deserialize_field("f") { "reader_supports_field" } else { "reader_skips_field" });
    let got2 = ctx.no_panic("versioned_read_other_version", || -> zipora::Result<(Option<u64>, Option<String>, u8)> {
        let a = rm2.deserialize_field::<u64, _>("f", &mut i2)?;
        let b = rm2.deserialize_field::<String, _>("always", &mut i2)?;
        let c = i2.read_u8()?;
        Ok((a, b, c))
    });
    match got2 {
        Some(Ok((a, b, c))) => {
            ctx.ensure("versioned_roundtrip", "field_other_reading_version", a.is_none() || (wrote_f && a == Some(val)), || format!("field decoded as {:?}, written {:?}", a, if wrote_f { Some(val) } else { None }));
            ctx.eq("versioned_consumed", "after_field_other_reading_version", &(b, c), &(Some(s.clone()), 0x42));
        }
        Some(Err(e)) => ctx.fail("versioned_consumed", "err", "after_field_other_reading_version", format!("{e}")),
        None => {}
    }
    // VersionProxy is SerializableType
    let p = VersionProxy::new(val, fv);
    let mut o = VecDataOutput::new();
    if zipora::io::SerializableType::serialize(&p, &mut o).is_ok() {
        let _ = o.write_u8(0x99);
        let buf = o.into_vec();
        let mut i = SliceDataInput::new(&buf);
        if let Some(Ok(q)) = ctx.no_panic("proxy_roundtrip", || <VersionProxy<u64> as zipora::io::SerializableType>::deserialize(&mut i)) {
            ctx.eq("proxy_roundtrip", "", q.data(), &val);
            ctx.eq("proxy_consumed", "", &i.read_u8().ok(), &Some(0x99));
        }
    }
}
