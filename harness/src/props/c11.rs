//! C11 — sorts, merges and set operations produce the mathematically defined result.
//!
//! Oracles: a sort must leave a non-decreasing sequence that is a permutation (multiset
//! equality) of its input; key-value sorts keep every (key, value) pair; merges equal
//! `sort(concat(runs))`; set operations are compared with definitional references written from
//! each function's doc comment (terark `set_op.hpp` semantics), and variants of one operation
//! must agree.

use crate::engine::{alloc, clip, decode, try_call, Ctx, Plan, Prop, Tier};
use crate::gen::{Bytes, Xs};
use proptest::prelude::*;
use serde::{Deserialize, Serialize};
use serde_json::Value;
use std::cmp::Ordering;
use std::collections::{BTreeMap, BTreeSet, HashMap};
use zipora::algorithms::multiway_merge::{MergeOperations, MultiWayMergeConfig, VectorSource};
use zipora::algorithms::radix_sort::{KeyValueRadixSort, RadixString};
use zipora::algorithms::set_ops as so;
use zipora::algorithms::{
    AdvancedRadixSort, AdvancedRadixSortConfig, Algorithm, CacheObliviousConfig, CacheObliviousSort, EnhancedLoserTree, ExternalSort,
    LoserTreeConfig, MultiWayMerge, RadixSort, RadixSortConfig, RadixSortingStrategy, ReplaceSelectSort, ReplaceSelectSortConfig,
    SetOperations, SetOperationsConfig, SimdComparator, SimdConfig, SimdOperations,
};
use zipora::memory::cache_layout::CacheHierarchy;

pub struct P;

/// single allocation cap while a case runs (bytes): `RadixSort::counting_sort_u32` allocates
/// `(max+1) * 8` bytes, i.e. 32 GiB for u32::MAX — refused deterministically instead of
/// being attempted on a shared machine.
const ALLOC_CAP_SINGLE: usize = 256 << 20;
const ALLOC_CAP_LIVE: usize = 3 << 30;
/// values are masked to this many bits when the counting-sort path would otherwise see a huge
/// maximum (class excluded by construction unless `huge` is set)
const SMALL_BITS: u32 = 22;

// ---------------------------------------------------------------------------------------
// case description
// ---------------------------------------------------------------------------------------

#[derive(Clone, Copy, Debug, PartialEq, Eq, Serialize, Deserialize)]
pub enum Shape {
    AllEqual,
    Sorted,
    Reversed,
    OrganPipe,
    FewDistinct,
    Uniform,
    TopByte,
    TopHalf,
    Extremes,
    DupMax,
    NearlySorted,
    SmallRange,
    Low16,
}
const SHAPES: &[Shape] = &[
    Shape::AllEqual,
    Shape::Sorted,
    Shape::Reversed,
    Shape::OrganPipe,
    Shape::FewDistinct,
    Shape::Uniform,
    Shape::TopByte,
    Shape::TopHalf,
    Shape::Extremes,
    Shape::DupMax,
    Shape::NearlySorted,
    Shape::SmallRange,
    Shape::Low16,
];

/// integer input: compact (shape, len, seed) or explicit values (shrinkable)
#[derive(Clone, Debug, Serialize, Deserialize)]
pub enum Ints {
    Gen { shape: Shape, len: usize, seed: u64 },
    Raw(Vec<u64>),
}

impl Ints {
    fn values(&self, bits: u32) -> Vec<u64> {
        let maxv = if bits >= 64 { u64::MAX } else { (1u64 << bits) - 1 };
        match self {
            Ints::Gen { shape, len, seed } => expand_ints(*shape, *len, *seed, bits),
            Ints::Raw(v) => v.iter().map(|x| x & maxv).collect(),
        }
    }
    fn u64s(&self) -> Vec<u64> {
        self.values(64)
    }
    fn u32s(&self) -> Vec<u32> {
        self.values(32).into_iter().map(|x| x as u32).collect()
    }
    fn shape(&self) -> String {
        match self {
            Ints::Gen { shape, .. } => format!("{:?}", shape),
            Ints::Raw(_) => "Raw".into(),
        }
    }
}

fn expand_ints(shape: Shape, len: usize, seed: u64, bits: u32) -> Vec<u64> {
    let mut r = Xs(seed.wrapping_mul(0x9E3779B97F4A7C15) | 1);
    let maxv = if bits >= 64 { u64::MAX } else { (1u64 << bits) - 1 };
    let mut out: Vec<u64> = Vec::with_capacity(len);
    let ext = [0u64, 1, maxv, maxv - 1, 1u64 << (bits - 1), (1u64 << (bits - 1)) - 1, maxv >> 8, 255, 256];
    match shape {
        Shape::AllEqual => {
            let v = match seed % 4 {
                0 => 0,
                1 => maxv,
                _ => r.next() & maxv,
            };
            out.resize(len, v);
        }
        Shape::Sorted | Shape::Reversed | Shape::NearlySorted => {
            let sh = (seed >> 3) % (bits as u64);
            for _ in 0..len {
                out.push((r.next() & maxv) >> if seed & 4 == 0 { 0 } else { sh });
            }
            out.sort_unstable();
            if shape == Shape::Reversed {
                out.reverse();
            }
            if shape == Shape::NearlySorted && len >= 2 {
                for _ in 0..(1 + len / 25) {
                    let i = r.below(len as u64) as usize;
                    let j = r.below(len as u64) as usize;
                    out.swap(i, j);
                }
            }
        }
        Shape::OrganPipe => {
            let step = 1 + (r.next() & maxv) / (len as u64 + 1).max(1);
            for i in 0..len {
                let k = if i < len / 2 { i } else { len - 1 - i } as u64;
                out.push(k.wrapping_mul(step) & maxv);
            }
        }
        Shape::FewDistinct => {
            let k = 2 + r.below(7) as usize;
            let vals: Vec<u64> = (0..k).map(|i| if i == 0 && seed & 1 == 0 { maxv } else { r.next() & maxv }).collect();
            for _ in 0..len {
                out.push(vals[r.below(k as u64) as usize]);
            }
        }
        Shape::Uniform => {
            for _ in 0..len {
                out.push(r.next() & maxv);
            }
            if len >= 3 {
                for _ in 0..(1 + len / 16) {
                    let i = r.below(len as u64) as usize;
                    let j = r.below(len as u64) as usize;
                    out[j] = out[i];
                }
            }
        }
        Shape::TopByte => {
            let low = r.next() & (maxv >> 8);
            for _ in 0..len {
                out.push((r.below(256) << (bits - 8)) | low);
            }
        }
        Shape::TopHalf => {
            let h = bits / 2;
            let low = r.next() & (maxv >> h);
            let few = 1 + r.below(64);
            for _ in 0..len {
                let hi = if seed & 2 == 0 { r.next() & (maxv >> h) } else { r.below(few) };
                out.push((hi << h) | low);
            }
        }
        Shape::Extremes => {
            for _ in 0..len {
                out.push(ext[r.below(ext.len() as u64) as usize]);
            }
        }
        Shape::DupMax => {
            for _ in 0..len {
                out.push(if r.below(3) == 0 { maxv } else { r.next() & maxv });
            }
        }
        Shape::SmallRange => {
            let range = (len as u64).max(4);
            for _ in 0..len {
                out.push(r.below(range));
            }
        }
        Shape::Low16 => {
            for _ in 0..len {
                out.push(r.next() & 0xFFFF);
            }
        }
    }
    out
}

#[derive(Clone, Copy, Debug, PartialEq, Eq, Serialize, Deserialize)]
pub enum SShape {
    Uniform,
    SharedPrefix,
    Prefixes,
    ZeroFF,
    FewDistinct,
    AllEqual,
    EmptyMix,
    Text,
}
const SSHAPES: &[SShape] =
    &[SShape::Uniform, SShape::SharedPrefix, SShape::Prefixes, SShape::ZeroFF, SShape::FewDistinct, SShape::AllEqual, SShape::EmptyMix, SShape::Text];

/// byte-string input; `arrange`: 0 as generated, 1 sorted, 2 reversed
#[derive(Clone, Debug, Serialize, Deserialize)]
pub enum Strs {
    Gen { shape: SShape, len: usize, seed: u64, arrange: u8 },
    Raw(Vec<Bytes>),
}

impl Strs {
    fn values(&self) -> Vec<Vec<u8>> {
        match self {
            Strs::Gen { shape, len, seed, arrange } => {
                let mut v = expand_strs(*shape, *len, *seed);
                match arrange {
                    1 => v.sort(),
                    2 => {
                        v.sort();
                        v.reverse()
                    }
                    _ => {}
                }
                v
            }
            Strs::Raw(v) => v.iter().map(|b| b.0.clone()).collect(),
        }
    }
    fn shape(&self) -> String {
        match self {
            Strs::Gen { shape, arrange, .. } => format!("{:?}{}", shape, ["", "+sorted", "+reversed"][(*arrange as usize).min(2)]),
            Strs::Raw(_) => "Raw".into(),
        }
    }
}

fn expand_strs(shape: SShape, len: usize, seed: u64) -> Vec<Vec<u8>> {
    let mut r = Xs(seed.wrapping_mul(0xD1B54A32D192ED03) | 1);
    let mut out = Vec::with_capacity(len);
    let rand_bytes = |r: &mut Xs, n: usize| -> Vec<u8> { (0..n).map(|_| r.next() as u8).collect() };
    match shape {
        SShape::Uniform => {
            for _ in 0..len {
                let n = r.below(13) as usize;
                out.push(rand_bytes(&mut r, n));
            }
        }
        SShape::SharedPrefix => {
            let pl = 6 + r.below(16) as usize;
            let prefix = rand_bytes(&mut r, pl);
            for _ in 0..len {
                let mut s = prefix.clone();
                for _ in 0..r.below(4) {
                    s.push(b'a' + r.below(3) as u8);
                }
                out.push(s);
            }
        }
        SShape::Prefixes => {
            let bl = 1 + r.below(30) as usize;
            let base: Vec<u8> = if seed & 1 == 0 { rand_bytes(&mut r, bl) } else { vec![(seed >> 8) as u8; bl] };
            for _ in 0..len {
                let n = r.below(bl as u64 + 1) as usize;
                out.push(base[..n].to_vec());
            }
        }
        SShape::ZeroFF => {
            for _ in 0..len {
                let n = r.below(11) as usize;
                out.push((0..n).map(|_| if r.below(2) == 0 { 0x00 } else { 0xFF }).collect());
            }
        }
        SShape::FewDistinct => {
            let k = 2 + r.below(6) as usize;
            let vals: Vec<Vec<u8>> = (0..k)
                .map(|_| {
                    let n = r.below(14) as usize;
                    rand_bytes(&mut r, n)
                })
                .collect();
            for _ in 0..len {
                out.push(vals[r.below(k as u64) as usize].clone());
            }
        }
        SShape::AllEqual => {
            let n = r.below(20) as usize;
            let s = rand_bytes(&mut r, n);
            out.resize(len, s);
        }
        SShape::EmptyMix => {
            for _ in 0..len {
                if r.below(2) == 0 {
                    out.push(vec![]);
                } else {
                    let n = r.below(3) as usize;
                    out.push(rand_bytes(&mut r, n));
                }
            }
        }
        SShape::Text => {
            const W: &[&str] = &["apple", "apple pie", "app", "banana", "band", "bandana", "cherry", "", "a", "zipora", "zip", "application", "applicationx"];
            for _ in 0..len {
                out.push(W[r.below(W.len() as u64) as usize].as_bytes().to_vec());
            }
        }
    }
    out
}

/// sorted runs for merges / set operations (each run is sorted by `runs()`, so every generated
/// or shrunk value satisfies the precondition "inputs are sorted")
#[derive(Clone, Debug, Serialize, Deserialize)]
pub enum Runs {
    Gen { k: usize, maxlen: usize, range: u32, seed: u64 },
    Raw(Vec<Vec<i32>>),
}

impl Runs {
    fn runs(&self) -> Vec<Vec<i32>> {
        let mut v = match self {
            Runs::Raw(v) => v.clone(),
            Runs::Gen { k, maxlen, range, seed } => {
                let mut r = Xs(seed.wrapping_mul(0xA24BAED4963EE407) | 1);
                let ext = [i32::MIN, i32::MIN + 1, -1, 0, 1, i32::MAX - 1, i32::MAX];
                let base = if seed & 1 == 0 { 0i64 } else { (r.next() as i32) as i64 };
                (0..*k)
                    .map(|_| {
                        let n = if r.below(5) == 0 { 0 } else { r.below(*maxlen as u64 + 1) as usize };
                        (0..n)
                            .map(|_| {
                                if *range == 0 {
                                    ext[r.below(ext.len() as u64) as usize]
                                } else {
                                    (base + r.below(*range as u64) as i64).clamp(i32::MIN as i64, i32::MAX as i64) as i32
                                }
                            })
                            .collect()
                    })
                    .collect()
            }
        };
        for run in v.iter_mut() {
            run.sort_unstable();
        }
        v
    }
}

#[derive(Clone, Debug, Serialize, Deserialize)]
pub struct RCfg {
    pub par: bool,
    pub par_thr: usize,
    pub bits: usize,
    pub cnt_thr: usize,
    pub simd: bool,
}

#[derive(Clone, Debug, Serialize, Deserialize)]
pub struct ACfg {
    /// 0 none, 1 insertion, 2 timsort, 3 lsd, 4 msd, 5 adaptive
    pub strat: u8,
    pub adaptive: bool,
    pub par: bool,
    pub par_thr: usize,
    pub threads: usize,
    pub bits: usize,
    pub ins_thr: usize,
    pub simd: bool,
    pub secure: bool,
    pub budget: usize,
}

#[derive(Clone, Debug, Serialize, Deserialize)]
pub enum Case {
    RadixU32 { cfg: RCfg, data: Ints, huge: bool },
    RadixU64 { cfg: RCfg, data: Ints },
    RadixBytes { data: Strs },
    KvRadix { wide: bool, data: Ints },
    AdvU32 { cfg: ACfg, data: Ints },
    AdvU64 { cfg: ACfg, data: Ints },
    AdvStr { cfg: ACfg, data: Strs },
    /// entry 0 = sort(), 1 = cache_oblivious_sort(); hier = cache hierarchy preset
    CacheObl { entry: u8, small_thr: usize, hier: u8, simd: bool, wide: bool, allow_deep: bool, data: Ints },
    /// buf = memory_buffer_size in bytes; cmp 0 = new(), 1 = natural comparator, 2 = reverse, 3 = low byte first
    ReplSel { buf: usize, ways: usize, compress: bool, cleanup: bool, secure: bool, cmp: u8, twice: bool, strs: bool, data: Ints },
    VecExt { buf: usize, default_cfg: bool, data: Ints },
    Multiway { tournament: bool, max_ways: usize, via_execute: bool, runs: Runs },
    MergeTwo { runs: Runs },
    MergeInPlace { runs: Runs, mid_kind: u8 },
    /// mode 0 merge_to_vec, 1 merge_all, 2 initialize+pop, 3 initialize+iterator, 4 initialize+peek/pop
    LoserTree { stable: bool, secure: bool, cache_opt: bool, prefetch: usize, mode: u8, runs: Runs },
    SimdMerge { avx2: bool, min_vec: usize, prefetch: usize, runs: Runs, unsorted: Vec<i32> },
    /// two runs over one value range; `stride` subsamples the first so that both sides of the
    /// size-ratio switch are reached with overlapping values; `swap` exchanges the operands
    SetOps { runs: Runs, stride: usize, swap: bool, thr: usize },
    SetOperations { bitmask: bool, thr: usize, strict: bool, modulus: i32, runs: Runs },
}

// ---------------------------------------------------------------------------------------
// strategies
// ---------------------------------------------------------------------------------------

fn int_len(max: usize) -> BoxedStrategy<usize> {
    let pts: Vec<usize> = [15usize, 16, 17, 31, 32, 33, 99, 100, 101, 255, 256, 257, 999, 1000, 1001, 1023, 1024, 1025, 9999, 10000, 10001, 19999, 20000, 20001]
        .iter()
        .copied()
        .filter(|&x| x <= max)
        .collect();
    prop_oneof![
        3 => 0usize..=8,
        4 => proptest::sample::select(pts),
        3 => 0usize..=300.min(max),
        1 => 0usize..=max,
    ]
    .boxed()
}

fn raw_u64() -> BoxedStrategy<u64> {
    prop_oneof![
        3 => proptest::sample::select(vec![0u64, 1, 2, 255, 256, 65535, 65536, (1 << 24) - 1, 1 << 24, u32::MAX as u64 - 1, u32::MAX as u64, 1 << 32, (1 << 32) + 1, 1 << 40, 1 << 56, (1 << 63) - 1, 1 << 63, u64::MAX - 1, u64::MAX]),
        2 => any::<u64>(),
        2 => 0u64..40,
        1 => (0u32..64, any::<u64>()).prop_map(|(s, v)| v >> s),
    ]
    .boxed()
}

fn ints(max: usize) -> BoxedStrategy<Ints> {
    prop_oneof![
        8 => (proptest::sample::select(SHAPES.to_vec()), int_len(max), any::<u64>()).prop_map(|(shape, len, seed)| Ints::Gen { shape, len, seed }),
        2 => proptest::collection::vec(raw_u64(), 0..=12).prop_map(Ints::Raw),
    ]
    .boxed()
}

fn strs(max: usize) -> BoxedStrategy<Strs> {
    let b = prop_oneof![
        3 => proptest::collection::vec(prop_oneof![Just(0u8), Just(1u8), Just(b'a'), Just(b'b'), Just(0xFFu8)], 0..=11),
        1 => proptest::collection::vec(any::<u8>(), 0..=4),
    ]
    .prop_map(Bytes);
    prop_oneof![
        8 => (proptest::sample::select(SSHAPES.to_vec()), int_len(max), any::<u64>(), prop_oneof![4 => Just(0u8), 1 => Just(1u8), 1 => Just(2u8)])
            .prop_map(|(shape, len, seed, arrange)| Strs::Gen { shape, len, seed, arrange }),
        2 => proptest::collection::vec(b, 0..=8).prop_map(Strs::Raw),
    ]
    .boxed()
}

fn runs(kmax: usize, maxlen: usize) -> BoxedStrategy<Runs> {
    let k = prop_oneof![2 => 0usize..=3, 3 => 0usize..=kmax, 1 => Just(kmax)];
    prop_oneof![
        7 => (k, prop_oneof![3 => 0usize..=6, 2 => 0usize..=maxlen], prop_oneof![1 => Just(0u32), 2 => 1u32..=4, 3 => 5u32..=60, 1 => Just(100_000u32)], any::<u64>())
            .prop_map(|(k, maxlen, range, seed)| Runs::Gen { k, maxlen, range, seed }),
        3 => proptest::collection::vec(proptest::collection::vec(prop_oneof![4 => -3i32..=6, 1 => proptest::sample::select(vec![i32::MIN, i32::MAX, 0])], 0..=5), 0..=kmax.min(5)).prop_map(Runs::Raw),
    ]
    .boxed()
}

/// exactly `k` runs
fn runs_exact(k: usize, maxlen: usize) -> BoxedStrategy<Runs> {
    prop_oneof![
        7 => (prop_oneof![3 => 0usize..=6, 2 => 0usize..=maxlen], prop_oneof![1 => Just(0u32), 2 => 1u32..=4, 3 => 5u32..=60, 1 => Just(100_000u32)], any::<u64>())
            .prop_map(move |(maxlen, range, seed)| Runs::Gen { k, maxlen, range, seed }),
        3 => proptest::collection::vec(proptest::collection::vec(prop_oneof![4 => -3i32..=6, 1 => proptest::sample::select(vec![i32::MIN, i32::MAX, 0])], 0..=5), k..=k).prop_map(Runs::Raw),
    ]
    .boxed()
}

fn rcfg(par: bool) -> BoxedStrategy<RCfg> {
    (
        prop_oneof![Just(0usize), Just(16usize), Just(10_000usize)],
        prop_oneof![4 => Just(8usize), 1 => Just(1usize), 1 => Just(3usize), 1 => Just(4usize), 1 => Just(7usize), 2 => Just(11usize), 1 => Just(13usize), 2 => Just(16usize)],
        prop_oneof![3 => Just(256usize), 3 => Just(0usize), 1 => Just(16usize), 1 => Just(1000usize)],
        any::<bool>(),
    )
        .prop_map(move |(par_thr, bits, cnt_thr, simd)| RCfg { par, par_thr, bits, cnt_thr, simd })
        .boxed()
}

fn acfg(strat: u8) -> BoxedStrategy<ACfg> {
    (
        (any::<bool>(), any::<bool>(), prop_oneof![Just(0usize), Just(16usize), Just(10_000usize)], prop_oneof![Just(0usize), Just(1usize), Just(2usize), Just(5usize)]),
        (
            prop_oneof![4 => Just(8usize), 1 => Just(1usize), 1 => Just(4usize), 1 => Just(7usize), 2 => Just(11usize), 2 => Just(16usize)],
            prop_oneof![3 => Just(100usize), 2 => Just(0usize), 1 => Just(1usize), 1 => Just(16usize), 1 => Just(1000usize)],
            prop_oneof![3 => Just(true), 1 => Just(false)],
            prop_oneof![1 => Just(true), 3 => Just(false)],
            prop_oneof![Just(0usize), Just(1024usize), Just(512 * 1024usize), Just(64usize << 20)],
        ),
    )
        .prop_map(move |((adaptive, par, par_thr, threads), (bits, ins_thr, simd, secure, budget))| ACfg { strat, adaptive, par, par_thr, threads, bits, ins_thr, simd, secure, budget })
        .boxed()
}

const STRATS: &[&str] = &["auto", "insertion", "timsort", "lsd", "msd", "adaptive_forced"];

/// ReplaceSelectSort input: the number of runs is at most `len - M + 1` (M = items that fit the
/// buffer), so `len <= M + 50` bounds the temp files per case.
fn replsel_input(elem: usize) -> BoxedStrategy<(usize, Ints)> {
    (prop_oneof![1 => Just(0usize), 2 => Just(1usize), 2 => Just(2usize), 2 => Just(3usize), 1 => Just(5usize), 1 => Just(16usize), 1 => Just(100usize), 1 => Just(1000usize)], 0usize..elem)
        .prop_flat_map(move |(m, slack)| {
            let buf = m * elem + slack;
            let len = prop_oneof![1 => 0usize..=m.min(60), 4 => m..=m + 50, 1 => 0usize..=3];
            prop_oneof![
                8 => (proptest::sample::select(SHAPES.to_vec()), len, any::<u64>()).prop_map(|(shape, len, seed)| Ints::Gen { shape, len, seed }),
                2 => proptest::collection::vec(raw_u64(), 0..=8).prop_map(Ints::Raw),
            ]
            .prop_map(move |d| (buf, d))
        })
        .boxed()
}

// ---------------------------------------------------------------------------------------
// the property
// ---------------------------------------------------------------------------------------

impl Prop for P {
    fn id(&self) -> &'static str {
        "C11"
    }
    fn rule(&self) -> &'static str {
        "one proptest strategy per cell (RadixSort u32/u64 seq+parallel, bytes, KeyValueRadixSort, AdvancedRadixSort u32/u64/RadixString x each forced strategy, CacheObliviousSort x entry points, ReplaceSelectSort natural/custom comparator, Vec::external_sort, MultiWayMerge heap/tournament, merge_two, merge_in_place, EnhancedLoserTree, SIMD merge, set_ops, SetOperations); inputs are (shape, length, seed) triples over 13 integer / 8 string shapes with lengths biased to 0,1,2 and thresholds 16/100/256/1024/10000/20000 +-1, or explicit short vectors; configuration fields (radix_bits, thresholds, threads, buffer sizes, fan-in) are generated; non-trivial = sort input with n >= 3, not already sorted and >= 1 duplicate; merge with >= 2 non-empty runs whose concatenation is not already sorted; set operation with both inputs non-empty, a common and a non-common element; distinct by hash of the case JSON"
    }
    fn assumptions(&self) -> Vec<String> {
        vec![
            "inputs to merges and set operations are always sorted (precondition of every merge API); unsorted input is never generated".into(),
            "Err from a sorter/merger is counted as 'refused' only for documented refusals (loser tree / count_frequencies / filter_merge with zero ways); any other Err is a discrepancy because the statement requires the sorted result".into(),
            "stability is asserted only for EnhancedLoserTree with stable_sort = true (documented); KeyValueRadixSort is checked for key order and pair multiset only".into(),
            "find_min_i32: the value must be the minimum and values[idx] must equal it; which of several equal minima is reported is not asserted".into(),
            "RadixSort::sort_u32 inputs that reach the counting-sort path with a maximum >= 2^22 are masked to 22 bits unless the case carries huge=true (known finding: allocation of (max+1)*8 bytes); single allocations above 256 MiB are refused by the worker's allocator cap".into(),
            "ReplaceSelectSort inputs are bounded to len <= buffer_items + 50 so that at most 51 temp files are written per case; temp_dir is a per-case directory under the worker scratch dir".into(),
            "SetOperations::intersection on inputs with duplicates inside one sequence: asserted are soundness (every output value is in all inputs), completeness (every common value occurs) and agreement of the bit-mask and general variants; exact multiplicity is asserted for duplicate-free inputs only".into(),
            "set_ops::multiset_fast_* thresholds are kept <= 1000 so that len * threshold cannot overflow".into(),
            "CacheObliviousSort configurations that are predicted to recurse forever (known finding) are generated only with allow_deep=true; otherwise small_threshold is raised to the slice size at which the funnel width reaches 1".into(),
        ]
    }
    fn cpu_budget_s(&self) -> u64 {
        60
    }
    fn plans(&self, tier: Tier) -> Vec<Plan> {
        let q = |a: usize, b: usize| tier.pick(a, b);
        let nmax = q(20_100, 300_000);
        let smax = q(3_000, 40_000);
        let mut v = vec![];
        for par in [false, true] {
            let sfx = if par { "par" } else { "seq" };
            v.push(Plan::new(
                &format!("radix_u32_{sfx}"),
                q(2500, 60_000),
                0,
                (rcfg(par), ints(nmax), prop_oneof![19 => Just(false), 1 => Just(true)]).prop_map(|(cfg, data, huge)| Case::RadixU32 { cfg, data, huge }),
            ));
            v.push(Plan::new(&format!("radix_u64_{sfx}"), q(2500, 60_000), 0, (rcfg(par), ints(nmax)).prop_map(|(cfg, data)| Case::RadixU64 { cfg, data })));
        }
        v.push(Plan::new("radix_bytes", q(2500, 60_000), 0, strs(smax).prop_map(|data| Case::RadixBytes { data })));
        v.push(Plan::new("kv_radix", q(2000, 40_000), 0, (any::<bool>(), ints(q(1200, 4000))).prop_map(|(wide, data)| Case::KvRadix { wide, data })));
        for (si, name) in STRATS.iter().enumerate() {
            let n = if si == 1 { q(3000, 8000) } else { nmax }; // forced insertion sort is quadratic
            let cases = if si == 5 { q(300, 3000) } else { q(1500, 40_000) };
            v.push(Plan::new(&format!("adv_u32_{name}"), cases, cases / 10, (acfg(si as u8), ints(n)).prop_map(|(cfg, data)| Case::AdvU32 { cfg, data })));
            v.push(Plan::new(&format!("adv_u64_{name}"), cases, cases / 10, (acfg(si as u8), ints(n)).prop_map(|(cfg, data)| Case::AdvU64 { cfg, data })));
            v.push(Plan::new(
                &format!("adv_str_{name}"),
                cases,
                cases / 10,
                (acfg(si as u8), strs(if si == 1 { smax.min(2000) } else { smax })).prop_map(|(cfg, data)| Case::AdvStr { cfg, data }),
            ));
        }
        for (entry, name) in ["cache_oblivious_sort", "cache_oblivious_funnel"].iter().enumerate() {
            v.push(Plan::new(
                name,
                q(2000, 40_000),
                q(150, 4000),
                (
                    prop_oneof![3 => Just(1024usize), 1 => Just(0usize), 1 => Just(1usize), 1 => Just(2usize), 2 => Just(16usize), 1 => Just(100_000usize)],
                    0u8..6,
                    any::<bool>(),
                    any::<bool>(),
                    prop_oneof![24 => Just(false), 1 => Just(true)],
                    ints(q(6000, 60_000)),
                )
                    .prop_map(move |(small_thr, hier, simd, wide, allow_deep, data)| Case::CacheObl { entry: entry as u8, small_thr, hier, simd, wide, allow_deep, data }),
            ));
        }
        for (custom, name) in [(false, "replace_select"), (true, "replace_select_cmp")] {
            v.push(Plan::new(
                name,
                q(500, 10_000),
                0,
                (
                    any::<bool>().prop_flat_map(|strs| replsel_input(if strs { 24 } else { 8 }).prop_map(move |(buf, data)| (strs, buf, data))),
                    prop_oneof![Just(2usize), Just(3usize), Just(16usize), Just(0usize)],
                    any::<bool>(),
                    prop_oneof![3 => Just(true), 1 => Just(false)],
                    any::<bool>(),
                    if custom { (1u8..4).boxed() } else { Just(0u8).boxed() },
                    prop_oneof![3 => Just(false), 1 => Just(true)],
                )
                    .prop_map(|((strs, buf, data), ways, compress, cleanup, secure, cmp, twice)| Case::ReplSel { buf, ways, compress, cleanup, secure, cmp, twice, strs, data }),
            ));
        }
        v.push(Plan::new(
            "vec_external_sort",
            q(400, 8000),
            0,
            (replsel_input(8), prop_oneof![4 => Just(false), 1 => Just(true)]).prop_map(|((buf, data), default_cfg)| Case::VecExt { buf, default_cfg, data }),
        ));
        for (t, name) in [(false, "multiway_heap"), (true, "multiway_tournament")] {
            v.push(Plan::new(
                name,
                q(2500, 60_000),
                0,
                (prop_oneof![3 => Just(1024usize), 1 => Just(1usize), 1 => Just(2usize), 1 => Just(0usize)], any::<bool>(), runs(if t { 24 } else { 12 }, q(60, 2000)))
                    .prop_map(move |(max_ways, via_execute, runs)| Case::Multiway { tournament: t, max_ways, via_execute, runs }),
            ));
        }
        v.push(Plan::new("merge_two", q(2000, 40_000), 0, runs_exact(2, q(300, 5000)).prop_map(|runs| Case::MergeTwo { runs })));
        v.push(Plan::new("merge_in_place", q(2000, 40_000), 0, (runs_exact(2, q(300, 5000)), 0u8..4).prop_map(|(runs, mid_kind)| Case::MergeInPlace { runs, mid_kind })));
        v.push(Plan::new(
            "loser_tree",
            q(3000, 60_000),
            q(200, 5000),
            (any::<bool>(), prop_oneof![1 => Just(true), 3 => Just(false)], any::<bool>(), prop_oneof![Just(0usize), Just(2usize), Just(1000usize)], 0u8..5, runs(33, q(40, 1000)))
                .prop_map(|(stable, secure, cache_opt, prefetch, mode, runs)| Case::LoserTree { stable, secure, cache_opt, prefetch, mode, runs }),
        ));
        v.push(Plan::new(
            "simd_merge",
            q(3000, 60_000),
            q(300, 6000),
            (
                any::<bool>(),
                prop_oneof![3 => Just(8usize), 1 => Just(0usize), 1 => Just(1usize), 1 => Just(16usize)],
                prop_oneof![Just(0usize), Just(2usize), Just(100usize)],
                runs(9, q(300, 5000)),
                proptest::collection::vec(prop_oneof![3 => any::<i32>(), 2 => -3i32..4, 1 => proptest::sample::select(vec![i32::MIN, i32::MAX, 0, -1])], 0..80),
            )
                .prop_map(|(avx2, min_vec, prefetch, runs, unsorted)| Case::SimdMerge { avx2, min_vec, prefetch, runs, unsorted }),
        ));
        // set_ops: both sides of the size-ratio switch of the `fast` variants
        v.push(Plan::new(
            "set_ops",
            q(4000, 80_000),
            0,
            (
                runs_exact(2, q(400, 4000)),
                prop_oneof![2 => Just(1usize), 1 => Just(7usize), 2 => Just(40usize), 1 => Just(400usize)],
                any::<bool>(),
                prop_oneof![3 => Just(32usize), 1 => Just(0usize), 1 => Just(1usize), 1 => Just(2usize), 1 => Just(1000usize)],
            )
                .prop_map(|(runs, stride, swap, thr)| Case::SetOps { runs, stride, swap, thr }),
        ));
        v.push(Plan::new(
            "set_operations",
            q(2500, 50_000),
            0,
            (any::<bool>(), 2i32..5, runs(40, q(30, 500))).prop_map(|(strict, modulus, runs)| Case::SetOperations { bitmask: true, thr: 32, strict, modulus, runs }),
        ));
        v.push(Plan::new(
            "set_operations_cfg",
            q(2500, 50_000),
            0,
            prop_oneof![
                5 => (any::<bool>(), prop_oneof![Just(0usize), Just(2usize), Just(8usize), Just(64usize)], any::<bool>(), 2i32..5, runs(40, q(30, 500)))
                    .prop_map(|(bitmask, thr, strict, modulus, runs)| Case::SetOperations { bitmask, thr, strict, modulus, runs }),
                // more than 32 ways through the bit-mask variant (threshold raised by the caller):
                // a value present in every way but one
                1 => (33usize..=40, any::<u16>(), -2i32..3, proptest::collection::vec(0i32..3, 40)).prop_map(|(k, miss, c, extra)| {
                    let miss = crate::gen::idx(miss, k);
                    let ways: Vec<Vec<i32>> = (0..k).map(|w| {
                        let mut r = vec![];
                        if w != miss { r.push(c); }
                        if extra[w] > 0 { r.push(c + extra[w]); }
                        r
                    }).collect();
                    Case::SetOperations { bitmask: true, thr: 64, strict: true, modulus: 2, runs: Runs::Raw(ways) }
                }),
            ],
        ));
        v
    }

    fn run(&self, case: &Value, ctx: &mut Ctx) {
        let c: Case = decode(case);
        // VERIF_C11_NOCAP=1 is a manual diagnosis aid (observe what an uncapped process does)
        if std::env::var_os("VERIF_C11_NOCAP").is_none() {
            alloc::set_caps(ALLOC_CAP_SINGLE, ALLOC_CAP_LIVE);
        }
        match c {
            Case::RadixU32 { cfg, data, huge } => run_radix_u32(ctx, &cfg, &data, huge),
            Case::RadixU64 { cfg, data } => run_radix_u64(ctx, &cfg, &data),
            Case::RadixBytes { data } => run_radix_bytes(ctx, &data),
            Case::KvRadix { wide, data } => run_kv(ctx, wide, &data),
            Case::AdvU32 { cfg, data } => {
                let v = data.u32s();
                ctx.label(format!("shape_{}", data.shape()));
                let cls = format!("{}{}", int_class(&data.values(32), 32), if cfg.simd { ",simd" } else { "" });
                run_adv(ctx, &cfg, v, cls, |x| *x as u64)
            }
            Case::AdvU64 { cfg, data } => {
                let v = data.u64s();
                ctx.label(format!("shape_{}", data.shape()));
                let cls = format!("{}{}", int_class(&v, 64), if cfg.simd { ",simd" } else { "" });
                run_adv(ctx, &cfg, v, cls, |x| *x)
            }
            Case::AdvStr { cfg, data } => run_adv_str(ctx, &cfg, &data),
            Case::CacheObl { entry, small_thr, hier, simd, wide, allow_deep, data } => run_cache_obl(ctx, entry, small_thr, hier, simd, wide, allow_deep, &data),
            Case::ReplSel { buf, ways, compress, cleanup, secure, cmp, twice, strs, data } => run_replsel(ctx, buf, ways, compress, cleanup, secure, cmp, twice, strs, &data),
            Case::VecExt { buf, default_cfg, data } => run_vec_ext(ctx, buf, default_cfg, &data),
            Case::Multiway { tournament, max_ways, via_execute, runs } => run_multiway(ctx, tournament, max_ways, via_execute, &runs),
            Case::MergeTwo { runs } => run_merge_two(ctx, &runs),
            Case::MergeInPlace { runs, mid_kind } => run_merge_in_place(ctx, &runs, mid_kind),
            Case::LoserTree { stable, secure, cache_opt, prefetch, mode, runs } => run_loser_tree(ctx, stable, secure, cache_opt, prefetch, mode, &runs),
            Case::SimdMerge { avx2, min_vec, prefetch, runs, unsorted } => run_simd_merge(ctx, avx2, min_vec, prefetch, &runs, &unsorted),
            Case::SetOps { runs, stride, swap, thr } => run_set_ops(ctx, &runs, stride, swap, thr),
            Case::SetOperations { bitmask, thr, strict, modulus, runs } => run_set_operations(ctx, bitmask, thr, strict, modulus, &runs),
        }
        alloc::clear_caps();
    }
}

// ---------------------------------------------------------------------------------------
// shared oracle helpers
// ---------------------------------------------------------------------------------------

fn size_label(n: usize) -> &'static str {
    match n {
        0 => "n=0",
        1 => "n=1",
        2 => "n=2",
        3..=16 => "n<=16",
        17..=100 => "n<=100",
        101..=256 => "n<=256",
        257..=1024 => "n<=1024",
        1025..=10_000 => "n<=10000",
        _ => "n>10000",
    }
}

fn is_sorted_by<T>(v: &[T], cmp: &impl Fn(&T, &T) -> Ordering) -> bool {
    v.windows(2).all(|w| cmp(&w[0], &w[1]) != Ordering::Greater)
}

fn has_dup<T: Ord + Clone>(v: &[T]) -> bool {
    let mut s = v.to_vec();
    s.sort();
    s.windows(2).any(|w| w[0] == w[1])
}

/// property's non-triviality rule for sort inputs
fn mark_sort_input<T: Ord + Clone>(ctx: &mut Ctx, v: &[T]) {
    ctx.label(size_label(v.len()));
    if v.len() >= 3 && !is_sorted_by(v, &|a: &T, b: &T| a.cmp(b)) && has_dup(v) {
        ctx.nontrivial();
    }
}

/// Both directions: `after` is ordered by `cmp` (aspect `<what>_sorted`) and is a permutation
/// of `before` (aspect `<what>_permutation`: nothing dropped, duplicated or invented).
/// `cmp` must be a total order consistent with `T: Ord` equality for the expected vector to be
/// unique; the permutation check uses `Ord`.
fn check_sort_by<T: Ord + Clone + std::fmt::Debug>(ctx: &mut Ctx, what: &str, class: &str, before: &[T], after: &[T], cmp: &impl Fn(&T, &T) -> Ordering) -> bool {
    let mut ok = true;
    let sorted = is_sorted_by(after, cmp);
    ok &= ctx.ensure(&format!("{what}_sorted"), class, sorted, || {
        let i = after.windows(2).position(|w| cmp(&w[0], &w[1]) == Ordering::Greater).unwrap_or(0);
        format!("n={} output not ordered at index {}: {:?} > {:?}; input head {:?}", after.len(), i, after.get(i), after.get(i + 1), &before[..before.len().min(12)])
    });
    let mut a = before.to_vec();
    a.sort();
    let mut b = after.to_vec();
    b.sort();
    let perm = a == b;
    ok &= ctx.ensure(&format!("{what}_permutation"), class, perm, || {
        let i = a.iter().zip(b.iter()).position(|(x, y)| x != y).unwrap_or(a.len().min(b.len()));
        format!(
            "n_in={} n_out={} output is not a permutation of the input: sorted multisets first differ at rank {}: input has {:?}, output has {:?}; input head {:?}; output head {:?}",
            before.len(),
            after.len(),
            i,
            a.get(i),
            b.get(i),
            &before[..before.len().min(12)],
            &after[..after.len().min(12)]
        )
    });
    ok
}

fn check_sort<T: Ord + Clone + std::fmt::Debug>(ctx: &mut Ctx, what: &str, class: &str, before: &[T], after: &[T]) -> bool {
    check_sort_by(ctx, what, class, before, after, &|a: &T, b: &T| a.cmp(b))
}

/// merged output == sort(concat(runs)) (exact, because the inputs are plain integers)
fn check_merge(ctx: &mut Ctx, what: &str, class: &str, runs: &[Vec<i32>], got: &[i32]) -> bool {
    let mut want: Vec<i32> = runs.iter().flatten().copied().collect();
    want.sort_unstable();
    ctx.ensure(what, class, got == &want[..], || {
        let i = got.iter().zip(want.iter()).position(|(x, y)| x != y).unwrap_or(got.len().min(want.len()));
        format!("{} runs, total {} items, got {} items; first difference at {}: got {:?} want {:?}; runs head {:?}", runs.len(), want.len(), got.len(), i, got.get(i), want.get(i), crate::engine::clip(&format!("{:?}", runs), 300))
    })
}

fn mark_merge_input(ctx: &mut Ctx, runs: &[Vec<i32>]) {
    let nonempty = runs.iter().filter(|r| !r.is_empty()).count();
    ctx.label(match runs.len() {
        0 => "ways=0",
        1 => "ways=1",
        2 => "ways=2",
        3..=8 => "ways<=8",
        9..=32 => "ways<=32",
        _ => "ways>32",
    });
    if nonempty < runs.len() {
        ctx.label("has_empty_run");
    }
    let concat: Vec<i32> = runs.iter().flatten().copied().collect();
    if nonempty >= 2 && concat.windows(2).any(|w| w[0] > w[1]) {
        ctx.nontrivial();
    }
}

fn int_class(v: &[u64], bits: u32) -> String {
    let max = v.iter().copied().max().unwrap_or(0);
    let hi = if bits == 64 {
        if max >= 1 << 32 {
            "key>=2^32"
        } else {
            "key<2^32"
        }
    } else if max >= 1 << 24 {
        "key>=2^24"
    } else {
        "key<2^24"
    };
    format!("{},{}", hi, if v.len() >= 16 { "n>=16" } else { "n<16" })
}

// ---------------------------------------------------------------------------------------
// RadixSort / KeyValueRadixSort
// ---------------------------------------------------------------------------------------

fn rconfig(cfg: &RCfg) -> RadixSortConfig {
    RadixSortConfig { use_parallel: cfg.par, parallel_threshold: cfg.par_thr, radix_bits: cfg.bits, use_counting_sort_threshold: cfg.cnt_thr, use_simd: cfg.simd }
}

fn rcfg_labels(ctx: &mut Ctx, cfg: &RCfg, n: usize) {
    ctx.label(format!("radix_bits={}", cfg.bits));
    ctx.label(format!("counting_thr={}", cfg.cnt_thr));
    let split = cfg.par && n >= cfg.par_thr && n >= 2 * cfg.par_thr;
    ctx.label(if split { "path=parallel_split" } else if cfg.par && n >= cfg.par_thr { "path=parallel_entry_seq" } else { "path=sequential" });
}

fn run_radix_u32(ctx: &mut Ctx, cfg: &RCfg, data: &Ints, huge: bool) {
    let mut v = data.u32s();
    let n = v.len();
    // counting sort (len <= threshold, also per parallel chunk) allocates (max+1)*8 bytes
    let counting_possible = cfg.cnt_thr > 0 && (n <= cfg.cnt_thr || (cfg.par && n >= cfg.par_thr && n >= 2 * cfg.par_thr));
    let max = v.iter().copied().max().unwrap_or(0);
    if counting_possible && max >= 1 << SMALL_BITS {
        if huge {
            ctx.label("counting_sort_huge_max");
        } else {
            for x in v.iter_mut() {
                *x &= (1 << SMALL_BITS) - 1;
            }
            ctx.label("masked_to_22_bits(excluded:counting_sort_huge_max)");
        }
    }
    ctx.label(format!("shape_{}", data.shape()));
    rcfg_labels(ctx, cfg, n);
    mark_sort_input(ctx, &v);
    let before = v.clone();
    let cls = int_class(&before.iter().map(|x| *x as u64).collect::<Vec<_>>(), 32);
    let mut sorter = RadixSort::with_config(rconfig(cfg));
    match ctx.no_panic("sort_u32", || sorter.sort_u32(&mut v)) {
        Some(Ok(())) => {
            check_sort(ctx, "sort_u32", &cls, &before, &v);
            if n > 0 {
                let st = sorter.stats();
                ctx.eq("stats_items", "", &st.items_processed, &n);
                ctx.label(if st.used_parallel { "stats_used_parallel" } else { "stats_sequential" });
            }
        }
        Some(Err(e)) => ctx.fail("sort_u32", "err", &cls, format!("{e}")),
        None => {}
    }
    // the Algorithm-trait entry point
    if n <= 2000 {
        let s2 = RadixSort::new();
        match ctx.no_panic("execute", || s2.execute(&rconfig(cfg), before.clone())) {
            Some(Ok(out)) => {
                check_sort(ctx, "execute", &cls, &before, &out);
            }
            Some(Err(e)) => ctx.fail("execute", "err", &cls, format!("{e}")),
            None => {}
        }
    }
}

fn run_radix_u64(ctx: &mut Ctx, cfg: &RCfg, data: &Ints) {
    let mut v = data.u64s();
    let n = v.len();
    ctx.label(format!("shape_{}", data.shape()));
    rcfg_labels(ctx, cfg, n);
    mark_sort_input(ctx, &v);
    let before = v.clone();
    let cls = int_class(&before, 64);
    let mut sorter = RadixSort::with_config(rconfig(cfg));
    match ctx.no_panic("sort_u64", || sorter.sort_u64(&mut v)) {
        Some(Ok(())) => {
            check_sort(ctx, "sort_u64", &cls, &before, &v);
            if n > 0 {
                ctx.eq("stats_items", "", &sorter.stats().items_processed, &n);
            }
        }
        Some(Err(e)) => ctx.fail("sort_u64", "err", &cls, format!("{e}")),
        None => {}
    }
}

/// two distinct strings whose first 8 bytes (zero padded) coincide: the 64-bit radix key
/// cannot separate them
fn str_class(v: &[Vec<u8>]) -> &'static str {
    let mut keys: BTreeMap<[u8; 8], BTreeSet<&[u8]>> = BTreeMap::new();
    for s in v {
        let mut k = [0u8; 8];
        for (i, b) in s.iter().take(8).enumerate() {
            k[i] = *b;
        }
        keys.entry(k).or_default().insert(&s[..]);
    }
    if keys.values().any(|set| set.len() > 1) {
        "key8_collision"
    } else {
        "key8_distinct"
    }
}

fn run_radix_bytes(ctx: &mut Ctx, data: &Strs) {
    let mut v = data.values();
    ctx.label(format!("shape_{}", data.shape()));
    mark_sort_input(ctx, &v);
    let before = v.clone();
    let cls = str_class(&before);
    let mut sorter = RadixSort::new();
    match ctx.no_panic("sort_bytes", || sorter.sort_bytes(&mut v)) {
        Some(Ok(())) => {
            check_sort(ctx, "sort_bytes", cls, &before, &v);
        }
        Some(Err(e)) => ctx.fail("sort_bytes", "err", cls, format!("{e}")),
        None => {}
    }
}

fn run_kv(ctx: &mut Ctx, wide: bool, data: &Ints) {
    ctx.label(format!("shape_{}", data.shape()));
    ctx.label(if wide { "key=u64" } else { "key=u32" });
    let keys = if wide { data.u64s() } else { data.u32s().into_iter().map(|x| x as u64).collect() };
    mark_sort_input(ctx, &keys);
    let dup = has_dup(&keys);
    let cls = if dup { "dup_keys" } else { "distinct_keys" };
    ctx.label(cls);
    // value = original index, so a pair identifies its origin
    fn check(ctx: &mut Ctx, cls: &str, before: &[(u64, u32)], after: &[(u64, u32)]) {
        ctx.ensure("kv_sorted", cls, after.windows(2).all(|w| w[0].0 <= w[1].0), || format!("keys not ordered: {:?}", &after[..after.len().min(16)]));
        let mut a = before.to_vec();
        a.sort();
        let mut b = after.to_vec();
        b.sort();
        ctx.ensure("kv_pairs", cls, a == b, || {
            let i = a.iter().zip(b.iter()).position(|(x, y)| x != y).unwrap_or(0);
            format!("(key,value) pairs changed: n={} first difference at rank {}: input pair {:?}, output pair {:?}; input head {:?}; output head {:?}", a.len(), i, a.get(i), b.get(i), &before[..before.len().min(8)], &after[..after.len().min(8)])
        });
    }
    if wide {
        let mut d: Vec<(u64, u32)> = keys.iter().enumerate().map(|(i, k)| (*k, i as u32)).collect();
        let before = d.clone();
        let sorter = KeyValueRadixSort::<u64, u32>::new();
        match ctx.no_panic("kv_sort", || sorter.sort_by_key(&mut d)) {
            Some(Ok(())) => check(ctx, cls, &before, &d),
            Some(Err(e)) => ctx.fail("kv_sort", "err", cls, format!("{e}")),
            None => {}
        }
    } else {
        let mut d: Vec<(u32, u32)> = keys.iter().enumerate().map(|(i, k)| (*k as u32, i as u32)).collect();
        let before: Vec<(u64, u32)> = d.iter().map(|(k, v)| (*k as u64, *v)).collect();
        let sorter = KeyValueRadixSort::<u32, u32>::new();
        match ctx.no_panic("kv_sort", || sorter.sort_by_key(&mut d)) {
            Some(Ok(())) => {
                let after: Vec<(u64, u32)> = d.iter().map(|(k, v)| (*k as u64, *v)).collect();
                check(ctx, cls, &before, &after)
            }
            Some(Err(e)) => ctx.fail("kv_sort", "err", cls, format!("{e}")),
            None => {}
        }
    }
}

// ---------------------------------------------------------------------------------------
// AdvancedRadixSort
// ---------------------------------------------------------------------------------------

fn aconfig(cfg: &ACfg) -> AdvancedRadixSortConfig {
    AdvancedRadixSortConfig {
        use_secure_memory: cfg.secure,
        adaptive_strategy: cfg.adaptive,
        force_strategy: match cfg.strat {
            1 => Some(RadixSortingStrategy::Insertion),
            2 => Some(RadixSortingStrategy::TimSort),
            3 => Some(RadixSortingStrategy::LsdRadix),
            4 => Some(RadixSortingStrategy::MsdRadix),
            5 => Some(RadixSortingStrategy::Adaptive),
            _ => None,
        },
        use_parallel: cfg.par,
        parallel_threshold: cfg.par_thr,
        num_threads: cfg.threads,
        radix_bits: cfg.bits,
        insertion_sort_threshold: cfg.ins_thr,
        use_simd: cfg.simd,
        memory_budget: cfg.budget,
        ..Default::default()
    }
}

fn run_adv_generic<T>(ctx: &mut Ctx, cfg: &ACfg, mut v: Vec<T>, cls: &str)
where
    T: zipora::algorithms::RadixSortable + std::fmt::Debug,
{
    mark_sort_input(ctx, &v);
    ctx.label(format!("radix_bits={}", cfg.bits));
    ctx.label(format!("threads={}", cfg.threads));
    ctx.label(format!("simd={}", cfg.simd));
    let before = v.clone();
    let Some(made) = ctx.no_panic("with_config", || AdvancedRadixSort::<T>::with_config(aconfig(cfg))) else { return };
    let mut sorter = match made {
        Ok(s) => s,
        Err(_) => {
            ctx.label("constructor_refused");
            return;
        }
    };
    match guarded(ctx, "sort", cls, || sorter.sort(&mut v)) {
        Some(Ok(())) => {
            check_sort(ctx, "sort", cls, &before, &v);
            if !v.is_empty() {
                let st = sorter.stats();
                ctx.label(format!("strategy_used={:?}", st.strategy_used));
                ctx.label(if st.basic_stats.used_parallel { "stats_used_parallel" } else { "stats_sequential" });
                ctx.eq("stats_items", "", &st.basic_stats.items_processed, &v.len());
            }
        }
        Some(Err(e)) => {
            let c = if cfg.strat == 5 { "forced_adaptive" } else { cls };
            ctx.fail("sort", "err", c, format!("{e}"));
            // an Err must at least leave the data a permutation of the input
            check_perm_only(ctx, "sort_err_leaves_input", c, &before, &v);
        }
        None => {}
    }
}

/// like `ctx.no_panic`, but the signature class also carries the input class, and a panic raised
/// on a rayon worker thread (invisible to the thread-local panic hook) gets a stable name
fn guarded<R>(ctx: &mut Ctx, aspect: &str, input_cls: &str, f: impl FnOnce() -> R) -> Option<R> {
    match try_call(f) {
        Ok(r) => Some(r),
        Err(p) => {
            let pc = if p.file == "?" { "panic:on_pool_thread".to_string() } else { p.class() };
            ctx.fail(aspect, "panic", &format!("{pc},{input_cls}"), format!("{}:{}: {}", p.file, p.line, clip(&p.msg, 300)));
            None
        }
    }
}

fn check_perm_only<T: Ord + Clone + std::fmt::Debug>(ctx: &mut Ctx, what: &str, class: &str, before: &[T], after: &[T]) {
    let mut a = before.to_vec();
    a.sort();
    let mut b = after.to_vec();
    b.sort();
    ctx.ensure(what, class, a == b, || format!("data is no longer a permutation of the input (n={})", before.len()));
}

fn run_adv<T>(ctx: &mut Ctx, cfg: &ACfg, v: Vec<T>, cls: String, _key: impl Fn(&T) -> u64)
where
    T: zipora::algorithms::RadixSortable + std::fmt::Debug,
{
    run_adv_generic(ctx, cfg, v, &cls)
}

fn run_adv_str(ctx: &mut Ctx, cfg: &ACfg, data: &Strs) {
    let owned = data.values();
    ctx.label(format!("shape_{}", data.shape()));
    let cls = format!("{},{}{}", str_class(&owned), if owned.len() >= 16 { "n>=16" } else { "n<16" }, if cfg.simd { ",simd" } else { "" });
    let v: Vec<RadixString> = owned.iter().map(|s| RadixString::new(s)).collect();
    run_adv_generic(ctx, cfg, v, &cls)
}

// ---------------------------------------------------------------------------------------
// CacheObliviousSort
// ---------------------------------------------------------------------------------------

fn hierarchy(preset: u8) -> CacheHierarchy {
    let d = CacheObliviousConfig::default().cache_hierarchy;
    let (l1, l2, l3) = match preset {
        1 => (64, 512, 4096),
        2 => (256, 1 << 22, 128),
        3 => (4096, 4200, 1 << 20),
        4 => (64, 64 * 64 * 64, 1 << 30),
        5 => (64, 64 * 16, 1 << 30),
        _ => return d,
    };
    CacheHierarchy { l1_line_size: 64, l1_size: l1, l2_line_size: 64, l2_size: l2, l3_line_size: 64, l3_size: l3, ..d }
}

/// Largest slice that `funnel_sort_recursive` would enter with funnel width 1 while still
/// above the small-array threshold (mirrors the subdivision arithmetic only to *predict* the
/// known non-terminating recursion; never used as an oracle).
fn funnel_k1_size(n: usize, k: usize, thr: usize, depth: usize) -> usize {
    if n <= thr || depth > 12 {
        return 0;
    }
    if k <= 1 {
        return n;
    }
    let chunk = n / k;
    let last = n - (k - 1) * chunk;
    let sk = (k as f64).sqrt() as usize;
    let mut m = 0;
    if chunk > 0 {
        m = m.max(funnel_k1_size(chunk, sk, thr, depth + 1));
    }
    if last > 0 && last < n {
        m = m.max(funnel_k1_size(last, sk, thr, depth + 1));
    } else if last == n {
        // all other chunks are empty: same slice again with width sqrt(k)
        m = m.max(funnel_k1_size(n, sk, thr, depth + 1));
    }
    m
}

fn run_cache_obl(ctx: &mut Ctx, entry: u8, small_thr: usize, hier: u8, simd: bool, wide: bool, allow_deep: bool, data: &Ints) {
    let keys = data.u64s();
    let n = keys.len();
    ctx.label(format!("shape_{}", data.shape()));
    ctx.label(format!("hierarchy_preset={hier}"));
    mark_sort_input(ctx, &keys);
    let h = hierarchy(hier);
    let k0 = ((((h.l2_size / h.l2_line_size.max(1)) as f64).sqrt() as usize).max(2)).min(n.min(64));
    let mut thr = small_thr;
    let deep = funnel_k1_size(n, k0, thr, 0);
    if deep > 0 {
        if allow_deep {
            ctx.label("funnel_width_1_above_threshold");
        } else {
            thr = thr.max(deep);
            ctx.label("small_threshold_raised(excluded:funnel_width_1)");
        }
    }
    ctx.label(format!("small_threshold={}", if thr == small_thr { format!("{thr}") } else { "raised".into() }));
    let config = CacheObliviousConfig { cache_hierarchy: h, use_simd: simd, small_threshold: thr, ..Default::default() };
    let mut sorter = CacheObliviousSort::with_config(config);
    let aspect = if entry == 0 { "sort" } else { "funnel" };
    let cls = if wide { "pair16" } else { "u64" };
    if wide {
        let mut v: Vec<(u64, u64)> = keys.iter().enumerate().map(|(i, k)| (*k, i as u64)).collect();
        let before = v.clone();
        let r = ctx.no_panic(aspect, || if entry == 0 { sorter.sort(&mut v) } else { sorter.cache_oblivious_sort(&mut v) });
        match r {
            Some(Ok(())) => {
                check_sort(ctx, aspect, cls, &before, &v);
            }
            Some(Err(e)) => ctx.fail(aspect, "err", cls, format!("{e}")),
            None => {}
        }
    } else {
        let mut v = keys.clone();
        let r = ctx.no_panic(aspect, || if entry == 0 { sorter.sort(&mut v) } else { sorter.cache_oblivious_sort(&mut v) });
        match r {
            Some(Ok(())) => {
                check_sort(ctx, aspect, cls, &keys, &v);
            }
            Some(Err(e)) => ctx.fail(aspect, "err", cls, format!("{e}")),
            None => {}
        }
    }
}

// ---------------------------------------------------------------------------------------
// ReplaceSelectSort / Vec::external_sort
// ---------------------------------------------------------------------------------------

fn scratch_dir(ctx: &mut Ctx, name: &str) -> Option<std::path::PathBuf> {
    let d = ctx.scratch.join(name);
    let _ = std::fs::remove_dir_all(&d);
    match std::fs::create_dir_all(&d) {
        Ok(()) => Some(d),
        Err(e) => {
            ctx.skip(format!("cannot create scratch dir: {e}"));
            None
        }
    }
}

fn rs_config(dir: &std::path::Path, buf: usize, ways: usize, compress: bool, cleanup: bool, secure: bool) -> ReplaceSelectSortConfig {
    ReplaceSelectSortConfig { memory_buffer_size: buf, temp_dir: dir.to_path_buf(), use_secure_memory: secure, compress_temp_files: compress, merge_ways: ways, cleanup_temp_files: cleanup }
}

fn cmp_nat<T: Ord>(a: &T, b: &T) -> Ordering {
    a.cmp(b)
}
fn cmp_rev<T: Ord>(a: &T, b: &T) -> Ordering {
    b.cmp(a)
}
fn cmp_low_u64(a: &u64, b: &u64) -> Ordering {
    (a & 0xFF).cmp(&(b & 0xFF)).then(a.cmp(b))
}
fn cmp_len_bytes(a: &Vec<u8>, b: &Vec<u8>) -> Ordering {
    a.len().cmp(&b.len()).then(a.cmp(b))
}

fn replsel_generic<T>(ctx: &mut Ctx, dir: &std::path::Path, cfg: ReplaceSelectSortConfig, cmp: u8, twice: bool, input: Vec<T>, alt: fn(&T, &T) -> Ordering, elem: usize)
where
    T: Ord + Clone + std::fmt::Debug + serde::Serialize + serde::de::DeserializeOwned + 'static,
{
    let f: fn(&T, &T) -> Ordering = match cmp {
        2 => cmp_rev::<T>,
        3 => alt,
        _ => cmp_nat::<T>,
    };
    let items = cfg.memory_buffer_size / elem;
    let n = input.len();
    let cls = format!(
        "{}{}",
        if items == 0 { "buffer<element" } else if n > items { "multi_run_possible" } else { "fits_buffer" },
        match cmp {
            2 => ",cmp=reverse",
            3 => ",cmp=custom_total",
            _ => "",
        }
    );
    ctx.label(format!("buffer_items={}", match items { 0 => "0", 1 => "1", 2..=5 => "2-5", 6..=100 => "6-100", _ => ">100" }));
    ctx.label(format!("cmp={cmp}"));
    let cleanup = cfg.cleanup_temp_files;
    let mut sorter = if cmp == 0 { ReplaceSelectSort::<T>::new(cfg) } else { ReplaceSelectSort::with_comparator(cfg, f) };
    let rounds = if twice && cleanup { 2 } else { 1 };
    for round in 0..rounds {
        let mut inp = input.clone();
        if round == 1 {
            inp.reverse();
        }
        let aspect = if round == 0 { "sort" } else { "sort_reuse" };
        match ctx.no_panic(aspect, || sorter.sort(inp.clone())) {
            Some(Ok(out)) => {
                check_sort_by(ctx, aspect, &cls, &inp, &out, &f);
                if round == 0 {
                    let runs = sorter.stats().runs_generated;
                    ctx.label(format!("runs={}", match runs { 0 => "0", 1 => "1", 2..=5 => "2-5", 6..=20 => "6-20", _ => ">20" }));
                }
            }
            Some(Err(e)) => ctx.fail(aspect, "err", &cls, format!("{e}")),
            None => {}
        }
    }
    drop(sorter);
    let _ = std::fs::remove_dir_all(dir);
}

#[allow(clippy::too_many_arguments)]
fn run_replsel(ctx: &mut Ctx, buf: usize, ways: usize, compress: bool, cleanup: bool, secure: bool, cmp: u8, twice: bool, strs: bool, data: &Ints) {
    let keys = data.u64s();
    ctx.label(format!("shape_{}", data.shape()));
    mark_sort_input(ctx, &keys);
    ctx.label(format!("merge_ways={ways}"));
    let Some(dir) = scratch_dir(ctx, "c11-replsel") else { return };
    let cfg = rs_config(&dir, buf, ways, compress, cleanup, secure);
    if strs {
        ctx.label("elem=Vec<u8>");
        // big-endian bytes without leading zeros: variable length, many shared prefixes
        let mut input: Vec<Vec<u8>> = keys.iter().map(|k| k.to_be_bytes().iter().copied().skip_while(|b| *b == 0).collect()).collect();
        if (buf + ways) % 8 == 0 {
            // one case in eight: every eleventh element (at most 12 of them) is 64-105 KiB long --
            // records larger than any read-ahead / staging buffer of the run files
            ctx.label("elem=Vec<u8>+records>64KiB");
            let mut made = 0;
            for (i, e) in input.iter_mut().enumerate() {
                if i % 11 == 0 && made < 12 {
                    let pad = 65_520 + (keys[i] % 40_000) as usize;
                    e.extend(std::iter::repeat((keys[i] as u8) | 1).take(pad));
                    made += 1;
                }
            }
        }
        replsel_generic(ctx, &dir, cfg, cmp, twice, input, cmp_len_bytes, std::mem::size_of::<Vec<u8>>());
    } else {
        ctx.label("elem=u64");
        replsel_generic(ctx, &dir, cfg, cmp, twice, keys, cmp_low_u64, 8);
    }
}

fn run_vec_ext(ctx: &mut Ctx, buf: usize, default_cfg: bool, data: &Ints) {
    let mut v = data.u64s();
    ctx.label(format!("shape_{}", data.shape()));
    mark_sort_input(ctx, &v);
    let before = v.clone();
    let Some(dir) = scratch_dir(ctx, "c11-vecext") else { return };
    let external = !default_cfg && v.len() * 8 > buf;
    ctx.label(if external { "path=external" } else { "path=in_memory" });
    let cls = if !external { "in_memory" } else if buf < 8 { "buffer<element" } else { "external" };
    let r = if default_cfg {
        ctx.no_panic("external_sort", || v.external_sort())
    } else {
        let cfg = rs_config(&dir, buf, 16, false, true, false);
        ctx.no_panic("external_sort", || v.external_sort_with_config(cfg))
    };
    match r {
        Some(Ok(())) => {
            check_sort(ctx, "external_sort", cls, &before, &v);
        }
        Some(Err(e)) => ctx.fail("external_sort", "err", cls, format!("{e}")),
        None => {}
    }
    let _ = std::fs::remove_dir_all(&dir);
}

// ---------------------------------------------------------------------------------------
// merges
// ---------------------------------------------------------------------------------------

fn run_multiway(ctx: &mut Ctx, tournament: bool, max_ways: usize, via_execute: bool, runs: &Runs) {
    let rs = runs.runs();
    mark_merge_input(ctx, &rs);
    ctx.label(format!("max_merge_ways={max_ways}"));
    let cfg = MultiWayMergeConfig { use_tournament_tree: tournament, max_merge_ways: max_ways, ..Default::default() };
    ctx.label(if rs.len() > max_ways { "path=hierarchical" } else if tournament && rs.len() > 8 { "path=tournament" } else if rs.len() <= 1 { "path=trivial" } else { "path=heap" });
    let cls = if rs.len() > 8 { "ways>8" } else { "ways<=8" };
    let r = if via_execute {
        let m = MultiWayMerge::new();
        ctx.no_panic("merge", || m.execute(&cfg, rs.clone()))
    } else {
        let mut m = MultiWayMerge::with_config(cfg.clone());
        let sources: Vec<VectorSource<i32>> = rs.iter().cloned().map(VectorSource::new).collect();
        ctx.no_panic("merge", || m.merge(sources))
    };
    match r {
        Some(Ok(out)) => {
            check_merge(ctx, "merge", cls, &rs, &out);
        }
        Some(Err(e)) => ctx.fail("merge", "err", cls, format!("{e}")),
        None => {}
    }
}

fn run_merge_two(ctx: &mut Ctx, runs: &Runs) {
    let mut rs = runs.runs();
    rs.resize(2, vec![]);
    mark_merge_input(ctx, &rs);
    if let Some(out) = ctx.no_panic("merge_two", || MergeOperations::merge_two(rs[0].clone(), rs[1].clone())) {
        check_merge(ctx, "merge_two", "", &rs, &out);
    }
}

fn run_merge_in_place(ctx: &mut Ctx, runs: &Runs, mid_kind: u8) {
    let mut rs = runs.runs();
    rs.resize(2, vec![]);
    mark_merge_input(ctx, &rs);
    let mut data: Vec<i32> = rs[0].iter().chain(rs[1].iter()).copied().collect();
    let mid = rs[0].len();
    let _ = mid_kind;
    ctx.label(if mid == 0 { "mid=0" } else if mid == data.len() { "mid=len" } else { "mid=inside" });
    if ctx.no_panic("merge_in_place", || MergeOperations::merge_in_place(&mut data, mid)).is_some() {
        check_merge(ctx, "merge_in_place", "", &rs, &data);
    }
}

// ---------------------------------------------------------------------------------------
// EnhancedLoserTree
// ---------------------------------------------------------------------------------------

fn run_loser_tree(ctx: &mut Ctx, stable: bool, secure: bool, cache_opt: bool, prefetch: usize, mode: u8, runs: &Runs) {
    let rs = runs.runs();
    mark_merge_input(ctx, &rs);
    ctx.label(format!("mode={}", ["merge_to_vec", "merge_all", "init+pop", "init+iterator", "init+peek+pop"][(mode % 5) as usize]));
    ctx.label(if stable { "stable_sort=true" } else { "stable_sort=false" });
    let config = LoserTreeConfig { initial_capacity: rs.len(), use_secure_memory: secure, stable_sort: stable, cache_optimized: cache_opt, prefetch_distance: prefetch, ..Default::default() };
    // element = (key, way, position); the comparator sees the key only, so equal keys from
    // different ways are distinguishable in the output
    type E = (i32, u16, u16);
    let mut tree = EnhancedLoserTree::with_comparator(config, |a: &E, b: &E| a.0.cmp(&b.0));
    for (w, run) in rs.iter().enumerate() {
        let items: Vec<E> = run.iter().enumerate().map(|(p, k)| (*k, w as u16, p as u16)).collect();
        if let Some(Err(e)) = ctx.no_panic("add_way", || tree.add_way(items.into_iter())) {
            ctx.fail("add_way", "err", "", format!("{e}"));
            return;
        }
    }
    ctx.eq("num_ways", "", &tree.num_ways(), &rs.len());
    let cls = match rs.len() {
        0 => "ways=0",
        1 => "ways=1",
        _ => "ways>=2",
    };
    let mut want: Vec<E> = rs.iter().enumerate().flat_map(|(w, run)| run.iter().enumerate().map(move |(p, k)| (*k, w as u16, p as u16))).collect();
    want.sort_by_key(|e| e.0); // stable: equal keys keep (way, position) order
    let out: Option<Vec<E>> = match mode % 5 {
        0 | 1 => {
            let r = if mode % 5 == 0 {
                ctx.no_panic("merge", || tree.merge_to_vec())
            } else {
                ctx.no_panic("merge", || {
                    let mut o: Vec<E> = vec![];
                    tree.merge_all(&mut o).map(|_| o)
                })
            };
            match r {
                Some(Ok(o)) => Some(o),
                Some(Err(e)) => {
                    if rs.is_empty() {
                        ctx.label("refused_zero_ways"); // "No input ways provided" is the documented refusal
                    } else {
                        ctx.fail("merge", "err", cls, format!("{e}"));
                    }
                    None
                }
                None => None,
            }
        }
        m => {
            match ctx.no_panic("initialize", || tree.initialize()) {
                Some(Ok(())) => {}
                Some(Err(e)) => {
                    if rs.is_empty() {
                        ctx.label("refused_zero_ways");
                        // an uninitialised empty tree must still answer "nothing"
                        ctx.eq("empty_tree", "peek", &tree.peek().cloned(), &None);
                        match ctx.no_panic("empty_tree", || tree.pop()) {
                            Some(Ok(x)) => {
                                ctx.eq("empty_tree", "pop", &x, &None);
                            }
                            Some(Err(e)) => ctx.fail("empty_tree", "err", "pop", format!("{e}")),
                            None => {}
                        }
                        ctx.eq("empty_tree", "is_empty", &tree.is_empty(), &true);
                    } else {
                        ctx.fail("initialize", "err", cls, format!("{e}"));
                    }
                    return;
                }
                None => return,
            }
            let total = want.len();
            let mut o: Vec<E> = vec![];
            let r = ctx.no_panic("pop", || {
                if m == 3 {
                    // bounded: a broken tree must not loop forever
                    for x in tree.by_ref().take(total + 2) {
                        o.push(x);
                    }
                    Ok(())
                } else {
                    for _ in 0..total + 2 {
                        let pk = if m == 4 { Some(tree.peek().cloned()) } else { None };
                        match tree.pop() {
                            Ok(Some(x)) => {
                                if let Some(pk) = pk {
                                    if pk != Some(x) {
                                        return Err(format!("peek {:?} != following pop {:?}", pk, x));
                                    }
                                }
                                o.push(x)
                            }
                            Ok(None) => {
                                if let Some(Some(pk)) = pk {
                                    return Err(format!("peek {:?} but pop returned None", pk));
                                }
                                break;
                            }
                            Err(e) => return Err(format!("pop error: {e}")),
                        }
                    }
                    Ok(())
                }
            });
            match r {
                Some(Ok(())) => {
                    ctx.eq("is_empty_after_drain", cls, &tree.is_empty(), &true);
                    Some(o)
                }
                Some(Err(e)) => {
                    ctx.fail("pop", "mismatch", "peek_pop", e);
                    None
                }
                None => None,
            }
        }
    };
    let Some(out) = out else { return };
    // ordered by key, same multiset of (key, way, pos)
    let ordered = out.windows(2).all(|w| w[0].0 <= w[1].0);
    ctx.ensure("merge_sorted", cls, ordered, || format!("keys not ordered: {:?}", crate::engine::clip(&format!("{:?}", out), 300)));
    let (mut a, mut b) = (want.clone(), out.clone());
    a.sort();
    b.sort();
    ctx.ensure("merge_union", cls, a == b, || format!("merged multiset differs: want {} items got {}; want {} got {}", want.len(), out.len(), crate::engine::clip(&format!("{:?}", want), 200), crate::engine::clip(&format!("{:?}", out), 200)));
    if stable && ordered && a == b {
        ctx.ensure("merge_stable", cls, out == want, || {
            let i = out.iter().zip(want.iter()).position(|(x, y)| x != y).unwrap_or(0);
            format!("stable_sort=true but equal keys are not in (way, position) order at index {i}: got {:?} want {:?}", out.get(i), want.get(i))
        });
    }
}

// ---------------------------------------------------------------------------------------
// SIMD merge helpers
// ---------------------------------------------------------------------------------------

fn run_simd_merge(ctx: &mut Ctx, avx2: bool, min_vec: usize, prefetch: usize, runs: &Runs, unsorted: &[i32]) {
    let rs = runs.runs();
    mark_merge_input(ctx, &rs);
    ctx.label(format!("use_avx2={avx2}"));
    ctx.label(format!("min_vector_size={min_vec}"));
    let cmp = SimdComparator::with_config(SimdConfig { use_avx2: avx2, use_bmi2: avx2, min_vector_size: min_vec, prefetch_distance: prefetch });
    let empty: Vec<i32> = vec![];
    let (l, r) = (rs.first().unwrap_or(&empty), rs.get(1).unwrap_or(&empty));
    if let Some(out) = ctx.no_panic("merge_sorted_i32", || cmp.merge_sorted_i32(l, r)) {
        check_merge(ctx, "merge_sorted_i32", if l.len() + r.len() >= min_vec * 2 { "vector_path" } else { "scalar_path" }, &[l.clone(), r.clone()], &out);
    }
    if let Some(out) = ctx.no_panic("merge_multiple_sorted", || SimdOperations::merge_multiple_sorted(rs.clone())) {
        check_merge(ctx, "merge_multiple_sorted", "", &rs, &out);
    }
    // element-wise comparison of two equally long (unsorted) slices
    let half = unsorted.len() / 2;
    let (a, b) = (&unsorted[..half], &unsorted[half..2 * half]);
    let want: Vec<Ordering> = a.iter().zip(b.iter()).map(|(x, y)| x.cmp(y)).collect();
    let ccls = if half >= min_vec { "vector_path" } else { "scalar_path" };
    match ctx.no_panic("compare_i32_slices", || cmp.compare_i32_slices(a, b)) {
        Some(Ok(got)) => {
            ctx.eq("compare_i32_slices", ccls, &got, &want);
        }
        Some(Err(e)) => ctx.fail("compare_i32_slices", "err", ccls, format!("{e}")),
        None => {}
    }
    let pairs: Vec<(i32, i32)> = a.iter().copied().zip(b.iter().copied()).collect();
    if let Some(got) = ctx.no_panic("parallel_compare_i32", || SimdOperations::parallel_compare_i32(&pairs)) {
        ctx.eq("parallel_compare_i32", "", &got, &want);
    }
    // minimum
    let check_min = |ctx: &mut Ctx, what: &str, vals: &[i32], got: Option<(usize, i32)>| match (vals.iter().min(), got) {
        (None, None) => {
            ctx.out.checks += 1;
        }
        (Some(m), Some((i, v))) => {
            ctx.ensure(what, "", v == *m && vals.get(i) == Some(&v), || format!("min of {:?} reported as value {} at index {}", crate::engine::clip(&format!("{:?}", vals), 200), v, i));
        }
        (m, g) => ctx.fail(what, "mismatch", "", format!("min {:?} reported {:?}", m, g)),
    };
    for vals in [unsorted, a, l.as_slice()] {
        if let Some(got) = ctx.no_panic("find_min_i32", || cmp.find_min_i32(vals)) {
            check_min(ctx, "find_min_i32", vals, got);
        }
    }
    let arrs: Vec<&[i32]> = rs.iter().map(|r| r.as_slice()).chain(std::iter::once(unsorted)).collect();
    if let Some(got) = ctx.no_panic("find_multiple_mins", || SimdOperations::find_multiple_mins(&arrs)) {
        if ctx.eq("find_multiple_mins", "len", &got.len(), &arrs.len()) {
            for (vals, g) in arrs.iter().zip(got) {
                check_min(ctx, "find_multiple_mins", vals, g);
            }
        }
    }
}

// ---------------------------------------------------------------------------------------
// set_ops (terark set_op.hpp semantics; references written from the doc comments)
// ---------------------------------------------------------------------------------------

fn counts(v: &[i32]) -> BTreeMap<i32, usize> {
    let mut m = BTreeMap::new();
    for x in v {
        *m.entry(*x).or_insert(0) += 1;
    }
    m
}

fn run_set_ops(ctx: &mut Ctx, runs: &Runs, stride: usize, swap: bool, thr: usize) {
    let mut rs = runs.runs();
    rs.resize(2, vec![]);
    let mut a: Vec<i32> = rs[0].iter().copied().step_by(stride.max(1)).collect();
    let mut b: Vec<i32> = rs[1].clone();
    if swap {
        std::mem::swap(&mut a, &mut b);
    }
    let (ca, cb) = (counts(&a), counts(&b));
    let common = ca.keys().any(|k| cb.contains_key(k));
    let noncommon = ca.keys().any(|k| !cb.contains_key(k)) || cb.keys().any(|k| !ca.contains_key(k));
    if !a.is_empty() && !b.is_empty() && common && noncommon {
        ctx.nontrivial();
    }
    let small_side = a.len().saturating_mul(thr) < b.len();
    ctx.label(if small_side { "fast=binary_search_variant" } else { "fast=linear_variant" });
    ctx.label(format!("threshold={thr}"));
    if ca.values().any(|c| *c > 1) || cb.values().any(|c| *c > 1) {
        ctx.label("has_duplicates");
    }
    let cls = if small_side { "1small" } else { "linear" };
    type E = (i32, u8);
    let ta: Vec<E> = a.iter().map(|k| (*k, 1)).collect();
    let tb: Vec<E> = b.iter().map(|k| (*k, 2)).collect();
    let pred = |x: &E, y: &E| x.0.cmp(&y.0);

    // "copies from the first sequence and does NOT increment second iterator": every element
    // of the first sequence whose value occurs in the second, taken from the first
    let want1: Vec<E> = ta.iter().filter(|e| cb.contains_key(&e.0)).copied().collect();
    // "...copied from second sequence": every element of the second whose value occurs in the first
    let want2: Vec<E> = tb.iter().filter(|e| ca.contains_key(&e.0)).copied().collect();
    if let Some(g) = ctx.no_panic("multiset_intersection", || so::multiset_intersection(&ta, &tb, pred)) {
        ctx.eq("multiset_intersection", "", &g, &want1);
    }
    if let Some(g) = ctx.no_panic("multiset_1small_intersection", || so::multiset_1small_intersection(&ta, &tb, pred)) {
        ctx.eq("multiset_1small_intersection", "", &g, &want1);
    }
    if let Some(g) = ctx.no_panic("multiset_fast_intersection", || so::multiset_fast_intersection(&ta, &tb, pred, thr)) {
        ctx.eq("multiset_fast_intersection", cls, &g, &want1);
    }
    if let Some(g) = ctx.no_panic("multiset_intersection2", || so::multiset_intersection2(&ta, &tb, pred)) {
        ctx.eq("multiset_intersection2", "", &g, &want2);
    }
    if let Some(g) = ctx.no_panic("multiset_1small_intersection2", || so::multiset_1small_intersection2(&ta, &tb, pred)) {
        ctx.eq("multiset_1small_intersection2", "", &g, &want2);
    }
    if let Some(g) = ctx.no_panic("multiset_fast_intersection2", || so::multiset_fast_intersection2(&ta, &tb, pred, thr)) {
        ctx.eq("multiset_fast_intersection2", cls, &g, &want2);
    }
    // union: all elements of both, ordered by key (order among equal keys is not documented)
    if let Some(g) = ctx.no_panic("multiset_union", || so::multiset_union(&ta, &tb, pred)) {
        let ordered = g.windows(2).all(|w| w[0].0 <= w[1].0);
        let mut gs = g.clone();
        gs.sort();
        let mut want: Vec<E> = ta.iter().chain(tb.iter()).copied().collect();
        want.sort();
        ctx.ensure("multiset_union", "", ordered && gs == want, || format!("a={:?} b={:?} got {:?}", crate::engine::clip(&format!("{:?}", a), 150), crate::engine::clip(&format!("{:?}", b), 150), crate::engine::clip(&format!("{:?}", g), 200)));
    }
    // difference (std::set_difference): value v occurs max(count_a - count_b, 0) times, taken from a
    let diff_counts: Vec<(i32, usize)> = ca.iter().map(|(k, c)| (*k, c.saturating_sub(*cb.get(k).unwrap_or(&0)))).filter(|(_, c)| *c > 0).collect();
    let want_diff: Vec<E> = diff_counts.iter().flat_map(|(k, c)| std::iter::repeat((*k, 1u8)).take(*c)).collect();
    if let Some(g) = ctx.no_panic("multiset_difference", || so::multiset_difference(&ta, &tb, pred)) {
        ctx.eq("multiset_difference", "", &g, &want_diff);
    }
    // unique forms on plain integers
    let icmp = |x: &i32, y: &i32| x.cmp(y);
    let want_si: Vec<i32> = ca.keys().filter(|k| cb.contains_key(k)).copied().collect();
    let want_su: Vec<i32> = ca.keys().chain(cb.keys()).copied().collect::<BTreeSet<i32>>().into_iter().collect();
    let want_sd: Vec<i32> = diff_counts.iter().map(|(k, _)| *k).collect();
    if let Some(g) = ctx.no_panic("set_intersection", || so::set_intersection(&a, &b, icmp)) {
        ctx.eq("set_intersection", "", &g, &want_si);
    }
    if let Some(g) = ctx.no_panic("set_union", || so::set_union(&a, &b, icmp)) {
        ctx.eq("set_union", "", &g, &want_su);
    }
    if let Some(g) = ctx.no_panic("set_difference", || so::set_difference(&a, &b, icmp)) {
        ctx.eq("set_difference", "", &g, &want_sd);
    }
    for src in [&a, &b] {
        let want: Vec<i32> = counts(src).keys().copied().collect();
        let mut d = src.clone();
        if let Some(n) = ctx.no_panic("set_unique", || so::set_unique(&mut d, |x, y| x == y)) {
            if ctx.ensure("set_unique", "len", n <= d.len(), || format!("returned length {} > {}", n, d.len())) {
                ctx.eq("set_unique", "", &d[..n].to_vec(), &want);
            }
            // the slice as a whole is still a permutation of the input (swap based)
            check_perm_only(ctx, "set_unique_keeps_elements", "", src, &d);
        }
        let mut d = src.clone();
        if let Some(n) = ctx.no_panic("set_unique_default", || so::set_unique_default(&mut d)) {
            if n <= d.len() {
                ctx.eq("set_unique_default", "", &d[..n].to_vec(), &want);
            } else {
                ctx.fail("set_unique_default", "mismatch", "len", format!("returned length {} > {}", n, d.len()));
            }
        }
    }
}

// ---------------------------------------------------------------------------------------
// SetOperations (multi-way)
// ---------------------------------------------------------------------------------------

fn run_set_operations(ctx: &mut Ctx, bitmask: bool, thr: usize, strict: bool, modulus: i32, runs: &Runs) {
    let mut rs = runs.runs();
    if strict {
        for r in rs.iter_mut() {
            r.dedup();
        }
    }
    let k = rs.len();
    mark_merge_input(ctx, &rs);
    let has_inner_dups = rs.iter().any(|r| r.windows(2).any(|w| w[0] == w[1]));
    ctx.label(if has_inner_dups { "duplicates_inside_a_way" } else { "ways_are_sets" });
    let uses_bitmask = bitmask && k <= thr;
    ctx.label(if uses_bitmask { "intersection=bit_mask" } else { "intersection=general" });
    let cls = format!("{}{}", if uses_bitmask { if k > 32 { "bit_mask,ways>32" } else { "bit_mask" } } else { "general" }, if has_inner_dups { ",inner_dups" } else { "" });
    let cfg = SetOperationsConfig { use_bit_mask_optimization: bitmask, bit_mask_threshold: thr, ..Default::default() };
    let its = |rs: &Vec<Vec<i32>>| -> Vec<std::vec::IntoIter<i32>> { rs.iter().cloned().map(|r| r.into_iter()).collect() };
    let per_way: Vec<BTreeMap<i32, usize>> = rs.iter().map(|r| counts(r)).collect();
    let all_vals: BTreeSet<i32> = rs.iter().flatten().copied().collect();
    let in_all: Vec<i32> = if k == 0 { vec![] } else { all_vals.iter().filter(|v| per_way.iter().all(|m| m.contains_key(v))).copied().collect() };
    if k >= 2 && !in_all.is_empty() && in_all.len() < all_vals.len() {
        ctx.nontrivial();
    }

    // intersection: "Returns elements that appear in ALL input sequences"
    let mut ops = SetOperations::with_config(cfg.clone());
    let got_i = match ctx.no_panic("intersection", || ops.intersection(its(&rs))) {
        Some(Ok(g)) => Some(g),
        Some(Err(e)) => {
            ctx.fail("intersection", "err", &cls, format!("{e}"));
            None
        }
        None => None,
    };
    if let Some(g) = &got_i {
        let gset: BTreeSet<i32> = g.iter().copied().collect();
        let sound = gset.iter().all(|v| in_all.binary_search(v).is_ok());
        let complete = in_all.iter().all(|v| gset.contains(v));
        let ordered = g.windows(2).all(|w| w[0] <= w[1]);
        ctx.ensure("intersection", &cls, sound && complete && ordered, || {
            format!("ways={} values in all ways {:?}, got {:?} (sound={sound} complete={complete} ordered={ordered}); ways {:?}", k, crate::engine::clip(&format!("{:?}", in_all), 120), crate::engine::clip(&format!("{:?}", g), 120), crate::engine::clip(&format!("{:?}", rs), 250))
        });
        if !has_inner_dups {
            ctx.eq("intersection_exact", &cls, g, &in_all);
        }
        if k > 0 {
            ctx.label(if ops.stats().used_bit_mask { "stats_used_bit_mask" } else { "stats_general" });
        }
    }
    // the two variants of the same operation must agree (only where the bit-mask variant is
    // within its documented range of <= 32 ways)
    if k <= 32 && k > 0 {
        let mut o1 = SetOperations::with_config(SetOperationsConfig { use_bit_mask_optimization: true, bit_mask_threshold: 32, ..Default::default() });
        let mut o2 = SetOperations::with_config(SetOperationsConfig { use_bit_mask_optimization: false, bit_mask_threshold: 32, ..Default::default() });
        let r1 = ctx.no_panic("intersection_variants", || o1.intersection(its(&rs)));
        let r2 = ctx.no_panic("intersection_variants", || o2.intersection(its(&rs)));
        if let (Some(Ok(x)), Some(Ok(y))) = (r1, r2) {
            ctx.ensure("intersection_variants_agree", if has_inner_dups { "inner_dups" } else { "" }, x == y, || format!("bit-mask variant {:?} != general variant {:?}; ways {:?}", crate::engine::clip(&format!("{:?}", x), 120), crate::engine::clip(&format!("{:?}", y), 120), crate::engine::clip(&format!("{:?}", rs), 250)));
        }
    }
    // union: "all unique elements from input sequences in sorted order"
    let mut ops = SetOperations::with_config(cfg.clone());
    match ctx.no_panic("union", || ops.union(its(&rs))) {
        Some(Ok(g)) => {
            let want: Vec<i32> = all_vals.iter().copied().collect();
            ctx.eq("union", "", &g, &want);
        }
        Some(Err(e)) => ctx.fail("union", "err", "", format!("{e}")),
        None => {}
    }
    // count_frequencies: total occurrences of each value over all ways
    let mut ops = SetOperations::with_config(cfg.clone());
    match ctx.no_panic("count_frequencies", || ops.count_frequencies(its(&rs))) {
        Some(Ok(g)) => {
            let mut want: HashMap<i32, usize> = HashMap::new();
            for v in rs.iter().flatten() {
                *want.entry(*v).or_insert(0) += 1;
            }
            ctx.eq("count_frequencies", "", &g.into_iter().collect::<BTreeMap<_, _>>(), &want.into_iter().collect::<BTreeMap<_, _>>());
        }
        Some(Err(e)) => {
            if k == 0 {
                ctx.label("refused_zero_ways");
            } else {
                ctx.fail("count_frequencies", "err", "", format!("{e}"));
            }
        }
        None => {}
    }
    // filter_merge: the merged sequence (duplicates kept) restricted to the predicate
    let mut ops = SetOperations::with_config(cfg);
    match ctx.no_panic("filter_merge", || ops.filter_merge(its(&rs), move |x: &i32| x.rem_euclid(modulus) != 0)) {
        Some(Ok(g)) => {
            let filtered: Vec<Vec<i32>> = rs.iter().map(|r| r.iter().copied().filter(|x| x.rem_euclid(modulus) != 0).collect()).collect();
            check_merge(ctx, "filter_merge", "", &filtered, &g);
        }
        Some(Err(e)) => {
            if k == 0 {
                ctx.label("refused_zero_ways");
            } else {
                ctx.fail("filter_merge", "err", "", format!("{e}"));
            }
        }
        None => {}
    }
}
