//! C10 — vectors, queues and string vectors match their standard-library models.
//!
//! Oracle: a `Vec<u64>` / `VecDeque<u64>` / `Vec<String>` model is driven by the same history and
//! compared after every operation (`as_slice()`/`get`/`front`/`back`/`len`/`iter`/`Debug`).
//! Elements that own heap memory are `Tracked` values: every construction / clone / drop is
//! recorded in a per-case registry, so a double drop, a premature drop or a leak is a semantic
//! discrepancy even in the non-ASan worker (the real `Box` is only freed when the registry says
//! the instance is alive, so a detected double drop never becomes a double free in the worker).

use crate::engine::{decode, Ctx, Plan, Prop, Tier};
use crate::gen;
use proptest::prelude::*;
use proptest::strategy::Union;
use serde::{Deserialize, Serialize};
use serde_json::Value;
use std::cell::RefCell;
use std::collections::{BTreeSet, HashMap, HashSet, VecDeque};
use std::mem::ManuallyDrop;
use zipora::containers::specialized::{
    AdvancedStringConfig, AdvancedStringVec, AutoGrowCircularQueue, BitPackedStringVec32, BitPackedStringVec64, FixedCircularQueue, FixedLenStrVec,
    SortableStrVec, ValVec32, ZoSortedStrVec,
};
use zipora::containers::FastVec;
use zipora::memory::bump::BumpVec;
use zipora::memory::{BumpAllocator, CacheAlignedVec, MmapVec, MmapVecConfig};

type ZR<T> = zipora::Result<T>;

pub struct P;

// ---------------------------------------------------------------------------------------
// drop-tracking element
// ---------------------------------------------------------------------------------------

#[derive(Default)]
struct Registry {
    next: u64,
    /// instance serial -> id of every instance that was constructed and not yet dropped
    live: HashMap<u64, u64>,
    /// instances the oracle already reported as "dropped while still held" (never touched again)
    zombies: HashSet<u64>,
    /// (instance, id) of drops of something that is not alive: double drop / drop of garbage
    bad_drops: Vec<(u64, u64)>,
    /// live instances whose heap payload did not match at drop time
    corrupt: u64,
}

thread_local! {
    static REG: RefCell<Registry> = RefCell::new(Registry::default());
}

const BOX_MAGIC: u64 = 0xA5A5_5A5A_C3C3_3C3C;
const INST_BASE: u64 = 0x7AC0_0000_0000;

pub struct Tracked {
    id: u64,
    inst: u64,
    payload: ManuallyDrop<Box<u64>>,
}

impl Tracked {
    fn new(id: u64) -> Tracked {
        let inst = REG.with(|r| {
            let mut r = r.borrow_mut();
            r.next += 1;
            let i = INST_BASE + r.next;
            r.live.insert(i, id);
            i
        });
        Tracked { id, inst, payload: ManuallyDrop::new(Box::new(id ^ BOX_MAGIC ^ inst)) }
    }
}

impl Clone for Tracked {
    fn clone(&self) -> Self {
        Tracked::new(self.id)
    }
}

impl Drop for Tracked {
    fn drop(&mut self) {
        let (inst, id) = (self.inst, self.id);
        let alive = REG
            .try_with(|r| match r.try_borrow_mut() {
                Ok(mut r) => {
                    if r.live.get(&inst) == Some(&id) {
                        r.live.remove(&inst);
                        true
                    } else if r.zombies.remove(&inst) {
                        false
                    } else {
                        if r.bad_drops.len() < 64 {
                            r.bad_drops.push((inst, id));
                        }
                        false
                    }
                }
                Err(_) => false,
            })
            .unwrap_or(false);
        if alive {
            // only now is it safe to touch the heap payload
            if **self.payload != id ^ BOX_MAGIC ^ inst {
                let _ = REG.try_with(|r| {
                    if let Ok(mut r) = r.try_borrow_mut() {
                        r.corrupt += 1;
                    }
                });
            }
            unsafe { ManuallyDrop::drop(&mut self.payload) }
        }
    }
}

impl std::fmt::Debug for Tracked {
    fn fmt(&self, f: &mut std::fmt::Formatter<'_>) -> std::fmt::Result {
        write!(f, "{}", self.id)
    }
}
impl PartialEq for Tracked {
    fn eq(&self, o: &Self) -> bool {
        self.id == o.id
    }
}

fn reg_reset() {
    REG.with(|r| {
        let mut r = r.borrow_mut();
        // instances still alive here belong to a previous case that ended abnormally; their boxes
        // stay leaked on purpose (never free something we cannot prove is ours)
        let next = r.next;
        *r = Registry::default();
        r.next = next;
    });
}
fn reg_live() -> HashMap<u64, u64> {
    REG.with(|r| r.borrow().live.clone())
}
fn reg_take_bad() -> (Vec<(u64, u64)>, u64) {
    REG.with(|r| {
        let mut r = r.borrow_mut();
        let c = r.corrupt;
        r.corrupt = 0;
        (std::mem::take(&mut r.bad_drops), c)
    })
}
fn reg_forget(inst: u64) {
    REG.with(|r| {
        r.borrow_mut().live.remove(&inst);
    });
}
fn reg_zombie(inst: u64) {
    REG.with(|r| {
        r.borrow_mut().zombies.insert(inst);
    });
}
fn reg_is_zombie(inst: u64) -> bool {
    REG.with(|r| r.borrow().zombies.contains(&inst))
}

/// Compare the registry with the instances the containers are supposed to hold right now.
fn check_registry(ctx: &mut Ctx, cls: &str, held: &[u64]) {
    let (bad, corrupt) = reg_take_bad();
    ctx.ensure("double_drop", cls, bad.is_empty(), || {
        format!("{} drop(s) of an element that is not alive (already dropped or never constructed), ids {:?}", bad.len(), bad.iter().take(6).map(|b| b.1).collect::<Vec<_>>())
    });
    ctx.ensure("payload", cls, corrupt == 0, || format!("{corrupt} element(s) whose heap payload was overwritten"));
    let live = reg_live();
    let held_set: HashSet<u64> = held.iter().copied().collect();
    let mut leaked: Vec<(u64, u64)> = live.iter().filter(|(i, _)| !held_set.contains(i)).map(|(i, d)| (*i, *d)).collect();
    leaked.sort();
    ctx.ensure("leak", cls, leaked.is_empty(), || {
        format!("{} element(s) alive that no container holds (leaked), ids {:?}", leaked.len(), leaked.iter().take(8).map(|b| b.1).collect::<Vec<_>>())
    });
    for (i, _) in &leaked {
        reg_forget(*i);
    }
    let mut dead: Vec<u64> = held.iter().copied().filter(|i| !live.contains_key(i) && !reg_is_zombie(*i)).collect();
    dead.sort();
    dead.dedup();
    ctx.ensure("dropped_while_held", cls, dead.is_empty(), || format!("{} element(s) held by the container were already dropped", dead.len()));
    for i in dead {
        reg_zombie(i);
    }
    let mut sorted = held.to_vec();
    sorted.sort();
    let dup = sorted.windows(2).any(|w| w[0] == w[1]);
    ctx.ensure("aliased_element", cls, !dup, || "the same element instance is held twice (bitwise duplicate)".to_string());
}

// ---------------------------------------------------------------------------------------
// element abstraction
// ---------------------------------------------------------------------------------------

pub trait Elem: Clone + std::fmt::Debug + PartialEq + 'static {
    const COPY: bool;
    const NAME: &'static str;
    fn make(id: u64) -> Self;
    fn key_of(id: u64) -> u64;
    fn key(&self) -> u64;
    fn inst(&self) -> Option<u64> {
        None
    }
    // Copy-only entry points (None = the type does not offer it for this element)
    fn fv_fill(_v: &mut FastVec<Self>, _a: usize, _b: usize, _x: Self) -> Option<ZR<()>> {
        None
    }
    fn fv_copy_from(_v: &mut FastVec<Self>, _s: &[Self]) -> Option<ZR<()>> {
        None
    }
    fn fv_extend_slice(_v: &mut FastVec<Self>, _s: &[Self]) -> Option<ZR<()>> {
        None
    }
    fn vv_extend_copy(_v: &mut ValVec32<Self>, _s: &[Self]) -> Option<ZR<()>> {
        None
    }
    fn vv_push_n(_v: &mut ValVec32<Self>, _n: u32, _x: Self) -> Option<ZR<()>> {
        None
    }
}

impl Elem for Tracked {
    const COPY: bool = false;
    const NAME: &'static str = "tracked";
    fn make(id: u64) -> Self {
        Tracked::new(id)
    }
    fn key_of(id: u64) -> u64 {
        id
    }
    fn key(&self) -> u64 {
        self.id
    }
    fn inst(&self) -> Option<u64> {
        Some(self.inst)
    }
}

macro_rules! copy_elem {
    ($t:ty, $name:literal, $conv:expr) => {
        impl Elem for $t {
            const COPY: bool = true;
            const NAME: &'static str = $name;
            fn make(id: u64) -> Self {
                ($conv)(id)
            }
            fn key_of(id: u64) -> u64 {
                ($conv)(id) as u64
            }
            fn key(&self) -> u64 {
                *self as u64
            }
            fn fv_fill(v: &mut FastVec<Self>, a: usize, b: usize, x: Self) -> Option<ZR<()>> {
                Some(v.fill_range_fast(a, b, x))
            }
            fn fv_copy_from(v: &mut FastVec<Self>, s: &[Self]) -> Option<ZR<()>> {
                Some(v.copy_from_slice_fast(s))
            }
            fn fv_extend_slice(v: &mut FastVec<Self>, s: &[Self]) -> Option<ZR<()>> {
                Some(v.extend_from_slice_fast(s))
            }
            fn vv_extend_copy(v: &mut ValVec32<Self>, s: &[Self]) -> Option<ZR<()>> {
                Some(v.extend_from_slice_copy(s))
            }
            fn vv_push_n(v: &mut ValVec32<Self>, n: u32, x: Self) -> Option<ZR<()>> {
                Some(v.push_n_copy(n, x))
            }
        }
    };
}
copy_elem!(u64, "u64", |id: u64| id.wrapping_mul(0x9E37_79B9_7F4A_7C15) ^ (id << 1));
copy_elem!(u8, "u8", |id: u64| (id.wrapping_mul(37) ^ (id >> 3)) as u8);

fn keys<T: Elem>(s: &[T]) -> Vec<u64> {
    s.iter().map(|x| x.key()).collect()
}
fn insts<T: Elem>(s: &[T]) -> Vec<u64> {
    s.iter().filter_map(|x| x.inst()).collect()
}

// ---------------------------------------------------------------------------------------
// cases
// ---------------------------------------------------------------------------------------

#[derive(Clone, Debug, Serialize, Deserialize)]
pub enum Pos {
    First,
    Last,
    Len,
    Past,
    Frac(u16),
}
impl Pos {
    fn at(&self, len: usize) -> usize {
        match self {
            Pos::First => 0,
            Pos::Last => len.saturating_sub(1),
            Pos::Len => len,
            Pos::Past => len + 1,
            Pos::Frac(i) => gen::idx(*i, len),
        }
    }
}
fn pos_tag(i: usize, len: usize) -> &'static str {
    if i > len {
        "past_len"
    } else if i == len {
        "at_len"
    } else if i == 0 {
        "at_0"
    } else if i + 1 == len {
        "at_last"
    } else {
        "mid"
    }
}

#[derive(Clone, Copy, Debug, PartialEq, Eq)]
pub enum VK {
    Push,
    Pop,
    Insert,
    Remove,
    Resize,
    ResizeWith,
    Extend,
    ExtendSlice,
    FillRange,
    CopyFrom,
    Truncate,
    Clear,
    Reserve,
    EnsureCap,
    Shrink,
    Set,
    Get,
    Clone,
    PushN,
    PopBulk,
    Iter,
}

#[derive(Clone, Debug, Serialize, Deserialize)]
pub enum VOp {
    Push(u32),
    Pop,
    Insert(Pos, u32),
    Remove(Pos),
    Resize(usize, u32),
    ResizeWith(usize),
    Extend(Vec<u32>),
    ExtendSlice(Vec<u32>),
    FillRange(Pos, Pos, u32),
    CopyFrom(Vec<u32>),
    Truncate(Pos),
    Clear,
    Reserve(usize),
    EnsureCap(usize),
    Shrink,
    Set(Pos, u32, bool),
    Get(Pos),
    Clone(bool),
    PushN(usize, u32),
    PopBulk(usize),
    Iter,
}

#[derive(Clone, Debug, Serialize, Deserialize)]
pub enum QOp {
    PushBack(u32),
    PopFront,
    PushBulk(Vec<u32>),
    PopBulk(usize),
    Front,
    Back,
    Reserve(usize),
    Clear,
    Clone(bool),
}

#[derive(Clone, Debug, Serialize, Deserialize)]
pub enum Needle {
    Pool(u16),
    Prefix(u16, u8),
    Plus(u16, u8),
    Lit(String),
}

#[derive(Clone, Debug, Serialize, Deserialize)]
pub enum SOp {
    Push(u16),
    PushLit(String),
    PushSeries(u16, u16),
    Get(Pos),
    Sort(u8),
    Search(Needle),
    Find(Needle),
    CountPrefix(Needle),
    Range(Needle, Needle),
    Clear,
    Clone(bool),
    Iter,
    Huge(u8),
    Reserve(u16),
}

#[derive(Clone, Debug, Serialize, Deserialize)]
pub enum Case {
    Vec { cap: usize, ops: Vec<VOp> },
    Queue { cap: usize, ops: Vec<QOp> },
    Str { pool: Vec<String>, ops: Vec<SOp> },
    Zo { pool: Vec<String>, picks: Vec<u16>, ctor: u8, ops: Vec<SOp> },
    CopyShorter { n: usize, m: usize },
    /// FixedLenStrVec at its 16 MiB arena limit: strings of `unit` bytes until fewer than
    /// `slack` bytes remain, then strings of the `tail` lengths (0..=255)
    ArenaLimit { unit: u8, slack: u16, tail: Vec<u8> },
}

// ---------------------------------------------------------------------------------------
// generators
// ---------------------------------------------------------------------------------------

fn pos() -> BoxedStrategy<Pos> {
    prop_oneof![2 => Just(Pos::First), 2 => Just(Pos::Last), 2 => Just(Pos::Len), 1 => Just(Pos::Past), 3 => any::<u16>().prop_map(Pos::Frac)].boxed()
}
fn id() -> BoxedStrategy<u32> {
    (1u32..1000).boxed()
}
fn ids(max: usize) -> BoxedStrategy<Vec<u32>> {
    gen::size_around(&[8, 64], max).prop_flat_map(|n| proptest::collection::vec(1u32..1000, n)).boxed()
}
fn small(max: usize) -> BoxedStrategy<usize> {
    gen::size_around(&[8, 64], max)
}

fn vop(kinds: Vec<(u32, VK)>, big: usize) -> BoxedStrategy<VOp> {
    let v: Vec<(u32, BoxedStrategy<VOp>)> = kinds
        .into_iter()
        .map(|(w, k)| {
            let s: BoxedStrategy<VOp> = match k {
                VK::Push => id().prop_map(VOp::Push).boxed(),
                VK::Pop => Just(VOp::Pop).boxed(),
                VK::Insert => (pos(), id()).prop_map(|(p, i)| VOp::Insert(p, i)).boxed(),
                VK::Remove => pos().prop_map(VOp::Remove).boxed(),
                VK::Resize => (small(big), id()).prop_map(|(n, i)| VOp::Resize(n, i)).boxed(),
                VK::ResizeWith => small(big).prop_map(VOp::ResizeWith).boxed(),
                VK::Extend => ids(big).prop_map(VOp::Extend).boxed(),
                VK::ExtendSlice => ids(big).prop_map(VOp::ExtendSlice).boxed(),
                VK::FillRange => (pos(), pos(), id()).prop_map(|(a, b, i)| VOp::FillRange(a, b, i)).boxed(),
                VK::CopyFrom => ids(big).prop_map(VOp::CopyFrom).boxed(),
                VK::Truncate => pos().prop_map(VOp::Truncate).boxed(),
                VK::Clear => Just(VOp::Clear).boxed(),
                VK::Reserve => small(big).prop_map(VOp::Reserve).boxed(),
                VK::EnsureCap => small(big).prop_map(VOp::EnsureCap).boxed(),
                VK::Shrink => Just(VOp::Shrink).boxed(),
                VK::Set => (pos(), id(), any::<bool>()).prop_map(|(p, i, m)| VOp::Set(p, i, m)).boxed(),
                VK::Get => pos().prop_map(VOp::Get).boxed(),
                VK::Clone => any::<bool>().prop_map(VOp::Clone).boxed(),
                VK::PushN => (small(big), id()).prop_map(|(n, i)| VOp::PushN(n, i)).boxed(),
                VK::PopBulk => small(big).prop_map(VOp::PopBulk).boxed(),
                VK::Iter => Just(VOp::Iter).boxed(),
            };
            (w, s)
        })
        .collect();
    Union::new_weighted(v).boxed()
}

fn vec_case(kinds: Vec<(u32, VK)>, big: usize, max_ops: usize, caps: BoxedStrategy<usize>) -> BoxedStrategy<Case> {
    let plain = (caps.clone(), proptest::collection::vec(vop(kinds.clone(), big), 0..max_ops)).prop_map(|(cap, ops)| Case::Vec { cap, ops });
    if !kinds.iter().any(|k| matches!(k.1, VK::ResizeWith)) {
        return plain.boxed();
    }
    // one history in 60 starts from 8 190..70 000 distinct elements: element moves (insert,
    // remove, growth, clone) of more than 64 KiB, beyond any staging buffer or chunk size
    let n = prop_oneof![proptest::sample::select(vec![8_190usize, 8_192, 8_193, 16_385, 65_536, 65_537]), 9_000usize..70_000];
    let huge = (caps, n, proptest::collection::vec(vop(kinds, big), 1..max_ops.clamp(2, 16))).prop_map(|(cap, n, mut ops)| {
        ops.insert(0, VOp::ResizeWith(n));
        Case::Vec { cap, ops }
    });
    prop_oneof![59 => plain, 1 => huge].boxed()
}

fn qop(bulk: bool, big: usize) -> BoxedStrategy<QOp> {
    qop_w(bulk, big, 34, 20)
}

fn qop_w(bulk: bool, big: usize, push_w: u32, pop_w: u32) -> BoxedStrategy<QOp> {
    let mut v: Vec<(u32, BoxedStrategy<QOp>)> = vec![
        (push_w, id().prop_map(QOp::PushBack).boxed()),
        (pop_w, Just(QOp::PopFront).boxed()),
        (5, Just(QOp::Front).boxed()),
        (5, Just(QOp::Back).boxed()),
        (3, Just(QOp::Clear).boxed()),
    ];
    if bulk {
        v.push((12, ids(big).prop_map(QOp::PushBulk).boxed()));
        v.push((9, small(big).prop_map(QOp::PopBulk).boxed()));
        v.push((4, small(big).prop_map(QOp::Reserve).boxed()));
        v.push((6, any::<bool>().prop_map(QOp::Clone).boxed()));
    }
    Union::new_weighted(v).boxed()
}

fn string_class(n_hint: usize, nul: bool) -> BoxedStrategy<String> {
    let around: Vec<usize> = [n_hint.saturating_sub(1), n_hint, n_hint + 1].to_vec();
    let mut v: Vec<(u32, BoxedStrategy<String>)> = vec![
        (1, Just(String::new()).boxed()),
        (4, "[ab]{1,6}".boxed()),
        (3, "[a-c]{0,12}".boxed()),
        (2, "\\PC{0,8}".boxed()),
        (1, proptest::sample::select(vec!["é", "日本語", "\u{7f}", "\u{80}", "\u{10FFFF}", "zzé", "ab\u{ff}"]).prop_map(|s| s.to_string()).boxed()),
        (2, (proptest::sample::select(around.clone()), proptest::sample::select(vec!['x', 'a'])).prop_map(|(n, c)| c.to_string().repeat(n)).boxed()),
        (1, proptest::sample::select(around).prop_map(|n| "é".repeat((n + 1) / 2)).boxed()),
        (1, (1usize..40, "[a-b]{1,3}").prop_map(|(n, u)| u.repeat(n)).boxed()),
        (1, (200usize..300).prop_map(|n| "q".repeat(n)).boxed()),
    ];
    if nul {
        v.push((1, "[a\\x00]{1,4}".boxed()));
    }
    Union::new_weighted(v).boxed()
}

fn needle(n_hint: usize) -> BoxedStrategy<Needle> {
    prop_oneof![
        4 => any::<u16>().prop_map(Needle::Pool),
        2 => (any::<u16>(), 0u8..6).prop_map(|(i, c)| Needle::Prefix(i, c)),
        2 => (any::<u16>(), prop_oneof![Just(0x01u8), Just(b'a'), Just(b'z'), Just(0x7f)]).prop_map(|(i, c)| Needle::Plus(i, c)),
        1 => string_class(n_hint, false).prop_map(Needle::Lit),
    ]
    .boxed()
}

#[derive(Clone, Copy, PartialEq, Eq)]
enum SK {
    Push,
    PushLit,
    Series,
    BigSeries,
    Get,
    Sort,
    Search,
    Find,
    CountPrefix,
    Range,
    Clear,
    Clone,
    Iter,
    Huge,
    Reserve,
}

fn sop(kinds: &[(u32, SK)], n_hint: usize) -> BoxedStrategy<SOp> {
    let v: Vec<(u32, BoxedStrategy<SOp>)> = kinds
        .iter()
        .map(|&(w, k)| {
            let s: BoxedStrategy<SOp> = match k {
                SK::Push => any::<u16>().prop_map(SOp::Push).boxed(),
                SK::PushLit => string_class(n_hint, false).prop_map(SOp::PushLit).boxed(),
                SK::Series => (any::<u16>(), prop_oneof![3 => 2u16..12, 2 => 30u16..80]).prop_map(|(s, n)| SOp::PushSeries(s, n)).boxed(),
                SK::BigSeries => (any::<u16>(), 500u16..700).prop_map(|(s, n)| SOp::PushSeries(s, n)).boxed(),
                SK::Get => pos().prop_map(SOp::Get).boxed(),
                SK::Sort => (0u8..5).prop_map(SOp::Sort).boxed(),
                SK::Search => needle(n_hint).prop_map(SOp::Search).boxed(),
                SK::Find => needle(n_hint).prop_map(SOp::Find).boxed(),
                SK::CountPrefix => needle(n_hint).prop_map(SOp::CountPrefix).boxed(),
                SK::Range => (needle(n_hint), needle(n_hint)).prop_map(|(a, b)| SOp::Range(a, b)).boxed(),
                SK::Clear => Just(SOp::Clear).boxed(),
                SK::Clone => any::<bool>().prop_map(SOp::Clone).boxed(),
                SK::Iter => Just(SOp::Iter).boxed(),
                SK::Huge => (0u8..3).prop_map(SOp::Huge).boxed(),
                SK::Reserve => any::<u16>().prop_map(SOp::Reserve).boxed(),
            };
            (w, s)
        })
        .collect();
    Union::new_weighted(v).boxed()
}

fn str_case(kinds: &'static [(u32, SK)], n_hint: usize, max_ops: usize) -> BoxedStrategy<Case> {
    (proptest::collection::vec(string_class(n_hint, false), 1..10), proptest::collection::vec(sop(kinds, n_hint), 0..max_ops))
        .prop_map(|(pool, ops)| Case::Str { pool, ops })
        .boxed()
}

// ---------------------------------------------------------------------------------------
// vector API adaptor: every optional entry point returns None when the type does not offer it
// ---------------------------------------------------------------------------------------

pub trait VecApi<T: Elem> {
    fn kinds() -> Vec<(u32, VK)>;
    fn len(&self) -> usize;
    fn cap(&self) -> usize;
    fn slice(&self) -> &[T];
    fn push(&mut self, x: T) -> ZR<()>;
    fn pop(&mut self) -> Option<T>;
    /// Some(n): pushes beyond n elements must be refused
    fn max_len(&self) -> Option<usize> {
        None
    }
    fn insert(&mut self, _i: usize, _x: T) -> ZR<()> {
        unreachable!()
    }
    fn remove(&mut self, _i: usize) -> ZR<T> {
        unreachable!()
    }
    fn resize(&mut self, _n: usize, _x: T) -> ZR<()> {
        unreachable!()
    }
    fn resize_with(&mut self, _n: usize, _f: &mut dyn FnMut() -> T) -> ZR<()> {
        unreachable!()
    }
    fn extend(&mut self, _items: Vec<T>) -> ZR<()> {
        unreachable!()
    }
    fn extend_slice(&mut self, _items: &[T]) -> Option<ZR<()>> {
        None
    }
    fn fill_range(&mut self, _a: usize, _b: usize, _x: T) -> Option<ZR<()>> {
        None
    }
    /// true when `start > end` is documented/implemented as an error (else it is a no-op)
    fn fill_reversed_is_err() -> bool {
        true
    }
    fn copy_from(&mut self, _items: &[T], _scratch: &std::path::Path) -> Option<ZR<()>> {
        None
    }
    fn truncate(&mut self, _n: usize) -> ZR<()> {
        unreachable!()
    }
    fn clear(&mut self) -> ZR<()> {
        unreachable!()
    }
    fn reserve(&mut self, _n: usize) -> ZR<()> {
        unreachable!()
    }
    fn ensure_cap(&mut self, _n: usize) -> ZR<()> {
        unreachable!()
    }
    fn shrink(&mut self) -> ZR<()> {
        unreachable!()
    }
    /// None = this index / access path is not offered (e.g. `IndexMut` out of range)
    fn set(&mut self, _i: usize, _x: T, _via_mut: bool) -> Option<ZR<()>> {
        None
    }
    /// outer None = no `get` besides the slice
    fn get(&self, _i: usize) -> Option<Option<&T>> {
        None
    }
    fn try_clone(&self) -> Option<Self>
    where
        Self: Sized,
    {
        None
    }
    fn same(&self, _o: &Self) -> Option<bool> {
        None
    }
    fn push_n(&mut self, _n: usize, _x: T) -> Option<ZR<()>> {
        None
    }
    fn pop_bulk(&mut self, _n: usize) -> ZR<Vec<T>> {
        unreachable!()
    }
    fn iter_keys(&self) -> Option<Vec<u64>> {
        None
    }
}

fn common_kinds() -> Vec<(u32, VK)> {
    vec![(22, VK::Push), (9, VK::Pop), (5, VK::Get)]
}

impl<T: Elem> VecApi<T> for FastVec<T> {
    fn kinds() -> Vec<(u32, VK)> {
        let mut k = common_kinds();
        k.extend([
            (10, VK::Insert),
            (9, VK::Remove),
            (5, VK::Resize),
            (3, VK::ResizeWith),
            (5, VK::Extend),
            (2, VK::Clear),
            (3, VK::Reserve),
            (2, VK::EnsureCap),
            (3, VK::Shrink),
            (4, VK::Set),
            (4, VK::Clone),
        ]);
        if T::COPY {
            k.extend([(5, VK::ExtendSlice), (5, VK::FillRange), (4, VK::CopyFrom)]);
        }
        k
    }
    fn len(&self) -> usize {
        FastVec::len(self)
    }
    fn cap(&self) -> usize {
        self.capacity()
    }
    fn slice(&self) -> &[T] {
        self.as_slice()
    }
    fn push(&mut self, x: T) -> ZR<()> {
        FastVec::push(self, x)
    }
    fn pop(&mut self) -> Option<T> {
        FastVec::pop(self)
    }
    fn insert(&mut self, i: usize, x: T) -> ZR<()> {
        FastVec::insert(self, i, x)
    }
    fn remove(&mut self, i: usize) -> ZR<T> {
        FastVec::remove(self, i)
    }
    fn resize(&mut self, n: usize, x: T) -> ZR<()> {
        FastVec::resize(self, n, x)
    }
    fn resize_with(&mut self, n: usize, f: &mut dyn FnMut() -> T) -> ZR<()> {
        FastVec::resize_with(self, n, f)
    }
    fn extend(&mut self, items: Vec<T>) -> ZR<()> {
        FastVec::extend(self, items)
    }
    fn extend_slice(&mut self, items: &[T]) -> Option<ZR<()>> {
        T::fv_extend_slice(self, items)
    }
    fn fill_range(&mut self, a: usize, b: usize, x: T) -> Option<ZR<()>> {
        T::fv_fill(self, a, b, x)
    }
    fn copy_from(&mut self, items: &[T], _s: &std::path::Path) -> Option<ZR<()>> {
        T::fv_copy_from(self, items)
    }
    fn clear(&mut self) -> ZR<()> {
        FastVec::clear(self);
        Ok(())
    }
    fn reserve(&mut self, n: usize) -> ZR<()> {
        FastVec::reserve(self, n)
    }
    fn ensure_cap(&mut self, n: usize) -> ZR<()> {
        self.ensure_capacity(n)
    }
    fn shrink(&mut self) -> ZR<()> {
        self.shrink_to_fit()
    }
    fn set(&mut self, i: usize, x: T, _via_mut: bool) -> Option<ZR<()>> {
        if i < FastVec::len(self) {
            self[i] = x;
            Some(Ok(()))
        } else {
            None // IndexMut out of range is a documented abort, like std's panic: not generated
        }
    }
    fn try_clone(&self) -> Option<Self> {
        Some(self.clone())
    }
    fn same(&self, o: &Self) -> Option<bool> {
        Some(self == o)
    }
}

impl<T: Elem> VecApi<T> for ValVec32<T> {
    fn kinds() -> Vec<(u32, VK)> {
        let mut k = common_kinds();
        k.extend([(7, VK::Extend), (3, VK::Clear), (4, VK::Reserve), (8, VK::Set), (5, VK::Clone), (3, VK::Iter)]);
        if T::COPY {
            k.extend([(6, VK::ExtendSlice), (5, VK::PushN)]);
        }
        k
    }
    fn len(&self) -> usize {
        self.len_usize()
    }
    fn cap(&self) -> usize {
        self.capacity_usize()
    }
    fn slice(&self) -> &[T] {
        self.as_slice()
    }
    fn push(&mut self, x: T) -> ZR<()> {
        // alternate between the two documented push entry points
        if self.len() % 3 == 2 {
            self.push_panic(x);
            Ok(())
        } else {
            ValVec32::push(self, x)
        }
    }
    fn pop(&mut self) -> Option<T> {
        ValVec32::pop(self)
    }
    fn extend(&mut self, items: Vec<T>) -> ZR<()> {
        self.extend_from_slice(&items)
    }
    fn extend_slice(&mut self, items: &[T]) -> Option<ZR<()>> {
        T::vv_extend_copy(self, items)
    }
    fn clear(&mut self) -> ZR<()> {
        ValVec32::clear(self);
        Ok(())
    }
    fn reserve(&mut self, n: usize) -> ZR<()> {
        ValVec32::reserve(self, n as u32)
    }
    fn set(&mut self, i: usize, x: T, via_mut: bool) -> Option<ZR<()>> {
        if via_mut {
            match self.get_mut(i as u32) {
                Some(slot) => {
                    *slot = x;
                    Some(Ok(()))
                }
                None => Some(Err(zipora::ZiporaError::invalid_data("get_mut: None"))),
            }
        } else {
            Some(ValVec32::set(self, i as u32, x))
        }
    }
    fn get(&self, i: usize) -> Option<Option<&T>> {
        Some(ValVec32::get(self, i as u32))
    }
    fn try_clone(&self) -> Option<Self> {
        Some(self.clone())
    }
    fn same(&self, o: &Self) -> Option<bool> {
        Some(self == o)
    }
    fn push_n(&mut self, n: usize, x: T) -> Option<ZR<()>> {
        T::vv_push_n(self, n as u32, x)
    }
    fn iter_keys(&self) -> Option<Vec<u64>> {
        Some(self.iter().map(|x| x.key()).collect())
    }
}

impl<T: Elem> VecApi<T> for CacheAlignedVec<T> {
    fn kinds() -> Vec<(u32, VK)> {
        let mut k = common_kinds();
        k.extend([(6, VK::Truncate), (3, VK::Clear), (5, VK::Reserve), (6, VK::Set)]);
        k
    }
    fn len(&self) -> usize {
        CacheAlignedVec::len(self)
    }
    fn cap(&self) -> usize {
        self.capacity()
    }
    fn slice(&self) -> &[T] {
        self.as_slice()
    }
    fn push(&mut self, x: T) -> ZR<()> {
        CacheAlignedVec::push(self, x)
    }
    fn pop(&mut self) -> Option<T> {
        CacheAlignedVec::pop(self)
    }
    fn truncate(&mut self, n: usize) -> ZR<()> {
        CacheAlignedVec::truncate(self, n);
        Ok(())
    }
    fn clear(&mut self) -> ZR<()> {
        CacheAlignedVec::clear(self);
        Ok(())
    }
    fn reserve(&mut self, n: usize) -> ZR<()> {
        CacheAlignedVec::reserve(self, n)
    }
    fn set(&mut self, i: usize, x: T, _via_mut: bool) -> Option<ZR<()>> {
        match self.get_mut(i) {
            Some(slot) => {
                *slot = x;
                Some(Ok(()))
            }
            None => Some(Err(zipora::ZiporaError::invalid_data("get_mut: None"))),
        }
    }
    fn get(&self, i: usize) -> Option<Option<&T>> {
        Some(CacheAlignedVec::get(self, i))
    }
}

impl<'a, T: Elem> VecApi<T> for BumpVec<'a, T> {
    fn kinds() -> Vec<(u32, VK)> {
        vec![(30, VK::Push), (12, VK::Pop), (5, VK::Get)]
    }
    fn len(&self) -> usize {
        BumpVec::len(self)
    }
    fn cap(&self) -> usize {
        self.capacity()
    }
    fn slice(&self) -> &[T] {
        self.as_slice()
    }
    fn push(&mut self, x: T) -> ZR<()> {
        BumpVec::push(self, x)
    }
    fn pop(&mut self) -> Option<T> {
        BumpVec::pop(self)
    }
    fn max_len(&self) -> Option<usize> {
        Some(self.capacity())
    }
}

impl<T: Elem + Copy> VecApi<T> for MmapVec<T> {
    fn kinds() -> Vec<(u32, VK)> {
        let mut k = common_kinds();
        k.extend([
            (4, VK::Resize),
            (5, VK::Extend),
            (6, VK::ExtendSlice),
            (5, VK::FillRange),
            (3, VK::CopyFrom),
            (5, VK::Truncate),
            (2, VK::Clear),
            (4, VK::Reserve),
            (4, VK::Shrink),
            (5, VK::Set),
            (6, VK::PopBulk),
            (3, VK::Iter),
        ]);
        k
    }
    fn len(&self) -> usize {
        MmapVec::len(self)
    }
    fn cap(&self) -> usize {
        self.capacity()
    }
    fn slice(&self) -> &[T] {
        self.as_slice()
    }
    fn push(&mut self, x: T) -> ZR<()> {
        MmapVec::push(self, x)
    }
    fn pop(&mut self) -> Option<T> {
        MmapVec::pop(self)
    }
    fn resize(&mut self, n: usize, x: T) -> ZR<()> {
        MmapVec::resize(self, n, x)
    }
    fn extend(&mut self, items: Vec<T>) -> ZR<()> {
        MmapVec::extend(self, items)
    }
    fn extend_slice(&mut self, items: &[T]) -> Option<ZR<()>> {
        Some(self.push_bulk_simd(items))
    }
    fn fill_range(&mut self, a: usize, b: usize, x: T) -> Option<ZR<()>> {
        Some(self.fill_range_simd(a..b, x))
    }
    fn fill_reversed_is_err() -> bool {
        false
    }
    fn copy_from(&mut self, items: &[T], scratch: &std::path::Path) -> Option<ZR<()>> {
        let path = scratch.join("c10_mmapvec_other.bin");
        let _ = std::fs::remove_file(&path);
        let r = (|| {
            let mut other = MmapVec::<T>::create(&path, mmap_cfg(2))?;
            for x in items {
                other.push(*x)?;
            }
            self.copy_from_simd(&other)
        })();
        let _ = std::fs::remove_file(&path);
        Some(r)
    }
    fn truncate(&mut self, n: usize) -> ZR<()> {
        MmapVec::truncate(self, n)
    }
    fn clear(&mut self) -> ZR<()> {
        MmapVec::clear(self)
    }
    fn reserve(&mut self, n: usize) -> ZR<()> {
        MmapVec::reserve(self, n)
    }
    fn shrink(&mut self) -> ZR<()> {
        self.shrink_to_fit()
    }
    fn set(&mut self, i: usize, x: T, _via_mut: bool) -> Option<ZR<()>> {
        match self.get_mut(i) {
            Some(slot) => {
                *slot = x;
                Some(Ok(()))
            }
            None => Some(Err(zipora::ZiporaError::invalid_data("get_mut: None"))),
        }
    }
    fn get(&self, i: usize) -> Option<Option<&T>> {
        Some(MmapVec::get(self, i))
    }
    fn pop_bulk(&mut self, n: usize) -> ZR<Vec<T>> {
        self.pop_bulk_simd(n)
    }
    fn iter_keys(&self) -> Option<Vec<u64>> {
        Some(self.into_iter().map(|x| x.key()).collect())
    }
}

fn mmap_cfg(cap: usize) -> MmapVecConfig {
    MmapVecConfig { initial_capacity: cap, ..MmapVecConfig::default() }
}

// ---------------------------------------------------------------------------------------
// vector driver
// ---------------------------------------------------------------------------------------

#[derive(Default)]
struct VFlags {
    realloc: bool,
    edge_front: bool,
    edge_back: bool,
    refused: bool,
    ops: usize,
}

/// Compare the observable state with the model; resynchronise the model on a content mismatch.
fn check_vec<T: Elem, V: VecApi<T>>(ctx: &mut Ctx, cls: &str, v: &V, model: &mut Vec<u64>, extra_held: &[u64]) {
    let len = v.len();
    ctx.eq("len", cls, &len, &model.len());
    let got = keys(v.slice());
    if !ctx.eq("seq", cls, &got, model) {
        *model = got;
    }
    if !T::COPY {
        let mut held = insts(v.slice());
        held.extend_from_slice(extra_held);
        check_registry(ctx, cls, &held);
    }
}

/// Result<()> of an operation whose arguments are valid: Err is a divergence from Vec.
fn must_ok(ctx: &mut Ctx, aspect: &str, cls: &str, r: Option<ZR<()>>) -> Option<bool> {
    match r {
        None => None, // panicked (already recorded)
        Some(Ok(())) => Some(true),
        Some(Err(e)) => {
            ctx.fail(aspect, "err", cls, format!("valid operation refused: {e}"));
            Some(false)
        }
    }
}

/// Drive `v` through `ops`; returns false when the history had to be abandoned after a panic
/// (the container is then in an unknown state and must be forgotten, not dropped).
fn drive_vec<T: Elem, V: VecApi<T>>(ctx: &mut Ctx, v: &mut V, ops: &[VOp], fl: &mut VFlags, mk_clone_ok: bool) -> bool {
    let mut model: Vec<u64> = vec![];
    let kinds: Vec<VK> = V::kinds().into_iter().map(|k| k.1).collect();
    let has = |k: VK| kinds.contains(&k);
    let scratch = ctx.scratch.clone();
    let mut fresh: u64 = 100_000;
    check_vec::<T, V>(ctx, "initial", v, &mut model, &[]);
    for op in ops {
        if ctx.saturated() {
            break;
        }
        let len = model.len();
        let cap0 = v.cap();
        fl.ops += 1;
        let cls: String;
        let mut alive = true;
        match op {
            VOp::Push(id) => {
                let full = v.max_len().map(|m| len >= m).unwrap_or(false);
                cls = if full { "after_push_at_capacity".into() } else { "after_push".into() };
                match ctx.no_panic("push", || v.push(T::make(*id as u64))) {
                    None => alive = false,
                    Some(Ok(())) => {
                        if full {
                            ctx.fail("push", "mismatch", "accepted_beyond_capacity", format!("push accepted at len {len} == capacity"));
                        }
                        model.push(T::key_of(*id as u64));
                    }
                    Some(Err(e)) => {
                        if full {
                            fl.refused = true;
                            ctx.label("push_refused_at_capacity");
                        } else {
                            ctx.fail("push", "err", "", format!("push refused at len {len}: {e}"));
                        }
                    }
                }
            }
            VOp::Pop => {
                cls = if len == 0 { "after_pop_empty".into() } else { "after_pop".into() };
                match ctx.no_panic("pop", || v.pop().map(|x| x.key())) {
                    None => alive = false,
                    Some(got) => {
                        let want = model.pop();
                        ctx.eq("pop", if len == 0 { "empty" } else { "" }, &got, &want);
                    }
                }
            }
            VOp::Insert(p, id) if has(VK::Insert) => {
                let i = p.at(len);
                cls = format!("after_insert_{}", pos_tag(i, len));
                match ctx.no_panic("insert", || v.insert(i, T::make(*id as u64))) {
                    None => alive = false,
                    Some(r) => {
                        if i <= len {
                            if must_ok(ctx, "insert", pos_tag(i, len), Some(r)) == Some(true) {
                                model.insert(i, T::key_of(*id as u64));
                                if i == 0 {
                                    fl.edge_front = true;
                                }
                                if i == len {
                                    fl.edge_back = true;
                                }
                            }
                        } else {
                            ctx.ensure("insert", "past_len", r.is_err(), || format!("insert at {i} > len {len} returned Ok"));
                            if r.is_ok() {
                                // unknown where it went: resync happens in check_vec
                            }
                        }
                    }
                }
            }
            VOp::Remove(p) if has(VK::Remove) => {
                let i = p.at(len);
                cls = format!("after_remove_{}", if i >= len { "past_end" } else { pos_tag(i, len) });
                match ctx.no_panic("remove", || v.remove(i).map(|x| x.key())) {
                    None => alive = false,
                    Some(r) => {
                        if i < len {
                            match r {
                                Ok(k) => {
                                    let want = model.remove(i);
                                    ctx.eq("remove", pos_tag(i, len), &k, &want);
                                    if i == 0 {
                                        fl.edge_front = true;
                                    }
                                    if i + 1 == len {
                                        fl.edge_back = true;
                                    }
                                }
                                Err(e) => ctx.fail("remove", "err", pos_tag(i, len), format!("valid remove({i}) of len {len} refused: {e}")),
                            }
                        } else {
                            ctx.ensure("remove", "past_end", r.is_err(), || format!("remove({i}) with len {len} returned Ok"));
                        }
                    }
                }
            }
            VOp::Resize(n, id) if has(VK::Resize) => {
                cls = if *n < len { "after_resize_shrink".into() } else { "after_resize_grow".into() };
                let r = ctx.no_panic("resize", || v.resize(*n, T::make(*id as u64)));
                match must_ok(ctx, "resize", "", r) {
                    None => alive = false,
                    Some(true) => model.resize(*n, T::key_of(*id as u64)),
                    Some(false) => {}
                }
            }
            VOp::ResizeWith(n) if has(VK::ResizeWith) => {
                cls = if *n < len { "after_resize_with_shrink".into() } else { "after_resize_with_grow".into() };
                let mut next = fresh;
                let r = ctx.no_panic("resize_with", || {
                    let mut f = || {
                        next += 1;
                        T::make(next)
                    };
                    v.resize_with(*n, &mut f)
                });
                match must_ok(ctx, "resize_with", "", r) {
                    None => alive = false,
                    Some(true) => {
                        let mut k = fresh;
                        model.resize_with(*n, || {
                            k += 1;
                            T::key_of(k)
                        });
                    }
                    Some(false) => {}
                }
                fresh += 1000;
            }
            VOp::Extend(idv) if has(VK::Extend) => {
                cls = "after_extend".into();
                let items: Vec<T> = idv.iter().map(|i| T::make(*i as u64)).collect();
                let r = ctx.no_panic("extend", || v.extend(items));
                match must_ok(ctx, "extend", "", r) {
                    None => alive = false,
                    Some(true) => model.extend(idv.iter().map(|i| T::key_of(*i as u64))),
                    Some(false) => {}
                }
            }
            VOp::ExtendSlice(idv) if has(VK::ExtendSlice) => {
                cls = "after_extend_slice".into();
                let items: Vec<T> = idv.iter().map(|i| T::make(*i as u64)).collect();
                let r = ctx.no_panic("extend_slice", || v.extend_slice(&items)).flatten();
                drop(items);
                match must_ok(ctx, "extend_slice", "", r) {
                    None => alive = false,
                    Some(true) => model.extend(idv.iter().map(|i| T::key_of(*i as u64))),
                    Some(false) => {}
                }
            }
            VOp::FillRange(a, b, id) if has(VK::FillRange) => {
                let (s, e) = (a.at(len), b.at(len));
                let shape = if e > len { "end_past_len" } else if s > e { "reversed" } else if s == e { "empty" } else { "valid" };
                cls = format!("after_fill_range_{shape}");
                match ctx.no_panic("fill_range", || v.fill_range(s, e, T::make(*id as u64))).flatten() {
                    None => alive = false,
                    Some(r) => match shape {
                        "end_past_len" => {
                            ctx.ensure("fill_range", shape, r.is_err(), || format!("fill {s}..{e} beyond len {len} returned Ok"));
                        }
                        "reversed" => {
                            if V::fill_reversed_is_err() {
                                ctx.ensure("fill_range", shape, r.is_err(), || format!("fill {s}..{e} (start > end) returned Ok"));
                            }
                        }
                        _ => {
                            if must_ok(ctx, "fill_range", shape, Some(r)) == Some(true) {
                                for x in &mut model[s..e] {
                                    *x = T::key_of(*id as u64);
                                }
                            }
                        }
                    },
                }
            }
            VOp::CopyFrom(idv) if has(VK::CopyFrom) => {
                // FastVec::copy_from_slice_fast: the API does not say what an empty source does to
                // a non-empty vector, and a shorter source trips an internal verify (process
                // abort) which the dedicated `fastvec_copy_shorter` cell demonstrates.
                let fast = std::any::type_name::<V>().contains("FastVec");
                if fast && ((idv.is_empty() && len > 0) || (!idv.is_empty() && idv.len() < len)) {
                    ctx.label(if idv.is_empty() { "excluded:copy_from_empty_source" } else { "excluded:copy_from_shorter_source" });
                    continue;
                }
                cls = "after_copy_from".into();
                let items: Vec<T> = idv.iter().map(|i| T::make(*i as u64)).collect();
                let r = ctx.no_panic("copy_from", || v.copy_from(&items, &scratch)).flatten();
                drop(items);
                match must_ok(ctx, "copy_from", "", r) {
                    None => alive = false,
                    Some(true) => model = idv.iter().map(|i| T::key_of(*i as u64)).collect(),
                    Some(false) => {}
                }
            }
            VOp::Truncate(p) if has(VK::Truncate) => {
                let n = p.at(len);
                cls = if n >= len { "after_truncate_noop".into() } else { "after_truncate".into() };
                let r = ctx.no_panic("truncate", || v.truncate(n));
                match must_ok(ctx, "truncate", "", r) {
                    None => alive = false,
                    Some(true) => model.truncate(n),
                    Some(false) => {}
                }
            }
            VOp::Clear if has(VK::Clear) => {
                cls = "after_clear".into();
                let r = ctx.no_panic("clear", || v.clear());
                match must_ok(ctx, "clear", "", r) {
                    None => alive = false,
                    Some(true) => model.clear(),
                    Some(false) => {}
                }
            }
            VOp::Reserve(n) if has(VK::Reserve) => {
                cls = "after_reserve".into();
                let r = ctx.no_panic("reserve", || v.reserve(*n));
                match must_ok(ctx, "reserve", "", r) {
                    None => alive = false,
                    Some(true) => {
                        let c = v.cap();
                        ctx.ensure("capacity", "after_reserve", c >= len + *n, || format!("reserve({n}) at len {len} left capacity {c}"));
                    }
                    Some(false) => {}
                }
            }
            VOp::EnsureCap(n) if has(VK::EnsureCap) => {
                if *n < len {
                    ctx.label("excluded:ensure_capacity_below_len");
                    continue;
                }
                cls = "after_ensure_capacity".into();
                let r = ctx.no_panic("ensure_capacity", || v.ensure_cap(*n));
                match must_ok(ctx, "ensure_capacity", "", r) {
                    None => alive = false,
                    Some(true) => {
                        let c = v.cap();
                        ctx.ensure("capacity", "after_ensure_capacity", c >= *n, || format!("ensure_capacity({n}) left capacity {c}"));
                    }
                    Some(false) => {}
                }
            }
            VOp::Shrink if has(VK::Shrink) => {
                cls = "after_shrink_to_fit".into();
                let r = ctx.no_panic("shrink_to_fit", || v.shrink());
                match must_ok(ctx, "shrink_to_fit", "", r) {
                    None => alive = false,
                    Some(true) => {
                        let c = v.cap();
                        ctx.ensure("capacity", "after_shrink_to_fit", c >= len, || format!("capacity {c} < len {len}"));
                    }
                    Some(false) => {}
                }
            }
            VOp::Set(p, id, via_mut) if has(VK::Set) => {
                let i = p.at(len);
                cls = if i < len { "after_set".into() } else { "after_set_past_end".into() };
                match ctx.no_panic("set", || v.set(i, T::make(*id as u64), *via_mut)) {
                    None => alive = false,
                    Some(None) => {
                        ctx.label("set_not_offered_for_index");
                    }
                    Some(Some(r)) => {
                        if i < len {
                            if must_ok(ctx, "set", "", Some(r)) == Some(true) {
                                model[i] = T::key_of(*id as u64);
                            }
                        } else {
                            ctx.ensure("set", "past_end", r.is_err(), || format!("set({i}) with len {len} returned Ok"));
                        }
                    }
                }
            }
            VOp::Get(p) => {
                let i = p.at(len);
                cls = "after_get".into();
                let want = model.get(i).copied();
                let got = ctx.no_panic("get", || match v.get(i) {
                    Some(g) => g.map(|x| x.key()),
                    None => v.slice().get(i).map(|x| x.key()),
                });
                match got {
                    None => alive = false,
                    Some(g) => {
                        ctx.eq("get", if i < len { "in_range" } else { "past_end" }, &g, &want);
                    }
                }
            }
            VOp::Clone(keep) if has(VK::Clone) && mk_clone_ok => {
                cls = "after_clone".into();
                match ctx.no_panic("clone", || v.try_clone()).flatten() {
                    None => alive = false,
                    Some(mut c) => {
                        let ck = keys(c.slice());
                        ctx.eq("clone_seq", "", &ck, &model);
                        ctx.eq("clone_len", "", &c.len(), &model.len());
                        if let Some(same) = v.same(&c) {
                            ctx.ensure("clone_eq", "", same || ck != model, || "clone compares unequal to its source".to_string());
                        }
                        // both alive: every element exists twice
                        if !T::COPY {
                            let mut held = insts(v.slice());
                            held.extend(insts(c.slice()));
                            check_registry(ctx, "clone_alive", &held);
                        }
                        // diverge: the clone must not share storage with the source
                        let _ = ctx.no_panic("push", || c.push(T::make(777_777)));
                        let _ = ctx.no_panic("pop", || v.pop());
                        let mut m2 = model.clone();
                        model.pop();
                        if ck == m2 {
                            m2.push(T::key_of(777_777));
                            ctx.eq("clone_diverge", "clone", &keys(c.slice()), &m2);
                        }
                        ctx.eq("clone_diverge", "source", &keys(v.slice()), &model);
                        if *keep {
                            std::mem::swap(v, &mut c);
                            model = keys(v.slice());
                        }
                        drop(c);
                    }
                }
            }
            VOp::PushN(n, id) if has(VK::PushN) => {
                cls = "after_push_n".into();
                let r = ctx.no_panic("push_n", || v.push_n(*n, T::make(*id as u64))).flatten();
                match must_ok(ctx, "push_n", "", r) {
                    None => alive = false,
                    Some(true) => model.extend(std::iter::repeat(T::key_of(*id as u64)).take(*n)),
                    Some(false) => {}
                }
            }
            VOp::PopBulk(n) if has(VK::PopBulk) => {
                cls = if *n > len { "after_pop_bulk_too_many".into() } else { "after_pop_bulk".into() };
                match ctx.no_panic("pop_bulk", || v.pop_bulk(*n).map(|x| keys(&x))) {
                    None => alive = false,
                    Some(r) => {
                        if *n > len {
                            ctx.ensure("pop_bulk", "too_many", r.is_err(), || format!("pop_bulk({n}) with len {len} returned Ok"));
                        } else {
                            match r {
                                Ok(got) => {
                                    let want = model.split_off(len - *n);
                                    ctx.eq("pop_bulk", "", &got, &want);
                                }
                                Err(e) => ctx.fail("pop_bulk", "err", "", format!("pop_bulk({n}) of len {len}: {e}")),
                            }
                        }
                    }
                }
            }
            VOp::Iter if has(VK::Iter) => {
                cls = "after_iter".into();
                if let Some(Some(got)) = ctx.no_panic("iter", || v.iter_keys()) {
                    ctx.eq("iter", "", &got, &model);
                }
            }
            _ => {
                ctx.label("op_not_offered_by_type");
                continue;
            }
        }
        if !alive {
            ctx.label("abandoned_after_panic");
            return false;
        }
        if cap0 > 0 && len > 0 && v.cap() != cap0 {
            fl.realloc = true;
        }
        check_vec::<T, V>(ctx, &cls, v, &mut model, &[]);
    }
    true
}

fn finish_registry(ctx: &mut Ctx) {
    if ctx.cell.contains("tracked") || ctx.cell.contains("fixedq") || ctx.cell.contains("autoq") {
        check_registry(ctx, "at_drop", &[]);
    }
}

fn vec_labels(ctx: &mut Ctx, fl: &VFlags, needs_edges: bool) {
    if fl.realloc {
        ctx.label("reallocated");
    }
    if fl.edge_front && fl.edge_back {
        ctx.label("edge_insert_remove_both_ends");
    }
    let nt = if needs_edges { fl.realloc && fl.edge_front && fl.edge_back } else { fl.realloc };
    if nt {
        ctx.nontrivial();
    }
    ctx.label(format!("ops_{}", match fl.ops { 0 => "0", 1..=9 => "1-9", 10..=29 => "10-29", _ => "30+" }));
}

fn run_fastvec<T: Elem>(ctx: &mut Ctx, cap: usize, ops: &[VOp]) {
    reg_reset();
    let made = ctx.no_panic("construct", || if cap == 0 { Ok(FastVec::<T>::new()) } else { FastVec::<T>::with_capacity(cap) });
    let Some(Ok(mut v)) = made else {
        ctx.fail("construct", "err", "", "with_capacity failed".to_string());
        return;
    };
    let mut fl = VFlags::default();
    if drive_vec::<T, _>(ctx, &mut v, ops, &mut fl, true) {
        drop(v);
        finish_registry(ctx);
    } else {
        std::mem::forget(v);
    }
    vec_labels(ctx, &fl, true);
}

fn run_valvec<T: Elem>(ctx: &mut Ctx, cap: usize, ops: &[VOp]) {
    reg_reset();
    let made = ctx.no_panic("construct", || if cap == 0 { Ok(ValVec32::<T>::new()) } else { ValVec32::<T>::with_capacity(cap as u32) });
    let Some(Ok(mut v)) = made else {
        ctx.fail("construct", "err", "", "with_capacity failed".to_string());
        return;
    };
    let mut fl = VFlags::default();
    if drive_vec::<T, _>(ctx, &mut v, ops, &mut fl, true) {
        drop(v);
        finish_registry(ctx);
    } else {
        std::mem::forget(v);
    }
    vec_labels(ctx, &fl, false);
}

fn run_cachevec<T: Elem>(ctx: &mut Ctx, cap: usize, ops: &[VOp]) {
    reg_reset();
    let made = ctx.no_panic("construct", || if cap == 0 { Ok(CacheAlignedVec::<T>::new()) } else { CacheAlignedVec::<T>::with_capacity(cap) });
    let Some(Ok(mut v)) = made else {
        ctx.fail("construct", "err", "", "with_capacity failed".to_string());
        return;
    };
    ctx.ensure("alignment", "", cap == 0 || (v.as_slice().as_ptr() as usize) % 64 == 0, || "buffer is not 64-byte aligned".to_string());
    let mut fl = VFlags::default();
    if drive_vec::<T, _>(ctx, &mut v, ops, &mut fl, false) {
        if v.capacity() > 0 {
            ctx.ensure("alignment", "", (v.as_slice().as_ptr() as usize) % 64 == 0, || "buffer is not 64-byte aligned".to_string());
        }
        drop(v);
        finish_registry(ctx);
    } else {
        std::mem::forget(v);
    }
    vec_labels(ctx, &fl, false);
}

fn bump_guard(a: &BumpAllocator) -> Option<BumpVec<'_, u64>> {
    let mut g = BumpVec::<u64>::new_in(a, 3).ok()?;
    for x in [0xD00D_0001u64, 0xD00D_0002, 0xD00D_0003] {
        g.push(x).ok()?;
    }
    Some(g)
}

fn run_bumpvec<T: Elem>(ctx: &mut Ctx, cap: usize, ops: &[VOp]) {
    reg_reset();
    let cap = cap.max(1);
    let arena = match BumpAllocator::new(4096 + cap * 64) {
        Ok(a) => a,
        Err(e) => {
            ctx.fail("construct", "err", "allocator", format!("{e}"));
            return;
        }
    };
    // neighbours before and after the vector under test: their contents must never change
    let g1 = bump_guard(&arena);
    let made = ctx.no_panic("construct", || BumpVec::<T>::new_in(&arena, cap));
    let Some(Ok(mut v)) = made else {
        ctx.fail("construct", "err", "", "new_in failed".to_string());
        return;
    };
    let g2 = bump_guard(&arena);
    let mut fl = VFlags::default();
    let ok = drive_vec::<T, _>(ctx, &mut v, ops, &mut fl, false);
    for g in [&g1, &g2].into_iter().flatten() {
        ctx.eq("neighbour_intact", "", &g.as_slice().to_vec(), &vec![0xD00D_0001u64, 0xD00D_0002, 0xD00D_0003]);
    }
    if ok {
        drop(v);
        finish_registry(ctx);
    } else {
        std::mem::forget(v);
    }
    if fl.refused {
        ctx.nontrivial();
        ctx.label("capacity_reached_and_refused");
    }
    ctx.label(format!("ops_{}", match fl.ops { 0 => "0", 1..=9 => "1-9", 10..=29 => "10-29", _ => "30+" }));
}

/// Every push is either refused (and then changes nothing) or stores exactly the string; where
/// the limit lies is the implementation's business, what happens around it is not.
fn run_arena_limit(ctx: &mut Ctx, unit: u8, slack: u16, tail: &[u8]) {
    const LIMIT: usize = 1 << 24;
    let unit = unit.max(1) as usize;
    let mut v: FixedLenStrVec<255> = FixedLenStrVec::new();
    let text = |i: usize, n: usize| -> String { (0..n).map(|k| (b'a' + ((i * 7 + k * 3) % 26) as u8) as char).collect() };
    let mut stored: Vec<(usize, usize)> = vec![]; // (seed, length) of every accepted string
    let mut bytes = 0usize;
    let mut i = 0usize;
    // bulk phase: stop `slack` bytes short of the limit (the last unit string is shortened to fit)
    while bytes + (slack as usize) < LIMIT {
        let n = unit.min(LIMIT - slack as usize - bytes);
        let s = text(i, n);
        match ctx.no_panic("push", || v.push(&s)) {
            Some(Ok(())) => {
                stored.push((i, n));
                bytes += n;
            }
            Some(Err(_)) => break,
            None => return,
        }
        i += 1;
    }
    ctx.label(format!("arena_bytes_before_tail={}", if bytes == LIMIT { "limit" } else if bytes + 256 >= LIMIT { "limit-256..limit" } else { "below" }));
    let mut refused = 0;
    for (k, &n) in tail.iter().enumerate() {
        let s = text(1_000_000 + k, n as usize);
        let before = v.len();
        match ctx.no_panic("push", || v.push(&s)) {
            Some(Ok(())) => {
                stored.push((1_000_000 + k, n as usize));
                ctx.eq("push_readback", "at_arena_limit", &v.get(v.len() - 1).map(|x| x.to_string()), &Some(s.clone()));
            }
            Some(Err(_)) => {
                refused += 1;
                ctx.eq("len", "after_refused_push", &v.len(), &before);
            }
            None => return,
        }
    }
    if refused > 0 {
        ctx.nontrivial();
        ctx.label("arena_limit_refused_some");
    }
    ctx.eq("len", "arena_limit", &v.len(), &stored.len());
    // read back: everything accepted in the tail phase, the last 300 of the bulk phase, a sample of the rest
    let n = stored.len();
    for (j, &(seed, len)) in stored.iter().enumerate() {
        if j + 400 >= n || j % 997 == 0 {
            let want = text(seed, len);
            if !ctx.eq("get", "arena_limit", &v.get(j).map(|x| x.to_string()), &Some(want)) {
                break;
            }
        }
    }
}

fn run_mmapvec<T: Elem + Copy>(ctx: &mut Ctx, cap: usize, ops: &[VOp]) {
    let dir = ctx.scratch.clone();
    let _ = std::fs::create_dir_all(&dir);
    let path = dir.join("c10_mmapvec.bin");
    let _ = std::fs::remove_file(&path);
    // every public preset (growth factor, sync_on_write, page population, ...) is part of the
    // configuration space; the initial capacity stays the generated one so that growth happens
    let preset = (cap + ops.len()) % 6;
    let cfg = MmapVecConfig {
        initial_capacity: cap,
        ..match preset {
            1 => MmapVecConfig::large_dataset(),
            2 => MmapVecConfig::persistent_cache(),
            3 => MmapVecConfig::performance_optimized(),
            4 => MmapVecConfig::memory_optimized(),
            5 => MmapVecConfig::realtime(),
            _ => MmapVecConfig::default(),
        }
    };
    ctx.label(format!("mmapvec_preset={}", ["default", "large_dataset", "persistent_cache", "performance_optimized", "memory_optimized", "realtime"][preset]));
    let made = ctx.no_panic("construct", || MmapVec::<T>::create(&path, cfg));
    match made {
        Some(Ok(mut v)) => {
            let mut fl = VFlags::default();
            let _ = drive_vec::<T, _>(ctx, &mut v, ops, &mut fl, false);
            drop(v);
            vec_labels(ctx, &fl, false);
        }
        Some(Err(e)) => {
            if path.parent().map(|p| p.exists()).unwrap_or(false) && std::fs::write(dir.join("c10_probe"), b"x").is_ok() {
                ctx.fail("construct", "err", "", format!("create failed in a writable directory: {e}"));
            } else {
                ctx.skip(format!("cannot create files in scratch: {e}"));
            }
        }
        None => {}
    }
    let _ = std::fs::remove_file(&path);
    let _ = std::fs::remove_file(dir.join("c10_probe"));
    let _ = std::fs::remove_file(dir.join("c10_mmapvec_other.bin"));
}

// ---------------------------------------------------------------------------------------
// queues
// ---------------------------------------------------------------------------------------

fn dbg_keys(model: &VecDeque<u64>) -> String {
    format!("{:?}", model.iter().collect::<Vec<_>>())
}

#[derive(Default)]
struct QFlags {
    grew_wrapped: bool,
    bulk_straddle: bool,
    wrapped: bool,
    refused: bool,
    ops: usize,
}

fn run_autoq<T: Elem>(ctx: &mut Ctx, cap: usize, ops: &[QOp]) {
    reg_reset();
    let made = ctx.no_panic("construct", || if cap == 0 { AutoGrowCircularQueue::<T>::new() } else { AutoGrowCircularQueue::<T>::with_capacity(cap) });
    let Some(mut q) = made else { return };
    let mut model: VecDeque<u64> = VecDeque::new();
    let mut fl = QFlags::default();
    let mut alive = true;
    for op in ops {
        if ctx.saturated() {
            break;
        }
        fl.ops += 1;
        let st = q.performance_stats();
        let len = model.len();
        let state = if st.length == st.capacity && st.length > 0 {
            "full"
        } else if st.head_index > st.tail_index || (st.length > 0 && st.tail_index == 0 && st.head_index > 0) {
            "wrapped"
        } else {
            "linear"
        };
        if state != "linear" {
            fl.wrapped = true;
        }
        let opname;
        match op {
            QOp::PushBack(id) => {
                opname = "push_back";
                match ctx.no_panic("push_back", || q.push_back(T::make(*id as u64))) {
                    None => alive = false,
                    Some(Ok(())) => model.push_back(T::key_of(*id as u64)),
                    Some(Err(e)) => ctx.fail("push_back", "err", state, format!("growable queue refused a push: {e}")),
                }
            }
            QOp::PopFront => {
                opname = "pop_front";
                match ctx.no_panic("pop_front", || q.pop_front().map(|x| x.key())) {
                    None => alive = false,
                    Some(got) => {
                        let want = model.pop_front();
                        ctx.eq("pop_front", if len == 0 { "empty" } else { state }, &got, &want);
                    }
                }
            }
            QOp::PushBulk(idv) => {
                opname = "push_bulk";
                if !idv.is_empty() && st.tail_index + idv.len() > st.capacity && len + idv.len() <= st.capacity {
                    fl.bulk_straddle = true;
                }
                let items: Vec<T> = idv.iter().map(|i| T::make(*i as u64)).collect();
                let r = ctx.no_panic("push_bulk", || q.push_bulk(&items));
                drop(items);
                match r {
                    None => alive = false,
                    Some(Ok(n)) => {
                        ctx.eq("push_bulk_count", state, &n, &idv.len());
                        model.extend(idv.iter().map(|i| T::key_of(*i as u64)));
                    }
                    Some(Err(e)) => ctx.fail("push_bulk", "err", state, format!("{e}")),
                }
            }
            QOp::PopBulk(n) => {
                opname = "pop_bulk";
                let k = (*n).min(len);
                if k > 0 && st.head_index + k > st.capacity {
                    fl.bulk_straddle = true;
                }
                let mut out: Vec<T> = (0..*n).map(|j| T::make(900_000 + j as u64)).collect();
                match ctx.no_panic("pop_bulk", || q.pop_bulk(&mut out)) {
                    None => {
                        alive = false;
                        std::mem::forget(out);
                    }
                    Some(got_n) => {
                        ctx.eq("pop_bulk_count", state, &got_n, &k);
                        let mut want: Vec<u64> = model.drain(..k.min(model.len())).collect();
                        want.extend((k..*n).map(|j| T::key_of(900_000 + j as u64)));
                        ctx.eq("pop_bulk", state, &keys(&out), &want);
                        drop(out);
                    }
                }
            }
            QOp::Front => {
                opname = "front";
                if let Some(g) = ctx.no_panic("front", || q.front().map(|x| x.key())) {
                    ctx.eq("front", if len == 0 { "empty" } else { state }, &g, &model.front().copied());
                }
            }
            QOp::Back => {
                opname = "back";
                if let Some(g) = ctx.no_panic("back", || q.back().map(|x| x.key())) {
                    ctx.eq("back", if len == 0 { "empty" } else { state }, &g, &model.back().copied());
                }
            }
            QOp::Reserve(n) => {
                opname = "reserve";
                match ctx.no_panic("reserve", || q.reserve(*n)) {
                    None => alive = false,
                    Some(Ok(())) => {
                        let c = q.capacity();
                        ctx.ensure("capacity", "after_reserve", c >= len + *n, || format!("reserve({n}) at len {len} left capacity {c}"));
                    }
                    Some(Err(e)) => ctx.fail("reserve", "err", state, format!("{e}")),
                }
            }
            QOp::Clear => {
                opname = "clear";
                match ctx.no_panic("clear", || q.clear()) {
                    None => alive = false,
                    Some(()) => model.clear(),
                }
            }
            QOp::Clone(keep) => {
                opname = "clone";
                match ctx.no_panic("clone", || q.clone()) {
                    None => alive = false,
                    Some(mut c) => {
                        ctx.eq("clone_len", state, &c.len(), &model.len());
                        let same = ctx.no_panic("clone_eq", || q == c);
                        if c.len() == model.len() {
                            ctx.eq("clone_eq", state, &same, &Some(true));
                        }
                        if *keep && c.len() == model.len() {
                            // continue the history on the clone, drop the original
                            std::mem::swap(&mut q, &mut c);
                            drop(c);
                        } else {
                            // drain the clone: it must hold exactly the model's sequence
                            let mut got = vec![];
                            while let Some(Some(x)) = ctx.no_panic("pop_front", || c.pop_front()) {
                                got.push(x.key());
                                if got.len() > model.len() + 8 {
                                    break;
                                }
                            }
                            ctx.eq("clone_seq", state, &got, &model.iter().copied().collect::<Vec<_>>());
                            drop(c);
                        }
                    }
                }
            }
        }
        if !alive {
            ctx.label("abandoned_after_panic");
            std::mem::forget(q);
            return;
        }
        let cls = format!("after_{opname}_{state}");
        let st2 = q.performance_stats();
        if st2.capacity != st.capacity && state != "linear" && len > 0 {
            fl.grew_wrapped = true;
        }
        if !ctx.eq("len", &cls, &q.len(), &model.len()) {
            // resynchronise: trust the implementation's own sequence as far as it can be read
        }
        ctx.eq("is_empty", &cls, &q.is_empty(), &model.is_empty());
        ctx.eq("front", &cls, &q.front().map(|x| x.key()), &model.front().copied());
        ctx.eq("back", &cls, &q.back().map(|x| x.key()), &model.back().copied());
        let now_full = st2.length == st2.capacity && st2.length > 0;
        ctx.eq("debug_seq", if now_full { "when_full" } else { "" }, &format!("{:?}", q), &dbg_keys(&model));
        if !T::COPY {
            // the queue offers no iterator; the registry's live set must have exactly len members
            // with the model's multiset of ids
            let live = reg_live();
            let mut ids: Vec<u64> = live.values().copied().collect();
            ids.sort();
            let mut want: Vec<u64> = model.iter().copied().collect();
            want.sort();
            let (bad, corrupt) = reg_take_bad();
            ctx.ensure("double_drop", &cls, bad.is_empty(), || format!("{} drop(s) of an element that is not alive", bad.len()));
            ctx.ensure("payload", &cls, corrupt == 0, || "heap payload overwritten".to_string());
            if !ctx.eq("live_elements", &cls, &ids, &want) {
                // resync: forget the surplus so it is reported once
                let mut need: HashMap<u64, usize> = HashMap::new();
                for k in &want {
                    *need.entry(*k).or_default() += 1;
                }
                let mut li: Vec<(u64, u64)> = live.into_iter().collect();
                li.sort();
                for (inst, idv) in li.into_iter().rev() {
                    match need.get_mut(&idv) {
                        Some(n) if *n > 0 => *n -= 1,
                        _ => reg_forget(inst),
                    }
                }
            }
        }
    }
    // final drain
    let mut got = vec![];
    while let Some(Some(x)) = ctx.no_panic("pop_front", || q.pop_front()) {
        got.push(x.key());
        if got.len() > model.len() + 8 {
            break;
        }
    }
    ctx.eq("drain", "", &got, &model.iter().copied().collect::<Vec<_>>());
    drop(q);
    if !T::COPY {
        check_registry(ctx, "at_drop", &[]);
    }
    if fl.grew_wrapped {
        ctx.label("grew_while_wrapped");
    }
    if fl.bulk_straddle {
        ctx.label("bulk_op_straddled_wrap_point");
    }
    if fl.grew_wrapped && fl.bulk_straddle {
        ctx.nontrivial();
    }
    ctx.label(format!("ops_{}", match fl.ops { 0 => "0", 1..=9 => "1-9", 10..=29 => "10-29", _ => "30+" }));
}

fn run_fixedq<const N: usize>(ctx: &mut Ctx, ops: &[QOp]) {
    type T = Tracked;
    reg_reset();
    let Some(mut q) = ctx.no_panic("construct", || FixedCircularQueue::<T, N>::new()) else { return };
    let mut model: VecDeque<u64> = VecDeque::new();
    let mut fl = QFlags::default();
    let mut pushed_total = 0usize;
    ctx.eq("capacity", "", &q.capacity(), &N);
    for op in ops {
        if ctx.saturated() {
            break;
        }
        fl.ops += 1;
        let len = model.len();
        let state = if len == N { "full" } else if len == 0 { "empty" } else { "partial" };
        let opname;
        match op {
            QOp::PushBack(id) => {
                opname = "push_back";
                let via_alias = *id % 2 == 0;
                let r = ctx.no_panic("push_back", || if via_alias { q.push(T::make(*id as u64)) } else { q.push_back(T::make(*id as u64)) });
                match r {
                    None => {
                        std::mem::forget(q);
                        return;
                    }
                    Some(Ok(())) => {
                        if len == N {
                            ctx.fail("push_back", "mismatch", "accepted_when_full", format!("push accepted with {len} == capacity elements"));
                        }
                        model.push_back(T::key_of(*id as u64));
                        pushed_total += 1;
                        if pushed_total > N {
                            fl.wrapped = true;
                        }
                    }
                    Some(Err(e)) => {
                        if len == N {
                            fl.refused = true;
                        } else {
                            ctx.fail("push_back", "err", state, format!("push refused with {len} < {N} elements: {e}"));
                        }
                    }
                }
            }
            QOp::PopFront => {
                opname = "pop_front";
                let via_alias = fl.ops % 2 == 0;
                match ctx.no_panic("pop_front", || if via_alias { q.pop() } else { q.pop_front() }.map(|x| x.key())) {
                    None => {
                        std::mem::forget(q);
                        return;
                    }
                    Some(got) => {
                        ctx.eq("pop_front", state, &got, &model.pop_front());
                    }
                }
            }
            QOp::Clear => {
                opname = "clear";
                if ctx.no_panic("clear", || q.clear()).is_none() {
                    std::mem::forget(q);
                    return;
                }
                model.clear();
            }
            QOp::Front => opname = "front",
            QOp::Back => opname = "back",
            _ => {
                continue;
            }
        }
        let cls = format!("after_{opname}_{state}");
        ctx.eq("len", &cls, &q.len(), &model.len());
        ctx.eq("is_empty", &cls, &q.is_empty(), &model.is_empty());
        ctx.eq("is_full", &cls, &q.is_full(), &(model.len() == N));
        ctx.eq("front", &cls, &q.front().map(|x| x.key()), &model.front().copied());
        ctx.eq("back", &cls, &q.back().map(|x| x.key()), &model.back().copied());
        ctx.eq("debug_seq", if model.len() == N { "when_full" } else { "" }, &format!("{:?}", q), &dbg_keys(&model));
        let live = reg_live();
        let mut ids: Vec<u64> = live.values().copied().collect();
        ids.sort();
        let mut want: Vec<u64> = model.iter().copied().collect();
        want.sort();
        let (bad, corrupt) = reg_take_bad();
        ctx.ensure("double_drop", &cls, bad.is_empty(), || format!("{} drop(s) of an element that is not alive", bad.len()));
        ctx.ensure("payload", &cls, corrupt == 0, || "heap payload overwritten".to_string());
        ctx.eq("live_elements", &cls, &ids, &want);
    }
    let mut got = vec![];
    while let Some(Some(x)) = ctx.no_panic("pop_front", || q.pop_front()) {
        got.push(x.key());
        if got.len() > N + 2 {
            break;
        }
    }
    ctx.eq("drain", "", &got, &model.iter().copied().collect::<Vec<_>>());
    // leave some elements inside for Drop to destroy in half of the cases
    if ops.len() % 2 == 1 {
        for j in 0..N.min(3) {
            let _ = q.push_back(T::make(500 + j as u64));
        }
    }
    drop(q);
    check_registry(ctx, "at_drop", &[]);
    if fl.wrapped && fl.refused {
        ctx.nontrivial();
        ctx.label("wrapped_and_refused_when_full");
    }
    ctx.label(format!("ops_{}", match fl.ops { 0 => "0", 1..=9 => "1-9", 10..=29 => "10-29", _ => "30+" }));
}

// ---------------------------------------------------------------------------------------
// string vectors
// ---------------------------------------------------------------------------------------

fn pool_at<'a>(pool: &'a [String], i: u16) -> &'a str {
    if pool.is_empty() {
        ""
    } else {
        &pool[gen::idx(i, pool.len())]
    }
}
fn resolve(n: &Needle, pool: &[String]) -> String {
    match n {
        Needle::Pool(i) => pool_at(pool, *i).to_string(),
        Needle::Prefix(i, c) => pool_at(pool, *i).chars().take(*c as usize).collect(),
        Needle::Plus(i, b) => format!("{}{}", pool_at(pool, *i), *b as char),
        Needle::Lit(s) => s.clone(),
    }
}
fn series(pool: &[String], stem: u16, n: u16) -> Vec<String> {
    let s = pool_at(pool, stem);
    (0..n as u32).map(|j| format!("{}{:03}", s, (j * 7919) % n as u32)).collect()
}
fn len_class(s: &str) -> &'static str {
    match s.len() {
        0 => "empty",
        1..=15 => "short",
        16..=63 => "medium",
        _ => "long",
    }
}
fn strs(v: &[String]) -> Vec<&str> {
    v.iter().map(|s| s.as_str()).collect()
}

/// Minimal common surface of the append-only string vectors.
trait StrVecApi {
    fn push(&mut self, s: &str) -> ZR<usize>;
    fn get(&self, i: usize) -> Option<&str>;
    fn get_bytes(&self, _i: usize) -> Option<Option<&[u8]>> {
        None
    }
    fn len(&self) -> usize;
    fn is_empty(&self) -> bool;
    fn iter_all(&self) -> Option<Vec<String>> {
        None
    }
    fn find(&self, _n: &str) -> Option<Option<usize>> {
        None
    }
    fn count_prefix(&self, _n: &str) -> Option<usize> {
        None
    }
    fn try_clone(&self) -> Option<Self>
    where
        Self: Sized,
    {
        None
    }
    /// Some(n): strings longer than n bytes must be refused
    fn max_str_len(&self) -> Option<usize> {
        None
    }
}

impl<const N: usize> StrVecApi for FixedLenStrVec<N> {
    fn push(&mut self, s: &str) -> ZR<usize> {
        let i = FixedLenStrVec::len(self);
        FixedLenStrVec::push(self, s).map(|_| i)
    }
    fn get(&self, i: usize) -> Option<&str> {
        FixedLenStrVec::get(self, i)
    }
    fn get_bytes(&self, i: usize) -> Option<Option<&[u8]>> {
        Some(FixedLenStrVec::get_bytes(self, i))
    }
    fn len(&self) -> usize {
        FixedLenStrVec::len(self)
    }
    fn is_empty(&self) -> bool {
        FixedLenStrVec::is_empty(self)
    }
    fn find(&self, n: &str) -> Option<Option<usize>> {
        Some(self.find_exact(n))
    }
    fn count_prefix(&self, n: &str) -> Option<usize> {
        Some(FixedLenStrVec::count_prefix(self, n))
    }
    fn max_str_len(&self) -> Option<usize> {
        Some(N.min(255))
    }
}

macro_rules! bitpacked_api {
    ($t:ty) => {
        impl StrVecApi for $t {
            fn push(&mut self, s: &str) -> ZR<usize> {
                <$t>::push(self, s)
            }
            fn get(&self, i: usize) -> Option<&str> {
                <$t>::get(self, i)
            }
            fn get_bytes(&self, i: usize) -> Option<Option<&[u8]>> {
                Some(<$t>::get_bytes(self, i))
            }
            fn len(&self) -> usize {
                <$t>::len(self)
            }
            fn is_empty(&self) -> bool {
                <$t>::is_empty(self)
            }
            fn iter_all(&self) -> Option<Vec<String>> {
                Some(self.iter().map(|s| s.to_string()).collect())
            }
            fn find(&self, n: &str) -> Option<Option<usize>> {
                Some(self.find_simd(n))
            }
            fn try_clone(&self) -> Option<Self> {
                Some(self.clone())
            }
        }
    };
}
bitpacked_api!(BitPackedStringVec32);
bitpacked_api!(BitPackedStringVec64);

/// Append-only vectors with Vec semantics (push returns the new index == old len).
fn run_plain_strvec<V: StrVecApi>(ctx: &mut Ctx, mut v: V, pool: &[String], ops: &[SOp]) {
    let mut model: Vec<String> = vec![];
    let mut queries = 0usize;
    for op in ops {
        if ctx.saturated() {
            break;
        }
        let mut pushes: Vec<String> = vec![];
        match op {
            SOp::Push(i) => pushes.push(pool_at(pool, *i).to_string()),
            SOp::PushLit(s) => pushes.push(s.clone()),
            SOp::PushSeries(s, n) => pushes = series(pool, *s, (*n).min(80)),
            SOp::Get(p) => {
                queries += 1;
                let i = p.at(model.len());
                let cls = if i < model.len() { "in_range" } else { "past_end" };
                ctx.eq("get", cls, &v.get(i), &model.get(i).map(|s| s.as_str()));
                if let Some(b) = v.get_bytes(i) {
                    ctx.eq("get_bytes", cls, &b, &model.get(i).map(|s| s.as_bytes()));
                }
            }
            SOp::Find(n) => {
                queries += 1;
                let needle = resolve(n, pool);
                if let Some(Some(got)) = ctx.no_panic("find", || v.find(&needle)) {
                    let want = model.iter().position(|s| *s == needle);
                    ctx.eq("find", if want.is_some() { "present" } else { "absent" }, &got, &want);
                }
            }
            SOp::CountPrefix(n) => {
                queries += 1;
                let needle = resolve(n, pool);
                if let Some(Some(got)) = ctx.no_panic("count_prefix", || v.count_prefix(&needle)) {
                    let want = model.iter().filter(|s| s.as_bytes().starts_with(needle.as_bytes())).count();
                    ctx.eq("count_prefix", len_class(&needle), &got, &want);
                }
            }
            SOp::Clone(keep) => {
                if let Some(Some(c)) = ctx.no_panic("clone", || v.try_clone()) {
                    let got: Vec<Option<String>> = (0..c.len()).map(|i| c.get(i).map(|s| s.to_string())).collect();
                    let want: Vec<Option<String>> = model.iter().cloned().map(Some).collect();
                    ctx.eq("clone_seq", "", &got, &want);
                    if *keep {
                        v = c;
                    }
                }
            }
            SOp::Iter => {
                if let Some(Some(got)) = ctx.no_panic("iter", || v.iter_all()) {
                    ctx.eq("iter", "", &got, &model);
                }
            }
            _ => continue,
        }
        for s in pushes {
            let too_long = v.max_str_len().map(|m| s.len() > m).unwrap_or(false);
            match ctx.no_panic("push", || v.push(&s)) {
                None => return,
                Some(Ok(i)) => {
                    if too_long {
                        ctx.fail("push", "mismatch", "accepted_over_length", format!("{}-byte string accepted", s.len()));
                    }
                    ctx.eq("push_index", "", &i, &model.len());
                    model.push(s);
                }
                Some(Err(e)) => {
                    if too_long {
                        ctx.label("push_refused_over_length");
                    } else {
                        ctx.fail("push", "err", len_class(&s), format!("{}-byte string refused: {e}", s.len()));
                    }
                }
            }
        }
        ctx.eq("len", "", &v.len(), &model.len());
        ctx.eq("is_empty", "", &v.is_empty(), &model.is_empty());
        let got: Vec<Option<&str>> = (0..v.len().min(model.len() + 4)).map(|i| v.get(i)).collect();
        let want: Vec<Option<&str>> = model.iter().map(|s| Some(s.as_str())).collect();
        ctx.eq("seq", "", &got, &want);
        ctx.eq("get", "past_end", &v.get(model.len()), &None);
    }
    str_labels(ctx, &model, queries);
}

fn str_labels(ctx: &mut Ctx, model: &[String], queries: usize) {
    if model.len() >= 3 && queries >= 1 {
        ctx.nontrivial();
    }
    if model.iter().any(|s| s.is_empty()) {
        ctx.label("has_empty_string");
    }
    if model.iter().any(|s| !s.is_ascii()) {
        ctx.label("has_bytes>=0x80");
    }
    let set: BTreeSet<&String> = model.iter().collect();
    if set.len() < model.len() {
        ctx.label("has_duplicates");
    }
    ctx.label(format!("strings_{}", match model.len() { 0 => "0", 1..=2 => "1-2", 3..=31 => "3-31", 32..=512 => "32-512", _ => "513+" }));
}

fn run_sortable(ctx: &mut Ctx, pool: &[String], ops: &[SOp]) {
    let mut v = SortableStrVec::new();
    let mut model: Vec<String> = vec![];
    let mut lex_sorted = false;
    let mut queries = 0usize;
    for op in ops {
        if ctx.saturated() {
            break;
        }
        let mut pushes: Vec<String> = vec![];
        match op {
            SOp::Push(i) => pushes.push(pool_at(pool, *i).to_string()),
            SOp::PushLit(s) => pushes.push(s.clone()),
            SOp::PushSeries(s, n) => pushes = series(pool, *s, *n),
            SOp::Huge(k) => {
                let n = match k % 3 {
                    0 => (1usize << 20) - 1,
                    1 => 1usize << 20,
                    _ => (1usize << 20) + 5,
                };
                ctx.label("huge_string");
                pushes.push("h".repeat(n));
            }
            SOp::Get(p) => {
                queries += 1;
                let i = p.at(model.len());
                let cls = if i < model.len() { "in_range" } else { "past_end" };
                ctx.eq("get", cls, &v.get(i), &model.get(i).map(|s| s.as_str()));
                ctx.eq("get_by_id", cls, &v.get_by_id(i), &model.get(i).map(|s| s.as_str()));
            }
            SOp::Sort(k) => {
                queries += 1;
                let name = ["sort_lexicographic", "sort", "sort_by_length", "sort_by_reverse", "radix_sort"][(*k % 5) as usize];
                let r = ctx.no_panic(name, || match k % 5 {
                    0 => v.sort_lexicographic(),
                    1 => v.sort(),
                    2 => v.sort_by_length(),
                    3 => v.sort_by(|a, b| b.cmp(a)),
                    _ => v.radix_sort(),
                });
                match r {
                    None => return,
                    Some(Err(e)) => ctx.fail(name, "err", "", format!("{e}")),
                    Some(Ok(())) => {
                        let got: Vec<Option<&str>> = (0..model.len()).map(|i| v.get_sorted(i)).collect();
                        let via_iter: Vec<&str> = v.iter_sorted().collect();
                        let size = if model.len() >= 32 { "n>=32" } else { "n<32" };
                        let mut want = model.clone();
                        match k % 5 {
                            2 => {
                                // ties may come in any order: compare lengths, then multisets
                                let lens: Vec<Option<usize>> = got.iter().map(|s| s.map(|x| x.len())).collect();
                                let mut wl: Vec<Option<usize>> = model.iter().map(|s| Some(s.len())).collect();
                                wl.sort();
                                ctx.eq(name, size, &lens, &wl);
                                let mut g: Vec<Option<&str>> = got.clone();
                                g.sort();
                                want.sort();
                                ctx.eq("sorted_is_permutation", name, &g, &want.iter().map(|s| Some(s.as_str())).collect());
                            }
                            3 => {
                                want.sort_by(|a, b| b.cmp(a));
                                ctx.eq(name, size, &got, &want.iter().map(|s| Some(s.as_str())).collect());
                            }
                            _ => {
                                want.sort();
                                ctx.eq(name, size, &got, &want.iter().map(|s| Some(s.as_str())).collect());
                            }
                        }
                        ctx.eq("iter_sorted", name, &via_iter.iter().map(|s| Some(*s)).collect::<Vec<_>>(), &got);
                        ctx.eq("get_sorted", "past_end", &v.get_sorted(model.len()), &None);
                        lex_sorted = matches!(k % 5, 0 | 1 | 4);
                    }
                }
            }
            SOp::Search(n) => {
                if !lex_sorted {
                    // unsorted / other order: the API only promises an Err, position unspecified
                    continue;
                }
                queries += 1;
                let needle = resolve(n, pool);
                let size = if model.len() > 512 { "n>512" } else { "n<=512" };
                if let Some(r) = ctx.no_panic("binary_search", || v.binary_search(&needle)) {
                    let present = model.iter().any(|s| *s == needle);
                    match r {
                        Ok(i) => {
                            ctx.ensure("binary_search", &format!("found_absent_{size}"), present, || format!("Ok({i}) for a string that was never pushed"));
                            ctx.eq("binary_search", &format!("found_index_{size}"), &v.get_sorted(i), &Some(needle.as_str()));
                        }
                        Err(_) => {
                            ctx.ensure("binary_search", &format!("missed_present_{size}"), !present, || format!("Err for a stored string ({} strings)", model.len()));
                        }
                    }
                }
            }
            SOp::Clear => {
                if ctx.no_panic("clear", || v.clear()).is_none() {
                    return;
                }
                model.clear();
                lex_sorted = false;
            }
            SOp::Clone(keep) => {
                if let Some(c) = ctx.no_panic("clone", || v.clone()) {
                    let got: Vec<Option<String>> = (0..c.len()).map(|i| c.get(i).map(|s| s.to_string())).collect();
                    ctx.eq("clone_seq", "", &got, &model.iter().cloned().map(Some).collect());
                    if lex_sorted {
                        let mut want = model.clone();
                        want.sort();
                        let gs: Vec<Option<String>> = (0..c.len()).map(|i| c.get_sorted(i).map(|s| s.to_string())).collect();
                        ctx.eq("clone_sorted", "", &gs, &want.into_iter().map(Some).collect());
                    }
                    if *keep {
                        v = c;
                    }
                }
            }
            SOp::Iter => {
                let got: Vec<&str> = v.iter().collect();
                ctx.eq("iter", "", &got, &strs(&model));
            }
            SOp::Reserve(n) => {
                let _ = ctx.no_panic("reserve", || {
                    v.reserve((*n % 64) as usize);
                    if *n % 2 == 0 {
                        v.shrink_to_fit();
                    }
                });
            }
            _ => continue,
        }
        for s in pushes {
            let cls = if s.len() >= (1 << 20) { "len>=2^20" } else { len_class(&s) };
            let r = if s.len() % 2 == 0 { ctx.no_panic("push", || v.push_str(&s)) } else { ctx.no_panic("push", || v.push(s.clone())) };
            match r {
                None => return,
                Some(Ok(i)) => {
                    ctx.eq("push_index", cls, &i, &model.len());
                    // a stored string must read back (checked here so a huge string is not cloned into every later comparison)
                    let back_ok = v.get(i).map(|g| g == s.as_str()).unwrap_or(false);
                    ctx.ensure("push_readback", cls, back_ok, || format!("get({i}) after push of a {}-byte string returned {} bytes", s.len(), v.get(i).map(|g| g.len() as i64).unwrap_or(-1)));
                    if back_ok {
                        model.push(s);
                    } else {
                        // resynchronise this aspect: the model holds what the vector answers
                        model.push(v.get(i).unwrap_or("").to_string());
                    }
                    lex_sorted = false;
                }
                Some(Err(e)) => {
                    if s.len() >= (1 << 20) {
                        ctx.label("huge_string_refused");
                    } else {
                        ctx.fail("push", "err", cls, format!("{}-byte string refused: {e}", s.len()));
                    }
                }
            }
        }
        ctx.eq("len", "", &v.len(), &model.len());
        ctx.eq("is_empty", "", &v.is_empty(), &model.is_empty());
        // full sequence comparison; huge strings are compared by (len, first bytes) to stay cheap
        let sig = |s: &str| (s.len(), s.as_bytes().iter().take(24).copied().collect::<Vec<u8>>(), s.as_bytes().iter().rev().take(8).copied().collect::<Vec<u8>>());
        let got: Vec<_> = (0..v.len().min(model.len() + 4)).map(|i| v.get(i).map(sig)).collect();
        let want: Vec<_> = model.iter().map(|s| Some(sig(s))).collect();
        if !ctx.eq("seq", "", &got, &want) {
            // resynchronise to what the implementation holds
            model = (0..v.len()).map(|i| v.get(i).unwrap_or("").to_string()).collect();
            lex_sorted = false;
        }
        ctx.eq("get", "past_end", &v.get(model.len()), &None);
    }
    str_labels(ctx, &model, queries);
}

fn run_advanced(ctx: &mut Ctx, level: u8, pool: &[String], ops: &[SOp]) {
    let cfg = match level {
        0 => AdvancedStringConfig { compression_level: 0, ..AdvancedStringConfig::default() },
        1 => AdvancedStringConfig::default(),
        2 => AdvancedStringConfig::balanced(),
        _ => AdvancedStringConfig::memory_optimized(),
    };
    let mut v = AdvancedStringVec::with_config(cfg);
    // the type interns: push returns an id and get(id) must give the string back for ever after.
    let mut by_id: Vec<Option<String>> = vec![];
    let mut pushed = 0usize;
    let mut queries = 0usize;
    let mut all: Vec<String> = vec![];
    let mut bad_readback = false;
    for op in ops {
        if ctx.saturated() {
            break;
        }
        let mut pushes: Vec<String> = vec![];
        match op {
            SOp::Push(i) => pushes.push(pool_at(pool, *i).to_string()),
            SOp::PushLit(s) => pushes.push(s.clone()),
            SOp::PushSeries(s, n) => pushes = series(pool, *s, (*n).min(80)),
            SOp::Get(p) => {
                queries += 1;
                let i = p.at(by_id.len());
                if i >= by_id.len() {
                    ctx.eq("get", "past_end", &v.get(i), &None);
                }
            }
            SOp::Clone(keep) => {
                if let Some(c) = ctx.no_panic("clone", || v.clone()) {
                    let got: Vec<Option<String>> = (0..c.len()).map(|i| c.get(i).map(|s| s.to_string())).collect();
                    let want: Vec<Option<String>> = (0..v.len()).map(|i| v.get(i).map(|s| s.to_string())).collect();
                    ctx.eq("clone_seq", "", &got, &want);
                    if *keep {
                        v = c;
                    }
                }
            }
            SOp::Iter => {
                let got: Vec<String> = v.iter().map(|s| s.to_string()).collect();
                let want: Vec<String> = (0..v.len()).filter_map(|i| v.get(i).map(|s| s.to_string())).collect();
                ctx.eq("iter", if bad_readback { "after_bad_readback" } else { "agrees_with_get" }, &got, &want);
            }
            _ => continue,
        }
        for s in pushes {
            pushed += 1;
            match ctx.no_panic("push", || v.push(&s)) {
                None => return,
                Some(Ok(id)) => {
                    let how = if id < by_id.len() { "reused_id" } else { "new_id" };
                    if id < by_id.len() {
                        ctx.label("push_deduplicated");
                        if level == 0 {
                            ctx.fail("push_index", "mismatch", "level0_reused_id", format!("level 0 returned existing id {id}"));
                        }
                    } else {
                        ctx.eq("push_index", "new_id_is_len", &id, &by_id.len());
                        while by_id.len() <= id {
                            by_id.push(None);
                        }
                    }
                    let prior = by_id[id].clone();
                    if let Some(p) = &prior {
                        ctx.eq("push_index", "reused_id_holds_same_string", p, &s);
                    }
                    let ok1 = ctx.eq("push_readback", &format!("{how}_{}", len_class(&s)), &v.get(id), &Some(s.as_str()));
                    let ok2 = ctx.eq("push_readback_bytes", &format!("{how}_{}", len_class(&s)), &v.get_bytes(id), &Some(s.as_bytes()));
                    if !(ok1 && ok2) {
                        bad_readback = true;
                    }
                    if prior.is_none() {
                        // on a bad read-back the model follows the implementation (resync)
                        by_id[id] = if ok1 { Some(s.clone()) } else { v.get(id).map(|x| x.to_string()) };
                    }
                    all.push(s);
                }
                Some(Err(e)) => ctx.fail("push", "err", len_class(&s), format!("{e}")),
            }
        }
        // every id handed out so far still resolves to its string; nothing beyond len
        ctx.eq("len", "", &v.len(), &by_id.len());
        ctx.eq("is_empty", "", &v.is_empty(), &by_id.is_empty());
        let got: Vec<Option<&str>> = (0..by_id.len()).map(|i| v.get(i)).collect();
        let want: Vec<Option<&str>> = by_id.iter().map(|s| s.as_deref()).collect();
        // (an entry that read back wrongly points at foreign arena bytes, which later pushes change)
        if !ctx.eq("seq", if bad_readback { "after_bad_readback" } else { "" }, &got, &want) {
            by_id = got.iter().map(|s| s.map(|x| x.to_string())).collect();
        }
        ctx.eq("get", "past_end", &v.get(by_id.len()), &None);
    }
    let _ = pushed;
    str_labels(ctx, &all, queries.max(1));
}

fn run_zo(ctx: &mut Ctx, pool: &[String], picks: &[u16], ctor: u8, ops: &[SOp]) {
    let input: Vec<String> = picks.iter().map(|i| pool_at(pool, *i).to_string()).collect();
    let has_nul = input.iter().any(|s| s.contains('\0'));
    let nul = if has_nul { "contains_nul" } else { "" };
    let mut sorted = input.clone();
    sorted.sort();
    let mut dedup = sorted.clone();
    dedup.dedup();
    let is_sorted = input.windows(2).all(|w| w[0] <= w[1]);
    let (built, want, how) = match ctor % 4 {
        0 => (ctx.no_panic("from_strings", || ZoSortedStrVec::from_strings(input.clone())), dedup.clone(), "from_strings"),
        1 => (ctx.no_panic("from_sorted_strings", || ZoSortedStrVec::from_sorted_strings(sorted.clone())), sorted.clone(), "from_sorted_strings"),
        2 => {
            // unsorted input must be refused, sorted input accepted
            let r = ctx.no_panic("from_sorted_strings", || ZoSortedStrVec::from_sorted_strings(input.clone()));
            if !is_sorted {
                if let Some(r) = &r {
                    ctx.ensure("from_sorted_strings", "unsorted_input", r.is_err(), || "unsorted input accepted".to_string());
                }
                ctx.label("unsorted_input_refused");
                return;
            }
            (r, input.clone(), "from_sorted_strings")
        }
        _ => {
            let r = ctx.no_panic("from_sortable_str_vec", || {
                let mut sv = SortableStrVec::new();
                for s in &input {
                    sv.push_str(s)?;
                }
                ZoSortedStrVec::from_sortable_str_vec(sv)
            });
            (r, sorted.clone(), "from_sortable_str_vec")
        }
    };
    ctx.label(how);
    let v = match built {
        None => return,
        Some(Err(e)) => {
            if has_nul {
                // a NUL-terminated layout may refuse what it cannot represent
                ctx.label("refused_string_with_nul");
            } else {
                ctx.fail("construct", "err", how, format!("{e}"));
            }
            return;
        }
        Some(Ok(v)) => v,
    };
    let dups = want.windows(2).any(|w| w[0] == w[1]);
    ctx.eq("len", nul, &v.len(), &want.len());
    ctx.eq("is_empty", nul, &v.is_empty(), &want.is_empty());
    let got: Vec<Option<&str>> = (0..v.len().min(want.len() + 4)).map(|i| v.get(i)).collect();
    ctx.eq("seq", nul, &got, &want.iter().map(|s| Some(s.as_str())).collect());
    ctx.eq("iter", nul, &v.iter().collect::<Vec<_>>(), &strs(&want));
    ctx.eq("get", "past_end", &v.get(want.len()), &None);
    if has_nul {
        ctx.label("contains_nul");
        // the remaining queries are defined over the stored sequence; with NULs that is already wrong
        return;
    }
    let mut queries = 0usize;
    for op in ops {
        if ctx.saturated() {
            break;
        }
        match op {
            SOp::Get(p) => {
                queries += 1;
                let i = p.at(want.len());
                ctx.eq("get", if i < want.len() { "in_range" } else { "past_end" }, &v.get(i), &want.get(i).map(|s| s.as_str()));
            }
            SOp::Search(n) => {
                queries += 1;
                let needle = resolve(n, pool);
                if let Some(r) = ctx.no_panic("binary_search", || v.binary_search(&needle)) {
                    match want.binary_search(&needle) {
                        Ok(_) => match r {
                            Ok(i) => {
                                ctx.eq("binary_search", "found_index", &v.get(i), &Some(needle.as_str()));
                            }
                            Err(i) => ctx.fail("binary_search", "mismatch", "missed_present", format!("Err({i}) for a stored string")),
                        },
                        Err(ip) => {
                            // documented: Err(insertion_point)
                            ctx.eq("binary_search", "insertion_point", &r, &Err(ip));
                        }
                    }
                    ctx.eq("contains", "", &v.contains(&needle), &want.binary_search(&needle).is_ok());
                }
            }
            SOp::Range(a, b) => {
                queries += 1;
                let (lo, hi) = (resolve(a, pool), resolve(b, pool));
                if lo > hi {
                    continue; // the doc does not define a reversed range
                }
                if let Some(got) = ctx.no_panic("range", || v.range(&lo, &hi).collect::<Vec<_>>()) {
                    let wantr: Vec<&str> = want.iter().filter(|s| **s >= lo && **s < hi).map(|s| s.as_str()).collect();
                    ctx.eq("range", if dups { "with_duplicates" } else { "distinct" }, &got, &wantr);
                }
            }
            SOp::Clone(_) => {
                let c = v.clone();
                ctx.eq("clone_seq", "", &c.iter().collect::<Vec<_>>(), &strs(&want));
            }
            _ => continue,
        }
    }
    str_labels(ctx, &want, queries);
}

// ---------------------------------------------------------------------------------------
// probe: FastVec::copy_from_slice_fast with a source shorter than the vector
// ---------------------------------------------------------------------------------------

fn run_copy_shorter(ctx: &mut Ctx, n: usize, m: usize) {
    let (n, m) = (n.max(2), m.max(1));
    let m = m.min(n - 1);
    ctx.nontrivial();
    ctx.label(if n * 8 >= 64 { "dst>=64B" } else { "dst<64B" });
    let mut v: FastVec<u64> = FastVec::new();
    for i in 0..n {
        if v.push(u64::make(i as u64)).is_err() {
            return;
        }
    }
    let src: Vec<u64> = (0..m).map(|i| u64::make(5000 + i as u64)).collect();
    // replaces the contents with `src` (that is what it does for an equal-length or longer source)
    match ctx.no_panic("copy_from_slice", || v.copy_from_slice_fast(&src)) {
        Some(Ok(())) => {
            ctx.eq("copy_from_slice", "shorter_source", &v.as_slice().to_vec(), &src);
        }
        Some(Err(_)) => ctx.label("refused"),
        None => {}
    }
}

// ---------------------------------------------------------------------------------------
// the property
// ---------------------------------------------------------------------------------------

const SORTABLE_KINDS: &[(u32, SK)] = &[
    (14, SK::Push),
    (6, SK::PushLit),
    (5, SK::Series),
    (1, SK::BigSeries),
    (6, SK::Get),
    (10, SK::Sort),
    (10, SK::Search),
    (1, SK::Clear),
    (3, SK::Clone),
    (3, SK::Iter),
    (1, SK::Huge),
    (2, SK::Reserve),
];
const PLAIN_KINDS: &[(u32, SK)] = &[(16, SK::Push), (8, SK::PushLit), (3, SK::Series), (8, SK::Get), (8, SK::Find), (3, SK::Clone), (3, SK::Iter)];
const FIXED_KINDS: &[(u32, SK)] = &[(16, SK::Push), (8, SK::PushLit), (2, SK::Series), (8, SK::Get), (8, SK::Find), (8, SK::CountPrefix)];
const ADV_KINDS: &[(u32, SK)] = &[(18, SK::Push), (8, SK::PushLit), (4, SK::Series), (5, SK::Get), (3, SK::Clone), (3, SK::Iter)];
const ZO_KINDS: &[(u32, SK)] = &[(6, SK::Get), (10, SK::Search), (8, SK::Range), (1, SK::Clone)];

fn caps_small() -> BoxedStrategy<usize> {
    prop_oneof![3 => Just(0usize), 5 => 1usize..=8, 1 => 9usize..40].boxed()
}

impl Prop for P {
    fn id(&self) -> &'static str {
        "C10"
    }
    fn rule(&self) -> &'static str {
        "histories vec(op) per cell (container type x element type), interpreted against Vec / VecDeque / Vec<String>; initial capacities 0-8 so growth happens early; indices drawn from {0, len-1, len, len+1, uniform}; bulk sizes biased to 8/64-element boundaries (64-byte SIMD thresholds). Non-trivial: vectors = >=1 reallocation (FastVec additionally >=1 insert/remove at index 0 and at the end; BumpVec = capacity reached and a push refused); AutoGrow queue = >=1 growth while wrapped/full and >=1 bulk op straddling the wrap point; fixed queues = index wrap-around and a refused push; string vectors = >=3 strings and >=1 query. Distinct by hash of the case JSON"
    }
    fn assumptions(&self) -> Vec<String> {
        vec![
            "Index/IndexMut out of range is not generated (documented abort/panic, like std); only Option/Result-returning accessors are asked for out-of-range positions".into(),
            "FastVec::ensure_capacity(n < len) and copy_from_slice_fast(empty source on a non-empty vector) are not generated: the API does not say what they do; copy_from_slice_fast with a shorter source is only generated in the dedicated cell fastvec_copy_shorter".into(),
            "an Err from an operation whose arguments are valid is a divergence from Vec (no allocation can fail at these sizes); Err from BumpVec/FixedCircularQueue at capacity and from FixedLenStrVec over N bytes is the contract".into(),
            "fill_range with start > end: FastVec must refuse, MmapVec treats it as an empty range (both accepted as implemented; std would panic)".into(),
            "SortableStrVec::binary_search is only asked after a lexicographic sort; the Err payload is not asserted (undocumented), ZoSortedStrVec documents Err(insertion_point) and that is asserted".into(),
            "AdvancedStringVec interns (levels >= 1 return the existing id for a duplicate): the oracle is get(push(s)) == s for every id ever returned plus len == number of distinct ids; level 0 must behave as a plain Vec".into(),
            "sort_by_length ties may come in any order (compared as length sequence + multiset)".into(),
            "circular_queue_ultrafast.rs is not part of the crate (no mod declaration) and cannot be reached".into(),
        ]
    }
    fn plans(&self, tier: Tier) -> Vec<Plan> {
        let q = |a: usize, b: usize| tier.pick(a, b);
        let l = q(60, 140);
        let big = q(48, 200);
        let n = q(4000, 100_000);
        let b = |x: usize| (x * 15) / 100;
        let mut v = vec![];
        v.push(Plan::new("fastvec_tracked", n, b(n), vec_case(<FastVec<Tracked> as VecApi<Tracked>>::kinds(), big, l, caps_small())));
        v.push(Plan::new("fastvec_u64", n, b(n), vec_case(<FastVec<u64> as VecApi<u64>>::kinds(), big, l, caps_small())));
        v.push(Plan::new("fastvec_u8", n, b(n), vec_case(<FastVec<u8> as VecApi<u8>>::kinds(), q(200, 600), l, caps_small())));
        v.push(Plan::new("valvec32_tracked", n, b(n), vec_case(<ValVec32<Tracked> as VecApi<Tracked>>::kinds(), big, l, caps_small())));
        v.push(Plan::new("valvec32_u64", n, b(n), vec_case(<ValVec32<u64> as VecApi<u64>>::kinds(), big, l, caps_small())));
        v.push(Plan::new("cachevec_tracked", n, b(n), vec_case(<CacheAlignedVec<Tracked> as VecApi<Tracked>>::kinds(), big, l, caps_small())));
        v.push(Plan::new("cachevec_u8", n / 2, b(n / 2), vec_case(<CacheAlignedVec<u8> as VecApi<u8>>::kinds(), q(200, 600), l, caps_small())));
        v.push(Plan::new("bumpvec_tracked", n / 2, b(n / 2), vec_case(<BumpVec<'static, Tracked> as VecApi<Tracked>>::kinds(), big, l, (1usize..=12).boxed())));
        v.push(Plan::new("mmapvec_u64", n / 2, b(n / 2), vec_case(<MmapVec<u64> as VecApi<u64>>::kinds(), big, l / 2, caps_small())));
        v.push(Plan::new("mmapvec_u8", n / 2, b(n / 2), vec_case(<MmapVec<u8> as VecApi<u8>>::kinds(), q(200, 600), l / 2, caps_small())));
        v.push(Plan::new(
            "fixed_len_str_vec_arena_limit",
            q(24, 300),
            b(q(24, 300)) / 4,
            (proptest::sample::select(vec![255u8, 128, 254, 64, 100]), prop_oneof![Just(0u16), Just(1u16), 0u16..600], proptest::collection::vec(prop_oneof![3 => Just(0u8), 2 => 1u8..4, 2 => any::<u8>()], 1..24))
                .prop_map(|(unit, slack, tail)| Case::ArenaLimit { unit, slack, tail }),
        ));
        v.push(Plan::new("fastvec_copy_shorter", q(60, 400), b(q(60, 400)), (2usize..40, 1usize..40).prop_map(|(n, m)| Case::CopyShorter { n, m })));
        for nn in [1usize, 2, 3, 4, 5, 6, 7, 12, 16] {
            v.push(Plan::new(
                &format!("fixedq_n{nn}"),
                n / 2,
                b(n / 2),
                proptest::collection::vec(if nn >= 16 { qop_w(false, 0, 60, 22) } else { qop(false, 0) }, 0..(if nn >= 16 { l * 2 } else { l }))
                    .prop_map(|ops| Case::Queue { cap: 0, ops }),
            ));
        }
        let qcaps = prop_oneof![1 => Just(0usize), 6 => 1usize..=8, 1 => 9usize..20].boxed();
        v.push(Plan::new(
            "autoq_tracked",
            n * 2,
            b(n * 2),
            (qcaps.clone(), proptest::collection::vec(qop(true, q(24, 80)), 0..l)).prop_map(|(cap, ops)| Case::Queue { cap, ops }),
        ));
        v.push(Plan::new("autoq_u64", n, b(n), (qcaps, proptest::collection::vec(qop(true, q(24, 80)), 0..l)).prop_map(|(cap, ops)| Case::Queue { cap, ops })));
        let sl = q(40, 90);
        v.push(Plan::new("sortable_str_vec", n, 0, str_case(SORTABLE_KINDS, 8, sl)));
        v.push(Plan::new("fixed_len_str_vec_n4", n / 2, 0, str_case(FIXED_KINDS, 4, sl)));
        v.push(Plan::new("fixed_len_str_vec_n16", n / 2, 0, str_case(FIXED_KINDS, 16, sl)));
        v.push(Plan::new("bitpacked_str_vec32", n / 2, 0, str_case(PLAIN_KINDS, 16, sl)));
        v.push(Plan::new("bitpacked_str_vec64", n / 2, 0, str_case(PLAIN_KINDS, 32, sl)));
        for lvl in 0..4 {
            v.push(Plan::new(&format!("advanced_str_vec_l{lvl}"), n / 2, 0, str_case(ADV_KINDS, 8, sl)));
        }
        v.push(Plan::new(
            "zo_sorted_str_vec",
            n,
            b(n) / 2,
            (
                proptest::collection::vec(prop_oneof![12 => string_class(8, false), 1 => string_class(8, true)], 1..10),
                proptest::collection::vec(any::<u16>(), 0..q(40, 400)),
                0u8..4,
                proptest::collection::vec(sop(ZO_KINDS, 8), 0..sl),
            )
                .prop_map(|(pool, picks, ctor, ops)| Case::Zo { pool, picks, ctor, ops }),
        ));
        v
    }

    fn run(&self, case: &Value, ctx: &mut Ctx) {
        let c: Case = decode(case);
        let cell = ctx.cell.clone();
        match (cell.as_str(), c) {
            ("fastvec_tracked", Case::Vec { cap, ops }) => run_fastvec::<Tracked>(ctx, cap, &ops),
            ("fastvec_u64", Case::Vec { cap, ops }) => run_fastvec::<u64>(ctx, cap, &ops),
            ("fastvec_u8", Case::Vec { cap, ops }) => run_fastvec::<u8>(ctx, cap, &ops),
            ("valvec32_tracked", Case::Vec { cap, ops }) => run_valvec::<Tracked>(ctx, cap, &ops),
            ("valvec32_u64", Case::Vec { cap, ops }) => run_valvec::<u64>(ctx, cap, &ops),
            ("cachevec_tracked", Case::Vec { cap, ops }) => run_cachevec::<Tracked>(ctx, cap, &ops),
            ("cachevec_u8", Case::Vec { cap, ops }) => run_cachevec::<u8>(ctx, cap, &ops),
            ("bumpvec_tracked", Case::Vec { cap, ops }) => run_bumpvec::<Tracked>(ctx, cap, &ops),
            ("mmapvec_u64", Case::Vec { cap, ops }) => run_mmapvec::<u64>(ctx, cap, &ops),
            ("mmapvec_u8", Case::Vec { cap, ops }) => run_mmapvec::<u8>(ctx, cap, &ops),
            ("fastvec_copy_shorter", Case::CopyShorter { n, m }) => run_copy_shorter(ctx, n, m),
            ("fixed_len_str_vec_arena_limit", Case::ArenaLimit { unit, slack, tail }) => run_arena_limit(ctx, unit, slack, &tail),
            ("fixedq_n1", Case::Queue { ops, .. }) => run_fixedq::<1>(ctx, &ops),
            ("fixedq_n2", Case::Queue { ops, .. }) => run_fixedq::<2>(ctx, &ops),
            ("fixedq_n3", Case::Queue { ops, .. }) => run_fixedq::<3>(ctx, &ops),
            ("fixedq_n4", Case::Queue { ops, .. }) => run_fixedq::<4>(ctx, &ops),
            ("fixedq_n5", Case::Queue { ops, .. }) => run_fixedq::<5>(ctx, &ops),
            ("fixedq_n6", Case::Queue { ops, .. }) => run_fixedq::<6>(ctx, &ops),
            ("fixedq_n7", Case::Queue { ops, .. }) => run_fixedq::<7>(ctx, &ops),
            ("fixedq_n12", Case::Queue { ops, .. }) => run_fixedq::<12>(ctx, &ops),
            ("fixedq_n16", Case::Queue { ops, .. }) => run_fixedq::<16>(ctx, &ops),
            ("autoq_tracked", Case::Queue { cap, ops }) => run_autoq::<Tracked>(ctx, cap, &ops),
            ("autoq_u64", Case::Queue { cap, ops }) => run_autoq::<u64>(ctx, cap, &ops),
            ("sortable_str_vec", Case::Str { pool, ops }) => run_sortable(ctx, &pool, &ops),
            ("fixed_len_str_vec_n4", Case::Str { pool, ops }) => run_plain_strvec(ctx, FixedLenStrVec::<4>::new(), &pool, &ops),
            ("fixed_len_str_vec_n16", Case::Str { pool, ops }) => run_plain_strvec(ctx, FixedLenStrVec::<16>::with_capacity(2), &pool, &ops),
            ("bitpacked_str_vec32", Case::Str { pool, ops }) => run_plain_strvec(ctx, BitPackedStringVec32::with_capacity(1), &pool, &ops),
            ("bitpacked_str_vec64", Case::Str { pool, ops }) => run_plain_strvec(ctx, BitPackedStringVec64::new(), &pool, &ops),
            ("advanced_str_vec_l0", Case::Str { pool, ops }) => run_advanced(ctx, 0, &pool, &ops),
            ("advanced_str_vec_l1", Case::Str { pool, ops }) => run_advanced(ctx, 1, &pool, &ops),
            ("advanced_str_vec_l2", Case::Str { pool, ops }) => run_advanced(ctx, 2, &pool, &ops),
            ("advanced_str_vec_l3", Case::Str { pool, ops }) => run_advanced(ctx, 3, &pool, &ops),
            ("zo_sorted_str_vec", Case::Zo { pool, picks, ctor, ops }) => run_zo(ctx, &pool, &picks, ctor, &ops),
            (other, _) => ctx.skip(format!("cell {other} does not match the case shape")),
        }
    }
}
