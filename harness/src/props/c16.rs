//! C16 — version tokens: one writer at a time, nothing reclaimed while still visible.
//!
//! Part A (cells `vm_*`, `tm_*`): 2–3 threads run short token programs against one
//! VersionManager / TokenManager under the cooperative scheduler (hook H1); the interleaving is
//! part of the generated case.  Invariants are evaluated at *every* yield point while all other
//! threads are parked, and at quiescence.
//! Part B (cells `tm_hist`, `tm_hist_dropmgr`): sequential histories that create several
//! managers on one thread, cache tokens and drop managers in any order.  The memory-safety
//! clause is decided by the ASan flavour (B); in flavour A managers are only *logically*
//! dropped so that the release-semantics worker never executes known undefined behaviour.

use crate::engine::{decode, fnv, try_call, Ctx, Plan, Prop, Tier};
use crate::gen::idx;
use crate::sched::{self, Schedule};
use proptest::prelude::*;
use serde::{Deserialize, Serialize};
use serde_json::Value;
use std::sync::{Arc, Mutex};
use zipora::fsa::token::{with_reader_token, with_writer_token, TokenManager};
use zipora::fsa::version_sync::{ConcurrencyLevel, LazyFreeItem, LazyFreeList, ReaderToken, VersionManager, WriterToken};

pub struct P;

#[derive(Clone, Copy, Debug, Serialize, Deserialize, PartialEq, Eq, Hash)]
pub enum Op {
    AcqR,
    AcqW,
    /// drop the i-th token this thread holds
    Drop(u16),
    /// return the i-th held token to the per-thread cache (TokenManager cells only)
    Return(u16),
    ClearCache,
    WithReader,
    WithWriter,
    Retire,
}

#[derive(Clone, Debug, Serialize, Deserialize)]
pub enum Sch {
    Gen(Schedule),
    /// enumerate every placement of <= k forced switches (bounded-exhaustive)
    Exhaustive(u8),
    /// real OS threads, unscheduled: `reps` fresh managers, every thread runs its program `loops` times
    Free { reps: u16, loops: u16 },
}

#[derive(Clone, Debug, Serialize, Deserialize)]
pub enum HOp {
    NewManager(u8),
    AcqR(u16),
    AcqW(u16),
    Return(u16),
    DropToken(u16),
    DropManager(u16),
    ClearCache,
}

#[derive(Clone, Debug, Serialize, Deserialize)]
pub enum Case {
    Sched { level: u8, via_tm: bool, threads: Vec<Vec<Op>>, schedule: Sch },
    Hist { ops: Vec<HOp>, allow_drop_mgr: bool },
    /// sequential LazyFreeList history (`threshold` 0 = default constructor)
    Lazy { threshold: usize, ops: Vec<LOp> },
}

#[derive(Clone, Copy, Debug, Serialize, Deserialize)]
pub enum LOp {
    Push(u64),
    /// n items of the same age
    PushRun(u64, u8),
    /// process_safe_items(min_version)
    Process(u64),
}

/// Model: blocks are retired with (offset, size, age); consecutive pushes are often adjacent in
/// memory.  Whatever the list does internally (FIFO, batching, coalescing), every byte range
/// handed to the free callback must consist of pending blocks whose age is below the threshold
/// of that call, the return value equals the number of callbacks, no block is freed twice, and
/// once the threshold exceeds every age repeated processing frees everything.
fn run_lazy(ctx: &mut Ctx, threshold: usize, ops: &[LOp]) {
    let mut list = if threshold == 0 { LazyFreeList::new() } else { LazyFreeList::with_bulk_threshold(threshold) };
    // pending blocks by offset -> (size, age)
    let mut pending: std::collections::BTreeMap<u32, (u32, u64)> = Default::default();
    let mut next_off = 64u32;
    let mut unordered = false;
    let mut last_age = 0u64;
    let mut longest = 0usize;
    let mut mixed_age_neighbours = false;
    let judge = |ctx: &mut Ctx, pending: &mut std::collections::BTreeMap<u32, (u32, u64)>, mv: u64, freed: &[(u64, u32, u32)]| -> bool {
        for &(age, off, size) in freed {
            let mut at = off;
            let end = off.saturating_add(size);
            if size == 0 {
                continue;
            }
            while at < end {
                match pending.remove(&at) {
                    Some((sz, a)) => {
                        if a >= mv {
                            ctx.fail("reclaim", "mismatch", "item_freed_while_visible", format!("bytes {at:#x}..{:#x} were retired at version {a}, yet the free callback received {off:#x}..{end:#x} (stamp {age}) with min_version {mv}", at + sz));
                            return false;
                        }
                        at += sz;
                    }
                    None => {
                        ctx.fail("reclaim", "mismatch", "freed_range_not_pending", format!("free callback received {off:#x}..{end:#x} (stamp {age}); no pending block starts at {at:#x} (freed twice or never retired)"));
                        return false;
                    }
                }
            }
            if at != end {
                ctx.fail("reclaim", "mismatch", "freed_range_not_pending", format!("free callback range {off:#x}..{end:#x} ends inside a retired block"));
                return false;
            }
        }
        true
    };
    for op in ops {
        match *op {
            LOp::Push(a) | LOp::PushRun(a, _) => {
                let n = if let LOp::PushRun(_, n) = *op { n as usize } else { 1 };
                for k in 0..n {
                    if a < last_age {
                        unordered = true;
                    }
                    if a != last_age && !pending.is_empty() {
                        mixed_age_neighbours = true;
                    }
                    last_age = a;
                    // mostly adjacent to the previous block, sometimes after a gap
                    if (a as usize + k) % 5 == 4 {
                        next_off += 24;
                    }
                    let size = 8 + 8 * ((a as u32 + k as u32) % 3);
                    list.push(LazyFreeItem::new(a, next_off, size));
                    pending.insert(next_off, (size, a));
                    next_off += size;
                }
                longest = longest.max(pending.len());
            }
            LOp::Process(mv) => {
                let mut freed: Vec<(u64, u32, u32)> = vec![];
                let Some(n) = ctx.no_panic("process_safe_items", || list.process_safe_items(mv, |it| freed.push((it.age, it.memory_offset, it.size)))) else { return };
                ctx.eq("process_safe_items", "returned_count", &n, &freed.len());
                if !judge(ctx, &mut pending, mv, &freed) {
                    return;
                }
            }
        }
    }
    // drain: with a threshold above every age, repeated processing must free everything
    for _ in 0..(pending.len() + 4) {
        let mut freed: Vec<(u64, u32, u32)> = vec![];
        let Some(n) = ctx.no_panic("process_safe_items", || list.process_safe_items(u64::MAX, |it| freed.push((it.age, it.memory_offset, it.size)))) else { return };
        if !judge(ctx, &mut pending, u64::MAX, &freed) {
            return;
        }
        if n == 0 {
            break;
        }
    }
    ctx.ensure("reclaim", "retired_block_never_freed", pending.is_empty(), || format!("{} retired blocks were never handed to the free callback although min_version exceeds every age", pending.len()));
    ctx.ensure("len", "after_drain", list.is_empty(), || format!("len() = {} after everything was freed", list.len()));
    if mixed_age_neighbours && longest >= 2 {
        ctx.nontrivial();
    }
    if unordered && longest >= 32 {
        ctx.label("lazy_queue>=32_and_unordered");
    }
    ctx.label(format!("lazy_threshold={threshold}"));
}

fn level_of(l: u8) -> ConcurrencyLevel {
    match l % 5 {
        0 => ConcurrencyLevel::NoWriteReadOnly,
        1 => ConcurrencyLevel::SingleThreadStrict,
        2 => ConcurrencyLevel::SingleThreadShared,
        3 => ConcurrencyLevel::OneWriteMultiRead,
        _ => ConcurrencyLevel::MultiWriteMultiRead,
    }
}

// ---------------------------------------------------------------------------------------
// generators
// ---------------------------------------------------------------------------------------

fn op(via_tm: bool) -> BoxedStrategy<Op> {
    if via_tm {
        prop_oneof![
            4 => Just(Op::AcqR),
            4 => Just(Op::AcqW),
            3 => any::<u16>().prop_map(Op::Drop),
            3 => any::<u16>().prop_map(Op::Return),
            1 => Just(Op::ClearCache),
            1 => Just(Op::WithReader),
            1 => Just(Op::WithWriter),
            1 => Just(Op::Retire),
        ]
        .boxed()
    } else {
        prop_oneof![4 => Just(Op::AcqR), 4 => Just(Op::AcqW), 4 => any::<u16>().prop_map(Op::Drop), 1 => Just(Op::Retire)].boxed()
    }
}

fn sched_bytes() -> BoxedStrategy<Schedule> {
    proptest::collection::vec(prop_oneof![5 => Just(0u8), 2 => 160u8..=255], 0..48).prop_map(Schedule::Bytes).boxed()
}

fn sched_case(level: u8, via_tm: bool) -> BoxedStrategy<Case> {
    (proptest::collection::vec(proptest::collection::vec(op(via_tm), 1..=5), 2..=3), sched_bytes())
        .prop_map(move |(threads, s)| Case::Sched { level, via_tm, threads, schedule: Sch::Gen(s) })
        .boxed()
}

fn hop() -> BoxedStrategy<HOp> {
    prop_oneof![
        2 => (0u8..5).prop_map(HOp::NewManager),
        4 => any::<u16>().prop_map(HOp::AcqR),
        3 => any::<u16>().prop_map(HOp::AcqW),
        3 => any::<u16>().prop_map(HOp::Return),
        3 => any::<u16>().prop_map(HOp::DropToken),
        2 => any::<u16>().prop_map(HOp::DropManager),
        1 => Just(HOp::ClearCache),
    ]
    .boxed()
}

// ---------------------------------------------------------------------------------------
// Part A
// ---------------------------------------------------------------------------------------

enum Tok {
    R(ReaderToken),
    W(WriterToken),
}
impl Tok {
    fn is_w(&self) -> bool {
        matches!(self, Tok::W(_))
    }
    fn version(&self) -> u64 {
        match self {
            Tok::R(t) => t.version(),
            Tok::W(t) => t.version(),
        }
    }
}

#[derive(Clone, Debug)]
struct Live {
    thread: usize,
    writer: bool,
    version: u64,
}

#[derive(Default)]
struct Shared {
    live: Mutex<Vec<Live>>,
    /// (aspect, class, detail)
    viol: Mutex<Vec<(String, String, String)>>,
    freed: Mutex<Vec<u64>>,
    free_list: Mutex<Option<LazyFreeList>>,
}

impl Shared {
    fn v(&self, aspect: &str, class: &str, detail: String) {
        let mut g = self.viol.lock().unwrap();
        if !g.iter().any(|x| x.0 == aspect && x.1 == class) {
            g.push((aspect.into(), class.into(), detail));
        }
    }
    fn add(&self, thread: usize, writer: bool, version: u64) {
        self.live.lock().unwrap().push(Live { thread, writer, version });
    }
    fn remove(&self, writer: bool, version: u64) {
        let mut g = self.live.lock().unwrap();
        if let Some(p) = g.iter().position(|l| l.writer == writer && l.version == version) {
            g.remove(p);
        }
    }
}

struct Run {
    vm: Arc<VersionManager>,
    tm: Arc<TokenManager>,
    sh: Arc<Shared>,
    level: ConcurrencyLevel,
}

fn check_min_version(r: &Run, whence: &str) {
    let mv = r.vm.min_version();
    for l in r.sh.live.lock().unwrap().iter() {
        if mv > l.version {
            r.sh.v(
                "min_version",
                "exceeds_live_token",
                format!("{whence}: min_version()={mv} > version {} of a live {} token held by thread {}", l.version, if l.writer { "writer" } else { "reader" }, l.thread),
            );
        }
    }
}

fn thread_body(r: Arc<Run>, me: usize, ops: Vec<Op>, via_tm: bool) {
    let mut held: Vec<Tok> = vec![];
    // tokens this thread has put into its thread-local cache (still live); one slot per kind
    let mut cached_r: Option<u64> = None;
    let mut cached_w: Option<u64> = None;
    for op in ops {
        sched::op_boundary();
        match op {
            Op::AcqR => {
                let res = if via_tm { r.tm.acquire_reader_token() } else { r.vm.acquire_reader_token() };
                if let Ok(t) = res {
                    if cached_r == Some(t.version()) {
                        cached_r = None; // served from the cache: already counted live
                    } else {
                        r.sh.add(me, false, t.version());
                    }
                    held.push(Tok::R(t));
                    check_min_version(&r, "after acquire_reader");
                }
            }
            Op::AcqW => {
                let res = if via_tm { r.tm.acquire_writer_token() } else { r.vm.acquire_writer_token() };
                if let Ok(t) = res {
                    if cached_w == Some(t.version()) {
                        cached_w = None;
                    } else {
                        r.sh.add(me, true, t.version());
                    }
                    if r.level == ConcurrencyLevel::OneWriteMultiRead {
                        let n = r.sh.live.lock().unwrap().iter().filter(|l| l.writer).count();
                        if n > 1 {
                            r.sh.v("writer_exclusion", "two_live_writers", format!("{n} writer tokens live at once in OneWriteMultiRead after thread {me} acquired version {}", t.version()));
                        }
                    }
                    held.push(Tok::W(t));
                    check_min_version(&r, "after acquire_writer");
                }
            }
            Op::Drop(i) => {
                if !held.is_empty() {
                    let t = held.remove(idx(i, held.len()));
                    r.sh.remove(t.is_w(), t.version());
                    drop(t);
                }
            }
            Op::Return(i) => {
                if via_tm && !held.is_empty() {
                    let t = held.remove(idx(i, held.len()));
                    match t {
                        Tok::R(t) => {
                            if let Some(old) = cached_r.take() {
                                r.sh.remove(false, old); // overwritten cache slot drops the old token
                            }
                            cached_r = Some(t.version());
                            r.tm.return_reader_token(t);
                        }
                        Tok::W(t) => {
                            if let Some(old) = cached_w.take() {
                                r.sh.remove(true, old);
                            }
                            cached_w = Some(t.version());
                            r.tm.return_writer_token(t);
                        }
                    }
                }
            }
            Op::ClearCache => {
                if via_tm {
                    if let Some(v) = cached_r.take() {
                        r.sh.remove(false, v);
                    }
                    if let Some(v) = cached_w.take() {
                        r.sh.remove(true, v);
                    }
                    r.tm.clear_thread_cache();
                }
            }
            Op::WithReader => {
                if via_tm {
                    let had = cached_r;
                    let sh = r.sh.clone();
                    let res = with_reader_token(&r.tm, |t| {
                        if had != Some(t.version()) {
                            sh.add(me, false, t.version());
                        }
                        Ok(t.version())
                    });
                    if let Ok(v) = res {
                        // the token went (back) into the cache; a previously cached different one was dropped
                        if let Some(old) = had {
                            if old != v {
                                r.sh.remove(false, old);
                            }
                        }
                        cached_r = Some(v);
                    }
                }
            }
            Op::WithWriter => {
                if via_tm {
                    let had = cached_w;
                    let sh = r.sh.clone();
                    let lvl = r.level;
                    let res = with_writer_token(&r.tm, |t| {
                        if had != Some(t.version()) {
                            sh.add(me, true, t.version());
                        }
                        if lvl == ConcurrencyLevel::OneWriteMultiRead {
                            let n = sh.live.lock().unwrap().iter().filter(|l| l.writer).count();
                            if n > 1 {
                                sh.v("writer_exclusion", "two_live_writers", format!("{n} writer tokens live at once inside with_writer_token (thread {me})"));
                            }
                        }
                        Ok(t.version())
                    });
                    if let Ok(v) = res {
                        if let Some(old) = had {
                            if old != v {
                                r.sh.remove(true, old);
                            }
                        }
                        cached_w = Some(v);
                    }
                }
            }
            Op::Retire => {
                let age = r.vm.current_version();
                let mv = r.vm.min_version();
                let mut fl = r.sh.free_list.lock().unwrap();
                let list = fl.get_or_insert_with(LazyFreeList::new);
                list.push(LazyFreeItem::new(age, 0, 8));
                let live: Vec<Live> = r.sh.live.lock().unwrap().clone();
                let mut freed_now = vec![];
                list.process_safe_items(mv, |it| freed_now.push(it.age));
                for a in freed_now {
                    if let Some(l) = live.iter().find(|l| a >= l.version) {
                        r.sh.v(
                            "reclaim",
                            "item_freed_while_visible",
                            format!("item retired at version {a} handed to the free callback while a token of version {} (thread {}) is live; min_version()={mv}", l.version, l.thread),
                        );
                    }
                    r.sh.freed.lock().unwrap().push(a);
                }
            }
        }
    }
    // epilogue (still scheduled): release everything this thread holds or cached
    sched::op_boundary();
    for t in held.drain(..) {
        r.sh.remove(t.is_w(), t.version());
        drop(t);
    }
    if via_tm {
        if let Some(v) = cached_r.take() {
            r.sh.remove(false, v);
        }
        if let Some(v) = cached_w.take() {
            r.sh.remove(true, v);
        }
        r.tm.clear_thread_cache();
    }
}

struct OneRun {
    res: sched::RunResult,
    viol: Vec<(String, String, String)>,
}

fn run_once(level: ConcurrencyLevel, via_tm: bool, threads: &[Vec<Op>], schedule: Schedule) -> OneRun {
    run_once_with(level, via_tm, threads, Some(schedule), 1)
}

/// `schedule == None`: free-running OS threads, each program repeated `loops` times
fn run_once_with(level: ConcurrencyLevel, via_tm: bool, threads: &[Vec<Op>], schedule: Option<Schedule>, loops: usize) -> OneRun {
    let tm = Arc::new(TokenManager::new(level));
    let vm = tm.version_manager().clone();
    let sh = Arc::new(Shared::default());
    let run = Arc::new(Run { vm: vm.clone(), tm: tm.clone(), sh: sh.clone(), level });
    let progs: Vec<Box<dyn FnOnce() + Send>> = threads
        .iter()
        .enumerate()
        .map(|(i, ops)| {
            let r = run.clone();
            let ops: Vec<Op> = (0..loops).flat_map(|_| ops.iter().copied()).collect();
            Box::new(move || thread_body(r, i, ops, via_tm)) as Box<dyn FnOnce() + Send>
        })
        .collect();
    let mon_run = run.clone();
    let monitor: Arc<dyn Fn(usize, u32) + Send + Sync> = Arc::new(move |_t, _site| check_min_version(&mon_run, "at yield point"));
    let res = match schedule {
        Some(schedule) => sched::run(progs, schedule, Some(monitor), 4000),
        None => {
            sched::run_free(progs);
            sched::RunResult::default()
        }
    };
    // quiescence: everything was released by the epilogues
    if !res.aborted {
        let (ar, aw) = (vm.active_readers(), vm.active_writers());
        if ar != 0 || aw != 0 {
            sh.v("counters", "not_zero_at_quiescence", format!("active_readers()={ar} active_writers()={aw} after every token was released"));
        }
        if let Ok(st) = vm.stats() {
            if st.active_readers() != 0 || st.active_writers() != 0 {
                sh.v("counters", "stats_not_balanced", format!("stats: acquired-released readers={} writers={}", st.active_readers(), st.active_writers()));
            }
        }
        let live_left = sh.live.lock().unwrap().len();
        if live_left != 0 {
            sh.v("harness", "model_leak", format!("harness bookkeeping error: {live_left} tokens still in the model"));
        }
    }
    let viol = sh.viol.lock().unwrap().clone();
    OneRun { res, viol }
}

fn effective_key(threads: &[Vec<Op>], level: u8, via_tm: bool, r: &sched::RunResult) -> u64 {
    let s = format!("{:?}|{}|{}|{:?}", threads, level, via_tm, r.switches);
    fnv(s.as_bytes())
}

fn nontrivial_run(r: &sched::RunResult) -> bool {
    r.switches.iter().any(|s| s.site != sched::SITE_OP)
}

fn run_sched(ctx: &mut Ctx, level: u8, via_tm: bool, threads: Vec<Vec<Op>>, schedule: Sch) {
    let lvl = level_of(level);
    match schedule {
        Sch::Gen(s) => {
            let one = run_once(lvl, via_tm, &threads, s);
            if one.res.aborted {
                ctx.skip("scheduler step limit");
                return;
            }
            ctx.out.checks += one.res.trace.len() as u64;
            ctx.out.key = Some(effective_key(&threads, level, via_tm, &one.res));
            if nontrivial_run(&one.res) {
                ctx.nontrivial();
            }
            ctx.label(format!("switches_{}", one.res.switches.len().min(6)));
            for s in &one.res.switches {
                ctx.label(format!("switch_at_site_{}", s.site));
            }
            for (a, c, d) in one.viol {
                ctx.fail(&a, "mismatch", &c, d);
            }
        }
        Sch::Free { reps, loops } => {
            ctx.label("free_running_os_threads");
            ctx.out.key = Some(fnv(format!("free|{:?}|{}|{}", threads, level, via_tm).as_bytes()));
            if threads.iter().filter(|t| t.iter().any(|o| matches!(o, Op::AcqW | Op::WithWriter))).count() >= 2 {
                ctx.nontrivial();
            }
            for _ in 0..reps {
                let one = run_once_with(lvl, via_tm, &threads, None, loops as usize);
                ctx.out.extra_evals += 1;
                ctx.out.checks += loops as u64 * threads.iter().map(|t| t.len() as u64).sum::<u64>();
                if !one.viol.is_empty() {
                    for (a, c, d) in one.viol {
                        ctx.fail(&a, "mismatch", &c, format!("unscheduled OS threads: {d}"));
                    }
                    break;
                }
            }
        }
        Sch::Exhaustive(k) => {
            let dry = run_once(lvl, via_tm, &threads, Schedule::Forced(vec![]));
            let n = dry.res.trace.len();
            let all = sched::enumerate_forced(n, threads.len(), k as usize, if ctx.tier == Tier::Quick { 4000 } else { 200_000 });
            ctx.label(format!("exhaustive_k{k}"));
            let mut keys = std::collections::HashSet::new();
            for s in all {
                let sdesc = format!("{:?}", s);
                let one = run_once(lvl, via_tm, &threads, s);
                ctx.out.extra_evals += 1;
                ctx.out.checks += one.res.trace.len() as u64;
                if nontrivial_run(&one.res) {
                    ctx.nontrivial();
                    if keys.len() < 20_000 {
                        keys.insert(effective_key(&threads, level, via_tm, &one.res));
                    }
                }
                for (a, c, d) in one.viol {
                    ctx.fail(&a, "mismatch", &c, format!("schedule {sdesc}: {d}"));
                }
            }
            ctx.out.extra_keys = keys.into_iter().collect();
        }
    }
}

// ---------------------------------------------------------------------------------------
// Part B
// ---------------------------------------------------------------------------------------

fn run_hist(ctx: &mut Ctx, ops: Vec<HOp>, allow_drop_mgr: bool) {
    let physical_drop = allow_drop_mgr && ctx.flavour == 'B';
    // run on a fresh thread so the thread-local token cache starts empty and ends with the case
    let out: Arc<Mutex<Vec<(String, String, String)>>> = Arc::new(Mutex::new(vec![]));
    let flags: Arc<Mutex<(bool, bool)>> = Arc::new(Mutex::new((false, false))); // (dropped mgr with live/cached token, cross-manager return)
    let (o2, f2) = (out.clone(), flags.clone());
    let h = std::thread::spawn(move || {
        let r = try_call(|| {
            let mut mgrs: Vec<Option<TokenManager>> = vec![];
            let mut logically_dropped: Vec<bool> = vec![];
            // (token, issuing manager as the harness believes)
            let mut toks: Vec<(Tok, usize)> = vec![];
            let mut cached: Vec<usize> = vec![]; // issuing managers of tokens currently in the thread cache
            let fail = |a: &str, c: &str, d: String| {
                let mut g = o2.lock().unwrap();
                if !g.iter().any(|x| x.0 == a && x.1 == c) {
                    g.push((a.into(), c.into(), d));
                }
            };
            let alive = |mgrs: &Vec<Option<TokenManager>>, ld: &Vec<bool>| -> Vec<usize> { (0..mgrs.len()).filter(|&i| mgrs[i].is_some() && !ld[i]).collect() };
            for op in ops {
                match op {
                    HOp::NewManager(l) => {
                        if mgrs.len() < 4 {
                            mgrs.push(Some(TokenManager::new(level_of(l))));
                            logically_dropped.push(false);
                        }
                    }
                    HOp::AcqR(m) | HOp::AcqW(m) => {
                        let a = alive(&mgrs, &logically_dropped);
                        if a.is_empty() {
                            continue;
                        }
                        let mi = a[idx(m, a.len())];
                        let mgr = mgrs[mi].as_ref().unwrap();
                        let is_w = matches!(op, HOp::AcqW(_));
                        let t = if is_w { mgr.acquire_writer_token().map(Tok::W) } else { mgr.acquire_reader_token().map(Tok::R) };
                        if let Ok(t) = t {
                            let (lvl, ver) = match &t {
                                Tok::R(t) => (t.concurrency_level(), t.version()),
                                Tok::W(t) => (t.concurrency_level(), t.version()),
                            };
                            if lvl != mgr.concurrency_level() {
                                fail("token_identity", "level_of_other_manager", format!("manager with level {:?} handed out a token of level {:?}", mgr.concurrency_level(), lvl));
                            }
                            let cur = mgr.version_manager().current_version();
                            if ver > cur {
                                fail("token_identity", "version_beyond_manager", format!("token version {ver} > issuing manager's current_version() {cur}"));
                            }
                            // whichever manager it really came from, the harness now treats it as mi's
                            toks.push((t, mi));
                        }
                    }
                    HOp::Return(t) => {
                        if toks.is_empty() {
                            continue;
                        }
                        let (tok, issuer) = toks.remove(idx(t, toks.len()));
                        // return through the issuing manager if it is still usable, else through any
                        let a = alive(&mgrs, &logically_dropped);
                        if a.is_empty() {
                            toks.push((tok, issuer));
                            continue;
                        }
                        let via = if a.contains(&issuer) { issuer } else { a[0] };
                        if via != issuer {
                            f2.lock().unwrap().1 = true;
                        }
                        let mgr = mgrs[via].as_ref().unwrap();
                        match tok {
                            Tok::R(t) => mgr.return_reader_token(t),
                            Tok::W(t) => mgr.return_writer_token(t),
                        }
                        cached.push(issuer);
                    }
                    HOp::DropToken(t) => {
                        if !toks.is_empty() {
                            let (tok, _) = toks.remove(idx(t, toks.len()));
                            drop(tok);
                        }
                    }
                    HOp::DropManager(m) => {
                        let a = alive(&mgrs, &logically_dropped);
                        if a.is_empty() {
                            continue;
                        }
                        let mi = a[idx(m, a.len())];
                        let has_live = toks.iter().any(|(_, i)| *i == mi) || cached.contains(&mi);
                        if has_live {
                            f2.lock().unwrap().0 = true;
                        }
                        if physical_drop || !has_live {
                            mgrs[mi] = None;
                        }
                        logically_dropped[mi] = true;
                    }
                    HOp::ClearCache => {
                        let a = alive(&mgrs, &logically_dropped);
                        if let Some(&mi) = a.first() {
                            mgrs[mi].as_ref().unwrap().clear_thread_cache();
                            cached.clear();
                        }
                    }
                }
            }
            // epilogue: tokens first, then the cache, then the managers
            toks.clear();
            let tmp = TokenManager::new(ConcurrencyLevel::SingleThreadStrict);
            tmp.clear_thread_cache();
            // all counters must be back to zero on every manager still allocated
            for (i, m) in mgrs.iter().enumerate() {
                if let Some(m) = m {
                    let vm = m.version_manager();
                    if vm.active_readers() != 0 || vm.active_writers() != 0 {
                        fail("counters", "not_zero_at_quiescence", format!("manager {i}: active_readers()={} active_writers()={} after all tokens were released", vm.active_readers(), vm.active_writers()));
                    }
                }
            }
            drop(mgrs);
        });
        if let Err(p) = r {
            let mut g = o2.lock().unwrap();
            g.push(("history".into(), p.class(), format!("{}:{}: {}", p.file, p.line, p.msg)));
        }
    });
    let _ = h.join();
    let fl = *flags.lock().unwrap();
    if fl.0 {
        ctx.nontrivial();
        ctx.label(if physical_drop { "manager_dropped_with_live_token_physically" } else { "manager_dropped_with_live_token_logically" });
    }
    if fl.1 {
        ctx.label("token_returned_via_other_manager");
    }
    if !allow_drop_mgr {
        ctx.nontrivial();
    }
    for (a, c, d) in out.lock().unwrap().iter() {
        if c.starts_with("panic:") {
            ctx.fail(a, "panic", c, d.clone());
        } else {
            ctx.fail(a, "mismatch", c, d.clone());
        }
    }
}

// ---------------------------------------------------------------------------------------

const ENUM_PROGRAMS: &[(&[Op], &[Op])] = &[
    (&[Op::AcqW, Op::Drop(0)], &[Op::AcqW, Op::Drop(0)]),
    (&[Op::AcqR, Op::Drop(0)], &[Op::AcqR, Op::AcqR, Op::Retire]),
    (&[Op::AcqR, Op::Drop(0), Op::Retire], &[Op::AcqR, Op::AcqR]),
    (&[Op::AcqW, Op::Drop(0), Op::AcqR], &[Op::AcqR, Op::AcqW]),
    (&[Op::AcqR, Op::AcqW, Op::Drop(0)], &[Op::AcqW, Op::Retire, Op::Drop(0)]),
    (&[Op::AcqR, Op::Return(0), Op::AcqR], &[Op::AcqW, Op::Return(0), Op::AcqW]),
    (&[Op::WithWriter, Op::AcqW], &[Op::WithWriter, Op::ClearCache]),
    (&[Op::WithReader, Op::Retire], &[Op::AcqR, Op::Drop(0), Op::Retire]),
];

impl Prop for P {
    fn id(&self) -> &'static str {
        "C16"
    }
    fn rule(&self) -> &'static str {
        "Part A: 2-3 threads x 1-5 token ops (acquire reader/writer, drop, return-to-cache, clear cache, with_*_token, retire) against one manager, interleaved by a generated schedule consumed at the cfg(zipora_verif) yield points (random byte schedules + bounded-exhaustive <=2 forced switches for fixed programs); invariants checked at every yield point with all threads parked. Non-trivial = at least one context switch taken at a yield point inside a zipora token operation (not at an op boundary); distinct by hash of (programs, effective switch sequence). Part A': the same programs looped 60x on 2-8 real unscheduled OS threads, 6 fresh managers per case (race windows without a yield point; same oracle, thread-side checks only). Part C: sequential LazyFreeList histories (blocks with offsets and sizes, mostly adjacent in memory, ages in any order, runs longer than the bulk threshold, process_safe_items at generated thresholds): every freed byte range must consist of pending blocks older than the threshold, nothing freed twice, everything freed in the end. Part B: sequential multi-manager histories on a fresh thread; non-trivial = a manager dropped while one of its tokens is live or cached (physically only in the ASan flavour)."
    }
    fn assumptions(&self) -> Vec<String> {
        vec![
            "only sequentially consistent interleavings, pre-emption only at the instrumented points (hook H1)".into(),
            "single-thread concurrency levels are not driven from several threads (precondition)".into(),
            "a token in the per-thread cache counts as live (its release has not run)".into(),
            "flavour A never physically drops a manager that still has live/cached tokens (that would be executing known UB in the long-lived worker); flavour B (ASan) does".into(),
        ]
    }
    fn cpu_budget_s(&self) -> u64 {
        120
    }
    fn plans(&self, tier: Tier) -> Vec<Plan> {
        let q = |a, b| tier.pick(a, b);
        let mut v = vec![];
        for (lvl, name) in [(3u8, "OneWriteMultiRead"), (4u8, "MultiWriteMultiRead")] {
            v.push(Plan::new(&format!("vm_{name}"), q(12_000, 300_000), q(500, 8000), sched_case(lvl, false)));
            v.push(Plan::new(&format!("tm_{name}"), q(12_000, 300_000), q(500, 8000), sched_case(lvl, true)));
        }
        // the same programs looped on 2-8 real, unscheduled OS threads: race windows that contain
        // no yield point (e.g. between a lock release and a counter update)
        for (lvl, name) in [(3u8, "OneWriteMultiRead"), (4u8, "MultiWriteMultiRead")] {
            for via_tm in [false, true] {
                v.push(Plan::new(
                    &format!("{}_{name}_free", if via_tm { "tm" } else { "vm" }),
                    q(40, 1500),
                    q(4, 100),
                    proptest::collection::vec(proptest::collection::vec(op(via_tm), 2..=5), 2..=8)
                        .prop_map(move |threads| Case::Sched { level: lvl, via_tm, threads, schedule: Sch::Free { reps: 6, loops: 60 } }),
                ));
            }
        }
        // LazyFreeList on its own: queues longer than the bulk threshold, ages in any order
        v.push(Plan::new(
            "lazy_free_list",
            q(600, 20_000),
            q(60, 1000),
            (
                proptest::sample::select(vec![0usize, 1, 2, 3, 8, 32, 33]),
                proptest::collection::vec(
                    prop_oneof![
                        6 => (0u64..12).prop_map(LOp::Push),
                        1 => (0u64..12, 1u8..80).prop_map(|(a, n)| LOp::PushRun(a, n)),
                        3 => (0u64..14).prop_map(LOp::Process),
                    ],
                    1..60,
                ),
            )
                .prop_map(|(threshold, ops)| Case::Lazy { threshold, ops }),
        ));
        v.push(Plan::new(
            "tm_hist",
            q(3000, 60_000),
            q(1500, 30_000),
            proptest::collection::vec(hop(), 1..24).prop_map(|ops| Case::Hist { ops, allow_drop_mgr: false }),
        ));
        v.push(Plan::new(
            "tm_hist_dropmgr",
            q(1500, 30_000),
            q(400, 6000),
            proptest::collection::vec(hop(), 1..24).prop_map(|ops| Case::Hist { ops, allow_drop_mgr: true }),
        ));
        v
    }
    fn enumerated(&self, tier: Tier) -> Vec<Value> {
        let mut out = vec![];
        let k = 2u8;
        for (lvl, name) in [(3u8, "OneWriteMultiRead"), (4u8, "MultiWriteMultiRead")] {
            for (pi, (a, b)) in ENUM_PROGRAMS.iter().enumerate() {
                let via_tm = a.iter().chain(b.iter()).any(|o| matches!(o, Op::Return(_) | Op::ClearCache | Op::WithReader | Op::WithWriter));
                if tier == Tier::Quick && pi >= 5 && !via_tm {
                    continue;
                }
                let c = Case::Sched { level: lvl, via_tm, threads: vec![a.to_vec(), b.to_vec()], schedule: Sch::Exhaustive(k) };
                let cell = format!("{}_{name}_exhaustive", if via_tm { "tm" } else { "vm" });
                out.push(serde_json::json!({"cell": cell, "c": serde_json::to_value(&c).unwrap()}));
            }
        }
        out
    }
    fn run(&self, case: &Value, ctx: &mut Ctx) {
        let c: Case = decode(case);
        match c {
            Case::Sched { level, via_tm, threads, schedule } => run_sched(ctx, level, via_tm, threads, schedule),
            Case::Lazy { threshold, ops } => run_lazy(ctx, threshold, &ops),
            Case::Hist { ops, allow_drop_mgr } => run_hist(ctx, ops, allow_drop_mgr),
        }
    }
}
