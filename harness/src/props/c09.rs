//! C09 — compressed integer vectors return every stored value unchanged.
//!
//! Oracle: the generated input sequence itself (a plain `Vec`).  For every container and every
//! construction path: construction yields a container or a reported error (`Err`; never a panic
//! for `Result`-returning constructors), `len` is preserved, element `i` read back equals input
//! element `i` for all `i`, and reads at/after the end are refused (`None` / `Err` / the
//! documented bounds panic of the `usize`-returning getters).
//!
//! Cells (one `Plan` each):
//!   `intvec_<T>_<ctor>`  T in u8..u64,i8..i64; ctor in from_slice / bulk / bulk_simd
//!   `uint_vector_{build_from,push,mixed}`
//!   `uvm0_{build_usize,build_u32,build_i32,new_set,push_back,history}`
//!   `zip_{build_usize,build_u32,new_set,push_back}`
//!   `suv_{default,performance,memory,corners}`

use crate::engine::{clip, decode, try_call, Ctx, Plan, Prop, Tier};
use crate::gen::{idx, u64_boundary, Xs};
use proptest::prelude::*;
use serde::{Deserialize, Serialize};
use serde_json::Value;
use zipora::blob_store::{SortedUintVecBuilder, SortedUintVecConfig};
use zipora::containers::{UintVecMin0, ZipIntVec};
use zipora::{IntVec, PackedInt, UintVector};

pub struct P;

// ---------------------------------------------------------------------------------------
// case description
// ---------------------------------------------------------------------------------------

#[derive(Clone, Copy, Debug, PartialEq, Eq, Serialize, Deserialize)]
pub enum Shape {
    /// every element = base
    Constant,
    /// base + prefix sums of gaps < 2^p (saturating at the type maximum); sometimes uniform gaps
    Sorted,
    /// base + r, r < k (k <= 2^16, from p)
    SmallRange,
    /// uniform bit patterns with MIN / MAX / 0 sprinkled in
    FullRange,
    /// base + r with r < 2^w, r = 0 and r = 2^w - 1 both present (range needs exactly w bits)
    ExactWidth,
    /// base + (i * m) % k  (k = 2 + p % 40): looks sorted when sampled with the wrong stride
    Periodic,
    /// small signed magnitudes on both sides of zero (for unsigned types: both ends of the range)
    NegPos,
}

const SHAPES: &[Shape] = &[Shape::Constant, Shape::Sorted, Shape::SmallRange, Shape::FullRange, Shape::ExactWidth, Shape::Periodic, Shape::NegPos];

/// A sequence of 64-bit patterns; each consumer truncates a pattern to its element type with `as`.
#[derive(Clone, Debug, Serialize, Deserialize)]
pub enum Seq {
    /// compact: expands deterministically; `outliers` (index selector, value) overwrite elements
    Gen { shape: Shape, len: usize, seed: u64, p: u8, base: u64, outliers: Vec<(u16, u64)> },
    /// fully explicit (shrinks element-wise)
    Explicit(Vec<u64>),
}

fn low_mask(bits: u32) -> u64 {
    if bits >= 64 {
        u64::MAX
    } else {
        (1u64 << bits) - 1
    }
}

impl Seq {
    /// Expand to `bits`-bit patterns (`bits` = width of the element type).
    fn materialize(&self, bits: u32) -> Vec<u64> {
        let m = low_mask(bits);
        match self {
            Seq::Explicit(v) => v.iter().map(|x| x & m).collect(),
            Seq::Gen { shape, len, seed, p, base, outliers } => {
                let n = *len;
                let mut r = Xs(seed | 1);
                let p = *p as u32;
                let base = *base & m;
                let mut out: Vec<u64> = Vec::with_capacity(n);
                match shape {
                    Shape::Constant => out.resize(n, base),
                    Shape::Sorted => {
                        let gb = p.min(bits).min(40);
                        let uniform = (seed >> 60) & 3 == 0;
                        let ug = r.below(low_mask(gb).wrapping_add(1).max(1));
                        let mut cur = base;
                        for i in 0..n {
                            if i > 0 {
                                let g = if uniform { ug } else { r.below(low_mask(gb).wrapping_add(1).max(1)) };
                                cur = if m - cur < g { m } else { cur + g };
                            }
                            out.push(cur);
                        }
                    }
                    Shape::SmallRange => {
                        let k = (2 + r.below(1u64 << (p % 17).min(bits))).min(m);
                        let b = base.min(m - (k - 1));
                        for _ in 0..n {
                            out.push(b + r.below(k));
                        }
                    }
                    Shape::FullRange => {
                        let specials = [0u64, m, m >> 1, (m >> 1) + 1, 1, m - 1];
                        for _ in 0..n {
                            let x = r.next();
                            if x & 15 == 0 {
                                out.push(specials[((x >> 8) % 6) as usize]);
                            } else {
                                out.push((x >> 3 ^ x << 29) & m);
                            }
                        }
                    }
                    Shape::ExactWidth => {
                        let w = 1 + p % bits;
                        let top = low_mask(w);
                        let b = base.min(m - top);
                        for _ in 0..n {
                            out.push(b + (r.next() & top));
                        }
                        if n >= 1 {
                            out[(seed % n as u64) as usize] = b + top;
                        }
                        if n >= 2 {
                            let i = (seed % n as u64) as usize;
                            out[(i + 1 + ((seed >> 20) % (n as u64 - 1)) as usize) % n] = b;
                        }
                    }
                    Shape::Periodic => {
                        let k = (2 + (p % 40) as u64).min(m);
                        let mul = [1u64, 1, 3, 7][(seed & 3) as usize];
                        let b = base.min(m - (k - 1));
                        for i in 0..n {
                            out.push(b + (i as u64).wrapping_mul(mul) % k);
                        }
                    }
                    Shape::NegPos => {
                        let mb = p % bits.min(63);
                        for _ in 0..n {
                            let mag = r.below(low_mask(mb) + 1) as i64;
                            let x = if r.next() & 1 == 0 { mag } else { mag.wrapping_neg() };
                            out.push(x as u64 & m);
                        }
                    }
                }
                if n > 0 {
                    for (i, v) in outliers {
                        out[idx(*i, n)] = v & m;
                    }
                }
                out
            }
        }
    }
    fn shape_label(&self) -> String {
        match self {
            Seq::Gen { shape, outliers, .. } => format!("shape={:?}{}", shape, if outliers.is_empty() { "" } else { "+outliers" }),
            Seq::Explicit(_) => "shape=Explicit".into(),
        }
    }
}

/// Sorted u64 sequence for `SortedUintVec`, positioned relative to the configured widths.
#[derive(Clone, Debug, Serialize, Deserialize)]
pub enum SuvSeq {
    /// base_kind: 0 small, 1 just below 2^sample_width, 2 just above, 3 arbitrary below 2^sample_width, 4 near u64::MAX;
    /// gaps < 2^(offset_width - log2_block - 8 + gap_rel); jumps add 2^bits at selected indices
    Gen { len: usize, seed: u64, base_kind: u8, base_off: u64, gap_rel: u8, jumps: Vec<(u16, u8)> },
    /// explicit values (sorted by the harness before use)
    Explicit(Vec<u64>),
}

#[derive(Clone, Debug, Serialize, Deserialize)]
pub enum Op {
    Push(u64),
    Set(u16, u64),
    Resize(u16),
    Shrink,
    Check,
}

#[derive(Clone, Debug, Serialize, Deserialize)]
pub enum Case {
    /// ty: 0..8 = u8,u16,u32,u64,i8,i16,i32,i64; ctor: 0 from_slice, 1 bulk, 2 bulk_simd
    IntVec { ty: u8, ctor: u8, seq: Seq },
    /// mode: 0 build_from, 1 push, 2 build_from(prefix) + push(rest)
    UintVector { mode: u8, split: u16, seq: Seq },
    /// mode: 0 build_from_usize, 1 build_from_u32, 2 build_from_i32, 3 new+set, 4 push_back
    /// cap: values are truncated to `cap` bits (keeps most cases inside the readable <= 58-bit range)
    Uvm0 { mode: u8, flag: bool, #[serde(default = "cap64")] cap: u8, seq: Seq },
    /// starts from `init` pseudo-random values (seeded) pushed one by one, then applies `ops`
    Uvm0History { maxbits: u8, init: u16, seed: u64, ops: Vec<Op> },
    /// mode: 0 build_from_usize, 1 build_from_u32, 2 new+set, 3 push_back
    Zip { mode: u8, flag: bool, #[serde(default = "cap64")] cap: u8, seq: Seq },
    /// cfg = (log2_block_units, offset_width, sample_width, use_simd)
    Suv { cfg: (u8, u8, u8, bool), seq: SuvSeq },
}

fn cap64() -> u8 {
    64
}

// ---------------------------------------------------------------------------------------
// generators
// ---------------------------------------------------------------------------------------

fn len_strategy(max: usize, big_lo: usize) -> BoxedStrategy<usize> {
    let mut pts: Vec<usize> = vec![];
    for b in [16usize, 32, 64, 128, 192, 256, 512, 1000, 1024, 2048] {
        for d in [-1i64, 0, 1] {
            let v = b as i64 + d;
            if v as usize <= max {
                pts.push(v as usize);
            }
        }
    }
    prop_oneof![
        3 => 0usize..=8,
        4 => proptest::sample::select(pts),
        3 => 0usize..=max,
        3 => 0usize..=max.min(300),
        1 => big_lo..=big_lo + 150,
    ]
    .boxed()
}

fn base_strategy() -> BoxedStrategy<u64> {
    prop_oneof![
        3 => Just(0u64),
        2 => 0u64..2000,
        3 => (0u64..3000).prop_map(|d| u64::MAX - d),
        2 => u64_boundary(),
        2 => any::<u64>(),
    ]
    .boxed()
}

fn outlier_strategy() -> BoxedStrategy<Vec<(u16, u64)>> {
    let pos = prop_oneof![3 => any::<u16>(), 1 => Just(u16::MAX), 1 => Just(0u16)];
    let val = prop_oneof![3 => u64_boundary(), 1 => any::<u64>(), 1 => (0u64..64).prop_map(|d| u64::MAX - d), 1 => 0u64..64];
    prop_oneof![
        5 => Just(vec![]),
        4 => proptest::collection::vec((pos, val), 1..4),
    ]
    .boxed()
}

fn seq_strategy(max_len: usize, big_lo: usize, explicit_max: usize) -> BoxedStrategy<Seq> {
    let gen = (proptest::sample::select(SHAPES.to_vec()), len_strategy(max_len, big_lo), any::<u64>(), 0u8..=64, base_strategy(), outlier_strategy())
        .prop_map(|(shape, len, seed, p, base, outliers)| Seq::Gen { shape, len, seed, p, base, outliers });
    let elen = prop_oneof![3 => 0usize..=10, 2 => 60usize..=70, 2 => 120usize..=135, 2 => 0usize..=explicit_max];
    let explicit = (0u8..5, elen).prop_flat_map(|(kind, n)| {
        let el: BoxedStrategy<u64> = match kind {
            0 => (0u64..20).boxed(),
            1 => u64_boundary(),
            2 => (0u64..20).prop_map(|d| u64::MAX - d).boxed(),
            3 => prop_oneof![4 => 0u64..300, 1 => u64_boundary()].boxed(),
            _ => prop_oneof![1 => 0u64..5, 1 => (0u64..5).prop_map(|d| u64::MAX - d), 1 => any::<u64>()].boxed(),
        };
        proptest::collection::vec(el, n).prop_map(Seq::Explicit)
    });
    prop_oneof![7 => gen, 3 => explicit].boxed()
}

fn suv_seq_strategy(max_len: usize) -> BoxedStrategy<SuvSeq> {
    let jumps = prop_oneof![
        3 => Just(vec![]),
        2 => proptest::collection::vec((any::<u16>(), 0u8..64), 1..4),
    ];
    let base_kind = prop_oneof![5 => Just(0u8), 2 => Just(1u8), 1 => Just(2u8), 3 => Just(3u8), 1 => Just(4u8)];
    let gap_rel = prop_oneof![6 => 0u8..=8, 1 => 9u8..=12];
    let gen = (len_strategy(max_len, max_len), any::<u64>(), base_kind, prop_oneof![0u64..5000, any::<u64>()], gap_rel, jumps)
        .prop_map(|(len, seed, base_kind, base_off, gap_rel, jumps)| SuvSeq::Gen { len, seed, base_kind, base_off, gap_rel, jumps });
    let explicit = (prop_oneof![0usize..=6, 14usize..=40, 60usize..=140]).prop_flat_map(|n| {
        proptest::collection::vec(prop_oneof![3 => 0u64..100_000, 1 => u64_boundary(), 1 => (0u64..70_000).prop_map(|d| (1u64 << 32) - 35_000 + d)], n).prop_map(SuvSeq::Explicit)
    });
    prop_oneof![4 => gen, 1 => explicit].boxed()
}

fn cap_strategy() -> BoxedStrategy<u8> {
    prop_oneof![3 => Just(64u8), 2 => Just(58u8), 1 => Just(57u8), 3 => 1u8..=58, 1 => 59u8..=63].boxed()
}

fn op_strategy() -> BoxedStrategy<Op> {
    prop_oneof![
        6 => any::<u64>().prop_map(Op::Push),
        4 => (any::<u16>(), any::<u64>()).prop_map(|(i, v)| Op::Set(i, v)),
        2 => any::<u16>().prop_map(Op::Resize),
        1 => Just(Op::Shrink),
        1 => Just(Op::Check),
    ]
    .boxed()
}

// ---------------------------------------------------------------------------------------
// element types
// ---------------------------------------------------------------------------------------

trait El: PackedInt + Copy + PartialEq + std::fmt::Debug {
    const BITS: u32;
    fn from_bits(v: u64) -> Self;
    /// 64-bit image (sign-extended for signed types) — used only to *classify* inputs
    fn image(self) -> u64;
    fn tmin() -> Self;
    fn tmax() -> Self;
}
macro_rules! impl_el {
    ($t:ty, $signed:expr) => {
        impl El for $t {
            const BITS: u32 = <$t>::BITS;
            fn from_bits(v: u64) -> Self {
                v as $t
            }
            fn image(self) -> u64 {
                self as u64
            }
            fn tmin() -> Self {
                <$t>::MIN
            }
            fn tmax() -> Self {
                <$t>::MAX
            }
        }
    };
}
impl_el!(u8, false);
impl_el!(u16, false);
impl_el!(u32, false);
impl_el!(u64, false);
impl_el!(i8, true);
impl_el!(i16, true);
impl_el!(i32, true);
impl_el!(i64, true);

const TYPES: &[&str] = &["u8", "u16", "u32", "u64", "i8", "i16", "i32", "i64"];
const TYPE_SIZE: &[usize] = &[1, 2, 4, 8, 1, 2, 4, 8];
const CTORS: &[&str] = &["from_slice", "bulk", "bulk_simd"];

// ---------------------------------------------------------------------------------------
// classification helpers (deterministic functions of the input only)
// ---------------------------------------------------------------------------------------

fn width_of(x: u64) -> u32 {
    64 - x.leading_zeros()
}

fn n_label(n: usize) -> &'static str {
    match n {
        0 => "n=0",
        1..=3 => "n=1-3",
        4..=64 => "n=4-64",
        65..=1000 => "n=65-1000",
        1001..=2048 => "n=1001-2048",
        2049..=10000 => "n=2049-10000",
        _ => "n>10000",
    }
}

fn block_label(n: usize) -> &'static str {
    if n == 0 {
        "blk=empty"
    } else if n % 64 == 0 {
        "blk=k*64"
    } else if n % 64 == 1 {
        "blk=k*64+1"
    } else if n % 64 == 63 {
        "blk=k*64-1"
    } else {
        "blk=other"
    }
}

fn width_label(w: u32) -> &'static str {
    match w {
        0 => "range_w=0",
        1..=8 => "range_w=1-8",
        9..=16 => "range_w=9-16",
        17..=32 => "range_w=17-32",
        33..=57 => "range_w=33-57",
        58..=63 => "range_w=58-63",
        _ => "range_w=64",
    }
}

/// Input class of an IntVec case, over the 64-bit images of the elements:
/// `<size class>,ord=<asc|sampled_asc|none>,<w<=16 | w>16:17-60 | w>16:unaligned59-63 | w>16:64>,<min0|min>0>`
/// (w = bits needed by max-min), plus `,blk_unaligned59-63` on the `large` path when the widest
/// span inside a 128-element block needs 59/61/62/63 bits
/// size classes: `n<4`; `small:n<=1000`; `small:n>1000` (<= 10 000 elements or <= 16 KiB of input,
/// the range the `from_slice` doc calls "small datasets"); `large`; and `simd65-2048` for the
/// `from_slice_bulk_simd` constructor inside the size window where it does not delegate to
/// `from_slice`.  `sampled_asc` = not ascending, but ascending when only every max(n/16,1)-th
/// element is looked at.
fn intvec_class(images: &[u64], elem_size: usize, ctor: u8) -> String {
    let n = images.len();
    let size = if n < 4 {
        "n<4"
    } else if ctor == 2 && (65..=2048).contains(&n) {
        "simd65-2048"
    } else if n <= 1000 {
        "small:n<=1000"
    } else if n <= 10000 || (n * elem_size) / 1024 <= 16 {
        "small:n>1000"
    } else {
        "large"
    };
    let asc = images.windows(2).all(|w| w[0] <= w[1]);
    let step = (n / 16).max(1);
    let sampled = {
        let mut ok = true;
        let mut prev = images.first().copied().unwrap_or(0);
        let mut i = step;
        while i < n {
            if images[i] < prev {
                ok = false;
                break;
            }
            prev = images[i];
            i += step;
        }
        ok
    };
    let ord = if asc {
        "asc"
    } else if sampled {
        "sampled_asc"
    } else {
        "none"
    };
    let (mn, mx) = (images.iter().min().copied().unwrap_or(0), images.iter().max().copied().unwrap_or(0));
    // 59, 61, 62, 63: the field widths w for which (k*w mod 8) + w can exceed 64
    let w = match width_of(mx - mn) {
        0..=16 => "w<=16",
        59 | 61 | 62 | 63 => "w>16:unaligned59-63",
        17..=60 => "w>16:17-60",
        _ => "w>16:64",
    };
    // full-analysis path only: the widest in-block span over 128-element blocks (the unit of
    // the block-based strategy there) can be one of the unaligned widths even when max-min is not
    let blk = if size == "large" {
        let bw = images.chunks(128).map(|c| width_of(c.iter().max().unwrap() - c.iter().min().unwrap())).max().unwrap_or(0);
        if matches!(bw, 59 | 61 | 62 | 63) {
            ",blk_unaligned59-63"
        } else {
            ""
        }
    } else {
        ""
    };
    format!("{size},ord={ord},{w},{}{blk}", if mn == 0 { "min0" } else { "min>0" })
}

/// Indices to verify: everything up to 3000 elements, otherwise both ends plus a stride.
fn probe_indices(n: usize) -> Vec<usize> {
    if n <= 3000 {
        return (0..n).collect();
    }
    let mut v: Vec<usize> = (0..200).collect();
    let stride = (n / 600).max(1);
    let mut i = 200;
    while i < n - 200 {
        v.push(i);
        // also the element after every block boundary
        i += stride;
    }
    for b in (0..n).step_by(64) {
        if b > 200 && b + 1 < n - 200 && b % 1024 < 128 {
            v.push(b - 1);
            v.push(b);
        }
    }
    v.extend(n - 200..n);
    v.sort_unstable();
    v.dedup();
    v
}

fn common_labels(ctx: &mut Ctx, seq_label: String, n: usize, distinct: usize, range_w: u32) {
    ctx.label(seq_label);
    ctx.label(n_label(n));
    ctx.label(block_label(n));
    ctx.label(width_label(range_w));
    if n >= 65 && distinct >= 2 {
        ctx.nontrivial();
    }
}

fn distinct_count(v: &[u64]) -> usize {
    let mut s = v.to_vec();
    s.sort_unstable();
    s.dedup();
    s.len()
}

/// Summarise positional mismatches into one discrepancy.
struct Diff {
    bad: usize,
    first: Option<(usize, String, String)>,
}
impl Diff {
    fn new() -> Diff {
        Diff { bad: 0, first: None }
    }
    fn cmp<T: PartialEq + std::fmt::Debug>(&mut self, i: usize, got: &T, want: &T) {
        if got != want {
            self.bad += 1;
            if self.first.is_none() {
                self.first = Some((i, format!("{:?}", got), format!("{:?}", want)));
            }
        }
    }
    fn report(self, ctx: &mut Ctx, aspect: &str, class: &str, checked: usize, n: usize) {
        ctx.out.checks += checked as u64;
        if let Some((i, g, w)) = self.first {
            ctx.fail(aspect, "mismatch", class, format!("{} of {} checked indices differ (n={}); first at index {}: got {} want {}", self.bad, checked, n, i, clip(&g, 120), clip(&w, 120)));
        }
    }
}

// ---------------------------------------------------------------------------------------
// IntVec<T>
// ---------------------------------------------------------------------------------------

fn run_intvec<T: El>(ctx: &mut Ctx, ctor: u8, seq: &Seq) {
    let pats = seq.materialize(T::BITS);
    let vals: Vec<T> = pats.iter().map(|p| T::from_bits(*p)).collect();
    let images: Vec<u64> = vals.iter().map(|v| v.image()).collect();
    let n = vals.len();
    let (mn, mx) = (images.iter().min().copied().unwrap_or(0), images.iter().max().copied().unwrap_or(0));
    common_labels(ctx, seq.shape_label(), n, distinct_count(&pats), width_of(mx - mn));
    let cls = intvec_class(&images, std::mem::size_of::<T>(), ctor);
    if vals.iter().any(|v| *v == T::tmin()) && vals.iter().any(|v| *v == T::tmax()) {
        ctx.label("has_MIN_and_MAX");
    }
    ctx.label(format!("ord={}", cls.split(',').nth(1).unwrap_or("?").trim_start_matches("ord=")));

    // PackedInt helpers (definitional)
    for v in vals.iter().take(4) {
        ctx.eq("packed_int", "u64_roundtrip", &T::from_u64(v.to_u64()), v);
        ctx.eq("packed_int", "i64_roundtrip", &T::from_i64(v.to_i64()), v);
    }
    ctx.eq("packed_int", "bit_width", &(T::bit_width() as u32), &T::BITS);
    ctx.eq("packed_int", "max_value", &<T as PackedInt>::max_value(), &T::tmax());
    ctx.eq("packed_int", "min_value", &<T as PackedInt>::min_value(), &T::tmin());

    let built = try_call(|| match ctor {
        0 => IntVec::<T>::from_slice(&vals),
        1 => IntVec::<T>::from_slice_bulk(&vals),
        _ => IntVec::<T>::from_slice_bulk_simd(&vals),
    });
    let v = match built {
        Err(p) => {
            ctx.fail("build", "panic", &format!("{cls};{}", p.class()), format!("{}:{}: {}", p.file, p.line, clip(&p.msg, 200)));
            return;
        }
        Ok(Err(e)) => {
            ctx.label("build_refused");
            let _ = e;
            return;
        }
        Ok(Ok(v)) => v,
    };
    // which strategy did the library choose?  stats() returns an unnameable private type, so the
    // only observable is the stored byte count (memory_usage minus the struct itself)
    let stored = v.memory_usage().saturating_sub(std::mem::size_of::<IntVec<T>>());
    let strat = if n == 0 {
        "empty"
    } else if stored == 16 && n > 2 {
        "16B(uniform_delta_or_tiny)"
    } else if stored == n * 8 {
        "8n(raw_or_64bit)"
    } else if stored % 16 == 8 {
        "8+16k(delta)"
    } else {
        "16k(packed_minmax_or_block)"
    };
    ctx.label(format!("strategy~{strat}"));

    ctx.eq("len", "", &v.len(), &n);
    ctx.eq("len", "is_empty", &v.is_empty(), &(n == 0));

    let probes = probe_indices(n);
    let read = try_call(|| {
        let mut d = Diff::new();
        for &i in &probes {
            d.cmp(i, &v.get(i), &Some(vals[i]));
        }
        d
    });
    match read {
        Ok(d) => d.report(ctx, "get", &cls, probes.len(), n),
        Err(p) => ctx.fail("get", "panic", &format!("{cls};{}", p.class()), format!("{}:{}: {}", p.file, p.line, clip(&p.msg, 200))),
    }
    // reads past the end are refused
    for d in [0usize, 1, 63, 64, 1 << 20, usize::MAX - n] {
        let i = n.saturating_add(d);
        match try_call(|| v.get(i)) {
            Ok(r) => {
                ctx.ensure("get_oob", "", r.is_none(), || format!("get({i}) on a vector of {n} returned {:?}", r));
            }
            Err(p) => ctx.fail("get_oob", "panic", &p.class(), format!("get({i}) with n={n}: {}", clip(&p.msg, 200))),
        }
    }
}

// ---------------------------------------------------------------------------------------
// UintVector
// ---------------------------------------------------------------------------------------

fn check_uint_vector(ctx: &mut Ctx, v: &UintVector, want: &[u32], class: &str, full: bool) {
    let n = want.len();
    ctx.eq("len", class, &v.len(), &n);
    let probes: Vec<usize> = if full || n <= 8 { (0..n).collect() } else { vec![0, n / 2, n - 2, n - 1] };
    let read = try_call(|| {
        let mut d = Diff::new();
        for &i in &probes {
            d.cmp(i, &v.get(i), &Some(want[i]));
        }
        d
    });
    match read {
        Ok(d) => d.report(ctx, "get", class, probes.len(), n),
        Err(p) => ctx.fail("get", "panic", &p.class(), format!("{}:{}: {}", p.file, p.line, clip(&p.msg, 200))),
    }
    for d in [0usize, 1, 64, usize::MAX - n] {
        let i = n.saturating_add(d);
        match try_call(|| v.get(i)) {
            Ok(r) => {
                ctx.ensure("get_oob", class, r.is_none(), || format!("get({i}) on a vector of {n} returned {:?}", r));
            }
            Err(p) => ctx.fail("get_oob", "panic", &p.class(), format!("get({i}) with n={n}: {}", clip(&p.msg, 200))),
        }
    }
}

fn run_uint_vector(ctx: &mut Ctx, mode: u8, split: u16, seq: &Seq) {
    let pats = seq.materialize(32);
    let vals: Vec<u32> = pats.iter().map(|p| *p as u32).collect();
    let n = vals.len();
    let (mn, mx) = (vals.iter().min().copied().unwrap_or(0), vals.iter().max().copied().unwrap_or(0));
    common_labels(ctx, seq.shape_label(), n, distinct_count(&pats), width_of((mx - mn) as u64));
    let runs = vals.windows(2).filter(|w| w[0] == w[1]).count();
    ctx.label(if n >= 2 && runs * 2 > n { "runs>50%" } else { "runs<=50%" });
    let k = match mode {
        0 => n,
        1 => 0,
        _ => idx(split, n + 1),
    };
    let built = try_call(|| UintVector::build_from(&vals[..k]));
    let mut v = match built {
        Err(p) => {
            ctx.fail("build", "panic", &p.class(), format!("{}:{}: {}", p.file, p.line, clip(&p.msg, 200)));
            return;
        }
        Ok(Err(_)) => {
            ctx.label("build_refused");
            return;
        }
        Ok(Ok(v)) => v,
    };
    if mode == 2 {
        ctx.label(if k == 0 { "split=0" } else if k == n { "split=n" } else { "split=inner" });
    }
    for i in k..n {
        match try_call(|| v.push(vals[i])) {
            Ok(Ok(())) => {}
            Ok(Err(_)) => {
                ctx.label("push_refused");
                return;
            }
            Err(p) => {
                ctx.fail("push", "panic", &p.class(), format!("push #{i}: {}:{}: {}", p.file, p.line, clip(&p.msg, 200)));
                return;
            }
        }
        // intermediate states: around the recompression points and periodically
        let len = i + 1;
        let pushed = len - k;
        if pushed % 64 <= 1 || pushed % 64 == 63 || len % 97 == 0 {
            check_uint_vector(ctx, &v, &vals[..len], "during_push", false);
            if ctx.saturated() {
                return;
            }
        }
    }
    check_uint_vector(ctx, &v, &vals, if mode == 0 { "bulk" } else { "after_push" }, true);
}

// ---------------------------------------------------------------------------------------
// UintVecMin0 / ZipIntVec
// ---------------------------------------------------------------------------------------

/// Read-side checks shared by UintVecMin0 cells. `want[i] = None` means "content unspecified".
fn check_uvm0(ctx: &mut Ctx, v: &UintVecMin0, want: &[Option<usize>], class: &str) {
    let n = want.len();
    ctx.eq("len", class, &v.size(), &n);
    ctx.eq("len", "is_empty", &v.is_empty(), &(n == 0));
    if v.size() != n {
        return;
    }
    if v.uintbits() > 58 {
        // documented: get() panics for bits > 58 ("Use BigUintVecMin0"): reads are refused
        ctx.label("bits>58_reads_refused_by_contract");
        return;
    }
    let read = try_call(|| {
        let mut d = Diff::new();
        let mut d2 = Diff::new();
        let mut df = Diff::new();
        let (data, bits, mask) = (v.data(), v.uintbits(), v.uintmask());
        for i in 0..n {
            if let Some(w) = want[i] {
                d.cmp(i, &v.get(i), &w);
                df.cmp(i, &UintVecMin0::fast_get(data, bits, mask, i).ok(), &Some(w));
                if i + 1 < n {
                    if let Some(w2) = want[i + 1] {
                        d2.cmp(i, &v.get2(i), &[w, w2]);
                    }
                }
            }
        }
        (d, d2, df)
    });
    match read {
        Ok((d, d2, df)) => {
            d.report(ctx, "get", class, n, n);
            d2.report(ctx, "get2", class, n.saturating_sub(1), n);
            df.report(ctx, "fast_get", class, n, n);
        }
        Err(p) => ctx.fail("get", "panic", &p.class(), format!("{}:{}: {}", p.file, p.line, clip(&p.msg, 200))),
    }
    // documented contract of the usize-returning getters: bounds panic; no value may come back
    for i in [n, n.saturating_add(1), n.saturating_add(1000)] {
        let r = try_call(|| v.get(i));
        ctx.ensure("get_oob", class, r.is_err(), || format!("get({i}) on size {n} returned {:?}", r.as_ref().ok()));
    }
    if n >= 1 {
        let r = try_call(|| v.get2(n - 1));
        ctx.ensure("get2_oob", class, r.is_err(), || format!("get2({}) on size {n} returned {:?}", n - 1, r.as_ref().ok()));
    }
}

/// Input class for UintVecMin0 / ZipIntVec construction: bits needed by max-min; for ZipIntVec
/// (`zip`) additionally whether min + (2^bits - 1) exceeds usize::MAX.
fn span_class(mn: u64, mx: u64, zip: bool) -> String {
    let w = width_of(mx - mn);
    let wc = match w {
        0..=58 => "span_w<=58",
        59..=63 => "span_w59-63",
        _ => return "span_w64".into(),
    };
    let mask = low_mask(w);
    format!("{wc}{}", if zip && mn.checked_add(mask).is_none() { ",min+mask>MAX" } else { "" })
}

fn run_uvm0(ctx: &mut Ctx, mode: u8, flag: bool, cap: u8, seq: &Seq) {
    let bits = match mode {
        1 | 2 => 32,
        _ => 64,
    };
    let pats = seq.materialize(bits.min(cap.max(1) as u32));
    let n = pats.len();
    let (mn, mx) = (pats.iter().min().copied().unwrap_or(0), pats.iter().max().copied().unwrap_or(0));
    match mode {
        0 => {
            common_labels(ctx, seq.shape_label(), n, distinct_count(&pats), width_of(mx - mn));
            let cls = span_class(mn, mx, false);
            let src: Vec<usize> = pats.iter().map(|p| *p as usize).collect();
            match try_call(|| UintVecMin0::build_from_usize(&src)) {
                Ok((v, min)) => {
                    if n > 0 {
                        ctx.eq("build", "min_val", &min, &(mn as usize));
                    }
                    let want: Vec<Option<usize>> = src.iter().map(|x| Some(x.wrapping_sub(min))).collect();
                    check_uvm0(ctx, &v, &want, "");
                }
                Err(p) => ctx.fail("build", "panic", &format!("{cls};{}", p.class()), format!("{}:{}: {}", p.file, p.line, clip(&p.msg, 200))),
            }
        }
        1 => {
            common_labels(ctx, seq.shape_label(), n, distinct_count(&pats), width_of(mx - mn));
            let src: Vec<u32> = pats.iter().map(|p| *p as u32).collect();
            match try_call(|| UintVecMin0::build_from_u32(&src)) {
                Ok((v, min)) => {
                    if n > 0 {
                        ctx.eq("build", "min_val", &min, &(mn as u32));
                    }
                    let want: Vec<Option<usize>> = src.iter().map(|x| Some(x.wrapping_sub(min) as usize)).collect();
                    check_uvm0(ctx, &v, &want, "");
                }
                Err(p) => ctx.fail("build", "panic", &p.class(), format!("{}:{}: {}", p.file, p.line, clip(&p.msg, 200))),
            }
        }
        2 => {
            let src: Vec<i32> = pats.iter().map(|p| *p as u32 as i32).collect();
            let (smn, smx) = (src.iter().min().copied().unwrap_or(0), src.iter().max().copied().unwrap_or(0));
            let span = (smx as i64 - smn as i64) as u64;
            common_labels(ctx, seq.shape_label(), n, distinct_count(&pats), width_of(span));
            let cls = if span > i32::MAX as u64 { "i32_span>=2^31" } else { "i32_span<2^31" };
            ctx.label(cls);
            match try_call(|| UintVecMin0::build_from_i32(&src)) {
                Ok((v, min)) => {
                    if n > 0 {
                        ctx.eq("build", "min_val", &min, &smn);
                    }
                    let want: Vec<Option<usize>> = src.iter().map(|x| Some((*x as i64 - min as i64) as usize)).collect();
                    check_uvm0(ctx, &v, &want, cls);
                }
                Err(p) => ctx.fail("build", "panic", &format!("{cls};{}", p.class()), format!("{}:{}: {}", p.file, p.line, clip(&p.msg, 200))),
            }
        }
        3 => {
            // new(num, max) + set; flag: pre-fill every slot with max first (set must overwrite)
            common_labels(ctx, seq.shape_label(), n, distinct_count(&pats), width_of(mx));
            let cls = span_class(0, mx, false);
            let r = try_call(|| {
                let mut v = UintVecMin0::new(n, mx as usize);
                if flag {
                    for i in 0..n {
                        v.set(i, mx as usize);
                    }
                }
                // odd indices first, then even: neighbours are written after their successors
                for i in (1..n).step_by(2).chain((0..n).step_by(2)) {
                    v.set(i, pats[i] as usize);
                }
                v
            });
            ctx.label(if flag { "prefilled" } else { "fresh" });
            match r {
                Ok(v) => {
                    ctx.eq("build", "uintbits", &v.uintbits(), &(width_of(mx) as usize));
                    let want: Vec<Option<usize>> = pats.iter().map(|x| Some(*x as usize)).collect();
                    check_uvm0(ctx, &v, &want, if flag { "overwrite" } else { "" });
                }
                Err(p) => ctx.fail("build", "panic", &format!("{cls};{}", p.class()), format!("{}:{}: {}", p.file, p.line, clip(&p.msg, 200))),
            }
        }
        _ => {
            // push_back from empty (flag: from new(0, first value) instead of new_empty)
            common_labels(ctx, seq.shape_label(), n, distinct_count(&pats), width_of(mx));
            let mut v = if flag && n > 0 && width_of(pats[0]) <= 58 { UintVecMin0::new(0, pats[0] as usize) } else { UintVecMin0::new_empty() };
            let mut want: Vec<Option<usize>> = vec![];
            let mut widened = 0;
            for (i, p) in pats.iter().enumerate() {
                if width_of(*p) > 58 || v.uintbits() > 58 {
                    ctx.label("stopped_at_value_wider_than_58_bits");
                    break;
                }
                let before = v.uintbits();
                if let Err(pn) = try_call(|| v.push_back(*p as usize)) {
                    ctx.fail("push", "panic", &pn.class(), format!("push_back #{i}: {}:{}: {}", pn.file, pn.line, clip(&pn.msg, 200)));
                    return;
                }
                if v.uintbits() != before {
                    widened += 1;
                }
                want.push(Some(*p as usize));
                let len = i + 1;
                if v.uintbits() != before || len % 61 == 0 {
                    check_uvm0(ctx, &v, &want, "during_push");
                    if ctx.saturated() {
                        return;
                    }
                }
            }
            ctx.label(match widened {
                0 | 1 => "widened<=1x",
                2..=5 => "widened_2-5x",
                _ => "widened>5x",
            });
            check_uvm0(ctx, &v, &want, "after_push");
        }
    }
}

fn run_uvm0_history(ctx: &mut Ctx, maxbits: u8, init: u16, seed: u64, ops: &[Op]) {
    let mb = (maxbits as u32).clamp(1, 58);
    let vm = low_mask(mb);
    let mut v = UintVecMin0::new_empty();
    let mut model: Vec<Option<usize>> = vec![];
    {
        // initial content: widths grow gradually so the re-packing path runs several times
        let mut r = Xs(seed | 1);
        for i in 0..init as u32 {
            let w = (1 + i / 4).min(mb);
            let x = (r.next() & low_mask(w)) as usize;
            if let Err(p) = try_call(|| v.push_back(x)) {
                ctx.fail("history", "panic", &p.class(), format!("initial push_back #{i}: {}:{}: {}", p.file, p.line, clip(&p.msg, 200)));
                return;
            }
            model.push(Some(x));
        }
    }
    ctx.label(format!("maxbits={}", match mb { 1..=8 => "1-8", 9..=32 => "9-32", 33..=57 => "33-57", _ => "58" }));
    let mut kinds = [0usize; 5];
    for (k, op) in ops.iter().enumerate() {
        let r = match op {
            Op::Push(x) => {
                kinds[0] += 1;
                let x = (*x & vm) as usize;
                model.push(Some(x));
                try_call(|| v.push_back(x))
            }
            Op::Set(i, x) => {
                if model.is_empty() {
                    continue;
                }
                kinds[1] += 1;
                let i = idx(*i, model.len());
                // documented precondition of set(): value <= uintmask()
                let x = (*x & vm) as usize & v.uintmask();
                model[i] = Some(x);
                try_call(|| v.set(i, x))
            }
            Op::Resize(nn) => {
                kinds[2] += 1;
                // mostly small changes of size, sometimes a large cut
                let len = model.len();
                let nn = match nn % 8 {
                    0 => idx(*nn, len + 1),
                    1..=4 => len + (*nn as usize >> 3) % 9,
                    _ => len.saturating_sub((*nn as usize >> 3) % 9),
                };
                // growth exposes slots whose content the API does not specify
                model.resize(nn, None);
                try_call(|| v.resize(nn))
            }
            Op::Shrink => {
                kinds[3] += 1;
                try_call(|| v.shrink_to_fit())
            }
            Op::Check => {
                kinds[4] += 1;
                check_uvm0(ctx, &v, &model, "history");
                Ok(())
            }
        };
        if let Err(p) = r {
            ctx.fail("history", "panic", &p.class(), format!("op #{k} {:?}: {}:{}: {}", op, p.file, p.line, clip(&p.msg, 200)));
            return;
        }
        let sz = v.size();
        if !ctx.eq("len", "history", &sz, &model.len()) || ctx.saturated() {
            return;
        }
    }
    if kinds[2] > 0 {
        ctx.label("has_resize");
    }
    if kinds[3] > 0 {
        ctx.label("has_shrink");
    }
    if model.iter().filter(|x| x.is_some()).count() >= 65 {
        ctx.nontrivial();
    }
    ctx.label(n_label(model.len()));
    check_uvm0(ctx, &v, &model, "history");
}

fn check_zip(ctx: &mut Ctx, v: &ZipIntVec, want: &[usize], class: &str) {
    let n = want.len();
    ctx.eq("len", class, &v.size(), &n);
    if v.size() != n {
        return;
    }
    if v.uintbits() > 58 {
        ctx.label("bits>58_reads_refused_by_contract");
        return;
    }
    let read = try_call(|| {
        let mut d = Diff::new();
        let mut d2 = Diff::new();
        let mut df = Diff::new();
        let (data, bits, mask, mv) = (v.data(), v.uintbits(), v.uintmask(), v.min_val());
        for i in 0..n {
            d.cmp(i, &v.get(i), &want[i]);
            df.cmp(i, &ZipIntVec::fast_get(data, bits, mask, mv, i).ok(), &Some(want[i]));
            if i + 1 < n {
                d2.cmp(i, &v.get2(i), &[want[i], want[i + 1]]);
            }
        }
        (d, d2, df)
    });
    match read {
        Ok((d, d2, df)) => {
            d.report(ctx, "get", class, n, n);
            d2.report(ctx, "get2", class, n.saturating_sub(1), n);
            df.report(ctx, "fast_get", class, n, n);
        }
        Err(p) => ctx.fail("get", "panic", &p.class(), format!("{}:{}: {}", p.file, p.line, clip(&p.msg, 200))),
    }
    for i in [n, n.saturating_add(1), n.saturating_add(1000)] {
        let r = try_call(|| v.get(i));
        ctx.ensure("get_oob", class, r.is_err(), || format!("get({i}) on size {n} returned {:?}", r.as_ref().ok()));
    }
    if n >= 1 {
        let r = try_call(|| v.get2(n - 1));
        ctx.ensure("get2_oob", class, r.is_err(), || format!("get2({}) on size {n} returned {:?}", n - 1, r.as_ref().ok()));
    }
}

fn run_zip(ctx: &mut Ctx, mode: u8, flag: bool, cap: u8, seq: &Seq) {
    let bits = (if mode == 1 { 32 } else { 64 }).min(cap.max(1) as u32);
    let pats = seq.materialize(bits);
    let n = pats.len();
    let (mn, mx) = (pats.iter().min().copied().unwrap_or(0), pats.iter().max().copied().unwrap_or(0));
    common_labels(ctx, seq.shape_label(), n, distinct_count(&pats), width_of(mx - mn));
    let cls = format!("{}{}", span_class(mn, mx, true), if n > 0 && mn == mx && mn == low_mask(bits) { ",const_MAX" } else { "" });
    if cls.contains("min+mask") {
        ctx.label("min+mask>usize::MAX");
    }
    let src: Vec<usize> = pats.iter().map(|p| *p as usize).collect();
    let built = match mode {
        0 => try_call(|| ZipIntVec::build_from_usize(&src)),
        1 => {
            let s32: Vec<u32> = pats.iter().map(|p| *p as u32).collect();
            try_call(|| ZipIntVec::build_from_u32(&s32))
        }
        2 => {
            if n > 0 && mn == u64::MAX {
                ctx.label("skipped_no_valid_range_above_MAX");
                return;
            }
            // new() requires min < max
            let hi = if mx > mn { mx } else { mn + 1 };
            try_call(|| {
                let mut v = ZipIntVec::new(n, mn as usize, hi as usize);
                if flag {
                    for i in 0..n {
                        v.set(i, mx as usize);
                    }
                }
                for i in (1..n).step_by(2).chain((0..n).step_by(2)) {
                    v.set(i, src[i]);
                }
                v
            })
        }
        _ => {
            // push_back: values must be >= min_val; start from new(.., first-range) resized to 0
            // (as the crate's own test does) or from new_empty (min_val = 0)
            try_call(|| {
                let mut v = if flag && n > 0 && mn < u64::MAX {
                    let mut v = ZipIntVec::new(4, mn as usize, (mn + 1) as usize);
                    v.resize(0);
                    v
                } else {
                    ZipIntVec::new_empty()
                };
                for x in &src {
                    v.push_back(*x);
                }
                v
            })
        }
    };
    if mode == 3 && pats.iter().any(|p| width_of(*p - if flag && n > 0 && mn < u64::MAX { mn } else { 0 }) > 58) {
        // push_back re-packs through get(), which is documented to refuse widths > 58
        ctx.label("push_back_beyond_58_bits_not_asserted");
        return;
    }
    match built {
        Ok(v) => check_zip(ctx, &v, &src, ""),
        Err(p) => ctx.fail("build", "panic", &format!("{cls};{}", p.class()), format!("{}:{}: {}", p.file, p.line, clip(&p.msg, 200))),
    }
}

// ---------------------------------------------------------------------------------------
// SortedUintVec
// ---------------------------------------------------------------------------------------

fn suv_values(seq: &SuvSeq, cfg: (u8, u8, u8, bool)) -> Vec<u64> {
    let (log2, ow, sw, _) = cfg;
    match seq {
        SuvSeq::Explicit(v) => {
            let mut v = v.clone();
            v.sort_unstable();
            v
        }
        SuvSeq::Gen { len, seed, base_kind, base_off, gap_rel, jumps } => {
            let n = *len;
            let mut r = Xs(seed | 1);
            let swm = low_mask(sw as u32);
            let base = match base_kind {
                0 => base_off % 1000,
                1 => swm - (base_off % 5000).min(swm),
                2 => {
                    if sw >= 64 {
                        u64::MAX - (base_off % 100_000)
                    } else {
                        (swm + 1).saturating_add(base_off % (1 << 20))
                    }
                }
                3 => base_off & swm,
                _ => u64::MAX - (base_off % 100_000),
            };
            let gb = (ow as i32 - log2 as i32 - 8 + *gap_rel as i32).clamp(0, 40) as u32;
            let mut extra = vec![0u64; n];
            if n > 0 {
                let bs = 1usize << log2;
                for (i, b) in jumps {
                    // three quarters of the jumps stay within the offset range; half of them sit
                    // on a block boundary (where any gap is representable)
                    let jb = if *b < 48 { *b % (ow + 1) } else { *b };
                    let mut at = idx(*i, n);
                    if i & 1 == 1 {
                        at -= at % bs;
                    }
                    extra[at] = 1u64 << jb;
                }
            }
            let mut out = Vec::with_capacity(n);
            let mut cur = base;
            for i in 0..n {
                if i > 0 {
                    cur = cur.saturating_add(r.below(low_mask(gb) + 1));
                }
                cur = cur.saturating_add(extra[i]);
                out.push(cur);
            }
            out
        }
    }
}

fn run_suv(ctx: &mut Ctx, cfg: (u8, u8, u8, bool), seq: &SuvSeq) {
    let (log2, ow, sw, simd) = cfg;
    let config = SortedUintVecConfig { log2_block_units: log2, offset_width: ow, sample_width: sw, use_simd: simd };
    if config.validate().is_err() {
        ctx.label("config_rejected_by_validate");
        return;
    }
    let vals = suv_values(seq, cfg);
    let n = vals.len();
    let bs = 1usize << log2;
    let (mn, mx) = (vals.first().copied().unwrap_or(0), vals.last().copied().unwrap_or(0));
    ctx.label(match seq {
        SuvSeq::Gen { .. } => "shape=SortedGen",
        SuvSeq::Explicit(_) => "shape=Explicit",
    });
    ctx.label(n_label(n));
    ctx.label(if n == 0 { "blk=empty" } else if n % bs == 0 { "blk=k*B" } else if n % bs == 1 { "blk=k*B+1" } else if n % bs == bs - 1 { "blk=k*B-1" } else { "blk=other" });
    ctx.label(width_label(width_of(mx - mn)));
    ctx.label(format!("sample_width={}", match sw { 16..=31 => "16-31", 32 => "32", 33..=57 => "33-57", 58..=63 => "58-63", _ => "64" }));
    if n >= 65 && mx != mn {
        ctx.nontrivial();
    }
    // input classes (deterministic): does any block's first value need more than sample_width
    // bits / does any in-block span need more than offset_width bits / is the sample field one of
    // the widths whose bit offset + width can exceed 64
    let sample_overflow = sw < 64 && vals.chunks(bs).any(|c| c[0] > low_mask(sw as u32));
    let span_overflow = vals.chunks(bs).any(|c| c[c.len() - 1] - c[0] > low_mask(ow as u32));
    let sw_9byte = matches!(sw, 59 | 61 | 62 | 63) && n > bs;
    let cls = if sw_9byte {
        "sample_field_spans_9_bytes"
    } else if sample_overflow {
        "sample>=2^sample_width"
    } else {
        "fits"
    };
    ctx.label(format!("values:{cls}"));
    ctx.label(if span_overflow { "block_span>=2^offset_width" } else { "block_span_fits" });

    let built = try_call(|| -> Result<_, zipora::ZiporaError> {
        let mut b = SortedUintVecBuilder::with_config(config);
        for v in &vals {
            b.push(*v)?;
        }
        b.finish()
    });
    let v = match built {
        Err(p) => {
            ctx.fail("build", "panic", &format!("{cls};{}", p.class()), format!("{}:{}: {}", p.file, p.line, clip(&p.msg, 200)));
            return;
        }
        Ok(Err(_)) => {
            ctx.label("build_refused");
            return;
        }
        Ok(Ok(v)) => v,
    };
    ctx.label("build_ok");
    ctx.eq("len", "", &v.len(), &n);
    ctx.eq("len", "is_empty", &v.is_empty(), &(n == 0));
    ctx.eq("len", "num_blocks", &v.num_blocks(), &((n + bs - 1) / bs));
    if v.len() != n {
        return;
    }
    let read = try_call(|| {
        let mut d = Diff::new();
        let mut d2 = Diff::new();
        let mut db = Diff::new();
        for i in 0..n {
            d.cmp(i, &v.get(i).ok(), &Some(vals[i]));
            if i + 1 < n {
                d2.cmp(i, &v.get2(i).ok(), &Some((vals[i], vals[i + 1])));
            }
        }
        let mut buf = vec![0u64; bs];
        for (b, chunk) in vals.chunks(bs).enumerate() {
            buf.iter_mut().for_each(|x| *x = 0xDEAD_BEEF_DEAD_BEEF);
            let ok = v.get_block(b, &mut buf).is_ok();
            db.cmp(b * bs, &(ok, buf[..chunk.len()].to_vec()), &(true, chunk.to_vec()));
        }
        (d, d2, db)
    });
    match read {
        Ok((d, d2, db)) => {
            d.report(ctx, "get", cls, n, n);
            d2.report(ctx, "get2", cls, n.saturating_sub(1), n);
            db.report(ctx, "get_block", cls, (n + bs - 1) / bs, n);
        }
        Err(p) => ctx.fail("get", "panic", &format!("{cls};{}", p.class()), format!("{}:{}: {}", p.file, p.line, clip(&p.msg, 200))),
    }
    for i in [n, n.saturating_add(1), n.saturating_add(bs), usize::MAX] {
        match try_call(|| v.get(i)) {
            Ok(r) => {
                ctx.ensure("get_oob", "", r.is_err(), || format!("get({i}) on len {n} returned {:?}", r.as_ref().ok()));
            }
            Err(p) => ctx.fail("get_oob", "panic", &p.class(), format!("get({i}) with n={n}: {}", clip(&p.msg, 200))),
        }
    }
    if n >= 1 {
        match try_call(|| v.get2(n - 1)) {
            Ok(r) => {
                ctx.ensure("get2_oob", "", r.is_err(), || format!("get2({}) on len {n} returned {:?}", n - 1, r.as_ref().ok()));
            }
            Err(p) => ctx.fail("get2_oob", "panic", &p.class(), format!("get2({}) with n={n}: {}", n - 1, clip(&p.msg, 200))),
        }
    }
    let nb = (n + bs - 1) / bs;
    let mut buf = vec![0u64; bs];
    match try_call(|| v.get_block(nb, &mut buf).is_err()) {
        Ok(refused) => {
            ctx.ensure("get_block_oob", "", refused, || format!("get_block({nb}) with {nb} blocks succeeded"));
        }
        Err(p) => ctx.fail("get_block_oob", "panic", &p.class(), clip(&p.msg, 200)),
    }
}

// ---------------------------------------------------------------------------------------
// the property
// ---------------------------------------------------------------------------------------

const UV_MODES: &[&str] = &["build_from", "push", "mixed"];
const UVM0_MODES: &[&str] = &["build_usize", "build_u32", "build_i32", "new_set", "push_back"];
const ZIP_MODES: &[&str] = &["build_usize", "build_u32", "new_set", "push_back"];
const SUV_PRESETS: &[(&str, (u8, u8, u8, bool))] = &[("default", (6, 16, 32, true)), ("performance", (7, 20, 40, true)), ("memory", (6, 12, 24, false))];

impl Prop for P {
    fn id(&self) -> &'static str {
        "C09"
    }
    fn rule(&self) -> &'static str {
        "one proptest plan per container x construction path; sequences are (shape, length, seed, parameter, base, explicit outliers) expanded deterministically, or fully explicit vectors; shapes: constant, sorted (random/uniform gaps), small range (also placed at the top of the type's range), full range with MIN/MAX, exact-width w=1..bits, periodic, negative/positive mix; lengths biased to 0-8, k*64+-1, 1000/1024/2048+-1 and a share above the 10 000-element / 16 KiB strategy switch; non-trivial = at least 65 elements and at least 2 distinct values (history cell: >= 65 live specified slots); distinct by hash of the case JSON"
    }
    fn assumptions(&self) -> Vec<String> {
        vec![
            "an Err from a Result-returning constructor/builder is 'refused' (labelled, not flagged); a panic from one is flagged".into(),
            "UintVecMin0/ZipIntVec getters return usize and document a bounds panic: 'refused' past the end = the call panics; get() is also documented to panic when the packed width exceeds 58 bits, so containers whose value span needs 59-64 bits are only checked for size (reads are 'refused by contract'), and push_back (which re-packs through get) is not asserted beyond 58 bits".into(),
            "UintVecMin0::resize growth exposes slots whose content the API does not specify: they are not compared until set; resize_with_uintbits on a non-empty vector is not exercised (no preservation promise)".into(),
            "UintVecMin0::fast_get is only asserted for in-range indices (for idx >= size it may read padding)".into(),
            "UintVecMin0::set/ZipIntVec::set preconditions (value within the declared range) are respected by the generator; the always-panicking Index impl is not exercised".into(),
            "SortedUintVec input is always sorted (builder contract); configs are restricted to what validate() accepts; sequences whose block span or sample exceed the configured widths may be refused with Err, but if accepted must read back exactly".into(),
            "IntVec::get is O(index) for the delta strategy, so vectors above 3000 elements are verified on ~1000 indices (both ends, block boundaries, a stride) instead of all".into(),
            "IntVec::stats() returns a private type, so the chosen strategy is only labelled approximately from memory_usage(); it is never used by the oracle or the signature".into(),
        ]
    }
    fn cpu_budget_s(&self) -> u64 {
        60
    }
    fn plans(&self, tier: Tier) -> Vec<Plan> {
        let q = |a, b| tier.pick(a, b);
        let max_len = q(3000, 40_000);
        let explicit_max = q(300, 1500);
        let b = |a: usize| (a * 15 + 50) / 100;
        let mut v = vec![];
        for (ti, tn) in TYPES.iter().enumerate() {
            // first length at which from_slice leaves its "small dataset" path for this type
            let big_lo = if TYPE_SIZE[ti] == 1 { 17 * 1024 } else { 10_001 };
            for (ci, cn) in CTORS.iter().enumerate() {
                let cases = match (ci, ti) {
                    (0, _) => q(15_000, 300_000),
                    (2, _) => q(10_000, 200_000),
                    _ => q(6000, 120_000),
                };
                // bulk_simd: every flavour-B case that reaches the known write_bits_bulk heap
                // overflow aborts its worker under ASan, so the B budget of these cells is small
                let cases_b = if ci == 2 { q(150, 3000) } else { b(cases) };
                v.push(Plan::new(
                    &format!("intvec_{tn}_{cn}"),
                    cases,
                    cases_b,
                    seq_strategy(max_len, big_lo, explicit_max).prop_map(move |seq| Case::IntVec { ty: ti as u8, ctor: ci as u8, seq }),
                ));
            }
        }
        for (mi, mn) in UV_MODES.iter().enumerate() {
            let cases = q(24_000, 480_000);
            v.push(Plan::new(
                &format!("uint_vector_{mn}"),
                cases,
                b(cases),
                (any::<u16>(), seq_strategy(q(2500, 20_000), q(2500, 20_000), explicit_max)).prop_map(move |(split, seq)| Case::UintVector { mode: mi as u8, split, seq }),
            ));
        }
        for (mi, mn) in UVM0_MODES.iter().enumerate() {
            let cases = q(24_000, 480_000);
            v.push(Plan::new(
                &format!("uvm0_{mn}"),
                cases,
                b(cases),
                (any::<bool>(), cap_strategy(), seq_strategy(q(2500, 20_000), q(2500, 20_000), explicit_max)).prop_map(move |(flag, cap, seq)| Case::Uvm0 { mode: mi as u8, flag, cap, seq }),
            ));
        }
        {
            let cases = q(24_000, 480_000);
            let hl = q(120, 1000);
            v.push(Plan::new(
                "uvm0_history",
                cases,
                b(cases),
                (prop_oneof![1u8..=58, Just(58u8), Just(57u8), Just(1u8)], prop_oneof![1 => Just(0u16), 3 => 0u16..=300], any::<u64>(), proptest::collection::vec(op_strategy(), 0..hl))
                    .prop_map(|(maxbits, init, seed, ops)| Case::Uvm0History { maxbits, init, seed, ops }),
            ));
        }
        for (mi, mn) in ZIP_MODES.iter().enumerate() {
            let cases = q(24_000, 480_000);
            v.push(Plan::new(
                &format!("zip_{mn}"),
                cases,
                b(cases),
                (any::<bool>(), cap_strategy(), seq_strategy(q(2500, 20_000), q(2500, 20_000), explicit_max)).prop_map(move |(flag, cap, seq)| Case::Zip { mode: mi as u8, flag, cap, seq }),
            ));
        }
        for (name, cfg) in SUV_PRESETS {
            let cases = q(24_000, 480_000);
            let cfg = *cfg;
            v.push(Plan::new(&format!("suv_{name}"), cases, b(cases), suv_seq_strategy(q(2000, 20_000)).prop_map(move |seq| Case::Suv { cfg, seq })));
        }
        {
            let cases = q(48_000, 900_000);
            let cfgs = (4u8..=8, prop_oneof![8u8..=32, Just(8u8), Just(32u8)], prop_oneof![3 => 16u8..=64, 1 => Just(16u8), 2 => Just(64u8), 2 => 57u8..=64], any::<bool>());
            v.push(Plan::new("suv_corners", cases, b(cases), (cfgs, suv_seq_strategy(q(2000, 20_000))).prop_map(|(cfg, seq)| Case::Suv { cfg, seq })));
        }
        v
    }

    fn enumerated(&self, _tier: Tier) -> Vec<Value> {
        // the probe input of DESIGN §5 — (0..300).map(|i| i % 17) — for every IntVec cell, and the
        // same shape at the block boundaries
        let mut out = vec![];
        for (ti, tn) in TYPES.iter().enumerate() {
            for (ci, cn) in CTORS.iter().enumerate() {
                for len in [300usize, 64, 65, 128, 1001] {
                    let c = Case::IntVec { ty: ti as u8, ctor: ci as u8, seq: Seq::Gen { shape: Shape::Periodic, len, seed: 0, p: 15, base: 0, outliers: vec![] } };
                    out.push(serde_json::json!({"cell": format!("intvec_{tn}_{cn}"), "c": serde_json::to_value(&c).unwrap()}));
                }
            }
        }
        out
    }

    fn run(&self, case: &Value, ctx: &mut Ctx) {
        let c: Case = decode(case);
        match c {
            Case::IntVec { ty, ctor, seq } => match ty {
                0 => run_intvec::<u8>(ctx, ctor, &seq),
                1 => run_intvec::<u16>(ctx, ctor, &seq),
                2 => run_intvec::<u32>(ctx, ctor, &seq),
                3 => run_intvec::<u64>(ctx, ctor, &seq),
                4 => run_intvec::<i8>(ctx, ctor, &seq),
                5 => run_intvec::<i16>(ctx, ctor, &seq),
                6 => run_intvec::<i32>(ctx, ctor, &seq),
                _ => run_intvec::<i64>(ctx, ctor, &seq),
            },
            Case::UintVector { mode, split, seq } => run_uint_vector(ctx, mode, split, &seq),
            Case::Uvm0 { mode, flag, cap, seq } => run_uvm0(ctx, mode, flag, cap, &seq),
            Case::Uvm0History { maxbits, init, seed, ops } => run_uvm0_history(ctx, maxbits, init, seed, &ops),
            Case::Zip { mode, flag, cap, seq } => run_zip(ctx, mode, flag, cap, &seq),
            Case::Suv { cfg, seq } => run_suv(ctx, cfg, &seq),
        }
    }
}
