//! C02 — compressor layer and PA-Zip round-trip whatever algorithm is chosen.
//!
//! Oracle: the identity.  For every compressor obtainable from `CompressorFactory`, the
//! adaptive / real-time front ends, the SIMD-LZ77 family and `PaZipCompressor`:
//! `decompress(compress(x)) == x` whenever `compress` returned `Ok`.  For PA-Zip match streams `decode(encode(m)) == m` with the
//! reported bit count equal to the bits consumed and to the documented field widths.
//! The reference side never calls zipora: it is the generated payload / the generated match list /
//! the documented ranges and bit widths.

use crate::engine::{decode, fnv, mix, try_call, Ctx, Plan, Prop, Tier};
use crate::gen::{expand, idx, payload, size_around, Content, Payload, Xs, ALL_CONTENT};
use proptest::prelude::*;
use serde::{Deserialize, Serialize};
use serde_json::Value;
use std::cell::RefCell;
use std::collections::HashMap;
use std::sync::Arc;
use std::time::{Duration, Instant};
use zipora::compression::dict_zip::compression_types::{
    apply_fse_compression, fse_unzip_reference, fse_zip_reference, remove_fse_compression, FseConfig,
};
use zipora::compression::dict_zip::{
    decode_match, decode_matches, encode_match, encode_matches, BitReader, BitWriter, DictionaryBuilder, DictionaryBuilderConfig,
    Match, PaZipCompressor, PaZipCompressorConfig, SuffixArrayDictionary,
};
use zipora::compression::{
    compress_with_simd_lz77, decompress_with_simd_lz77, AdaptiveCompressor, AdaptiveConfig, Algorithm, CompressionMode, Compressor,
    CompressorFactory, PerformanceRequirements, RealtimeCompressor, RealtimeConfig, SimdLz77Compressor, SimdLz77CompressorX1,
    SimdLz77CompressorX2, SimdLz77CompressorX4, SimdLz77CompressorX8, SimdLz77Config,
};
use zipora::memory::{SecureMemoryPool, SecurePoolConfig};

pub struct P;

// ---------------------------------------------------------------------------------------
// case types
// ---------------------------------------------------------------------------------------

/// Payload description: a plain generated payload, its zstd-compressed form (already
/// compressed = incompressible input), or `unit ++ filler ++ unit ++ tail` (a repeat at a
/// chosen distance).
#[derive(Clone, Debug, Serialize, Deserialize)]
pub enum Px {
    Plain(Payload),
    Packed(Payload),
    Repeat { unit: Payload, dist: u32, fill: Content, seed: u64, tail: u8 },
    /// `kib` KiB (100..1500) of very redundant content: ratios of several thousand to one and
    /// inputs beyond the 64 KiB / 128 KiB / 1 MiB switches inside the codecs
    Big { content: Content, kib: u16, seed: u64 },
    /// two regions with different statistics (e.g. a compressible first KiB followed by noise):
    /// decisions taken from a prefix or a sample of the payload do not hold for the rest
    Two { first: Payload, second: Payload },
}

#[derive(Clone, Copy, Debug, PartialEq, Eq, Serialize, Deserialize)]
pub enum TrainKind {
    Same,
    Superset,
    Prefix,
    Disjoint,
    Unrelated,
    Text,
    Empty,
    /// several hundred KiB of very skewed data followed by the payload: symbol counts far above
    /// 16 bits (frequency tables stored in narrow fields, normalisation of huge counts)
    HugeSkew,
}

#[derive(Clone, Debug, Serialize, Deserialize)]
pub struct Train {
    kind: TrainKind,
    seed: u64,
    len: u16,
}

#[derive(Clone, Debug, Serialize, Deserialize)]
pub enum AOp {
    Compress(Px),
    SetAlg(u8),
    Train(Vec<Payload>),
}

#[derive(Clone, Copy, Debug, Serialize, Deserialize)]
pub enum Deadline {
    Past,
    Now,
    Far,
}

#[derive(Clone, Debug, Serialize, Deserialize)]
pub enum ROp {
    Compress(Px),
    WithDeadline(Px, Deadline),
    Batch(Vec<Payload>),
    SetMode(u8),
}

#[derive(Clone, Debug, Serialize, Deserialize)]
pub struct Corpus {
    content: Content,
    size: u8,
    seed: u8,
}

#[derive(Clone, Debug, Serialize, Deserialize)]
pub enum Piece {
    Lit(Payload),
    /// slice of the dictionary text (what PA-Zip's global matcher searches), up to 400 bytes
    Dict { off: u16, len: u16 },
    /// slice of the original training corpus (differs from the dictionary text when the builder samples)
    Corpus { off: u16, len: u16 },
    /// long slice of the dictionary text: up to 70 000 bytes (16-bit length / offset fields)
    DictLong { off: u16, len: u16 },
    Run { byte: u8, n: u16 },
    /// makes the whole input `2^20 - 2 + extra` bytes long (the compressor switches to its
    /// block-wise path at 64 KiB / 1 MiB): the pieces so far, then generated content
    Huge { content: Content, extra: u16, seed: u64 },
}

#[derive(Clone, Debug, Serialize, Deserialize)]
pub struct MSpec {
    kind: u8,
    a: u32,
    b: u32,
}

#[derive(Clone, Debug, Serialize, Deserialize)]
pub enum Case {
    Factory { alg: u8, level: i32, x: Px, train: Train },
    Adaptive { profile: u8, ops: Vec<AOp> },
    Realtime { mode: u8, conc: u8, fallback: bool, deadlines: bool, ops: Vec<ROp> },
    SimdLz77 { variant: u8, x: Payload, corpus: Corpus },
    PaZip { preset: u8, builder: u8, corpus: Corpus, inputs: Vec<Vec<Piece>> },
    Matches { ms: Vec<MSpec> },
    Fse { cfg: u8, x: Px },
}

// ---------------------------------------------------------------------------------------
// tables
// ---------------------------------------------------------------------------------------

const ALGS: &[(&str, Algorithm)] = &[
    ("None", Algorithm::None),
    ("Lz4", Algorithm::Lz4),
    ("Zstd1", Algorithm::Zstd(1)),
    ("Zstd3", Algorithm::Zstd(3)),
    ("Zstd6", Algorithm::Zstd(6)),
    ("Zstd9", Algorithm::Zstd(9)),
    ("Zstd19", Algorithm::Zstd(19)),
    ("Huffman", Algorithm::Huffman),
    ("Rans", Algorithm::Rans),
    ("Dictionary", Algorithm::Dictionary),
    ("SimdLz77", Algorithm::SimdLz77),
    ("Hybrid", Algorithm::Hybrid),
    // level taken from the case
    ("ZstdAnyLevel", Algorithm::Zstd(0)),
];
const ALG_ZSTD_ANY: usize = 12;

const ADAPTIVE_PROFILES: &[&str] = &["default", "aggressive", "speed", "quality", "lowmem"];
const MODES: &[(&str, CompressionMode)] = &[
    ("UltraLowLatency", CompressionMode::UltraLowLatency),
    ("LowLatency", CompressionMode::LowLatency),
    ("Balanced", CompressionMode::Balanced),
    ("HighCompression", CompressionMode::HighCompression),
];
const SIMD_VARIANTS: &[&str] =
    &["default", "high_performance", "low_latency", "maximum_parallelism", "X1", "X2", "X4", "X8", "with_dictionary", "global"];
const PAZIP_PRESETS: &[&str] = &["default", "fast", "high", "balanced", "realtime", "reference_compliant"];
const CORPUS_SIZES: &[usize] = &[0, 24, 40, 400, 600, 1000, 4000, 20_000, 70_000, 90_000, 140_000];
const KIND_NAMES: &[&str] = &["Literal", "Global", "RLE", "NearShort", "Far1Short", "Far2Short", "Far2Long", "Far3Long"];

// ---------------------------------------------------------------------------------------
// expansion of the compact descriptions (worker side; deterministic)
// ---------------------------------------------------------------------------------------

impl Px {
    fn bytes(&self) -> Vec<u8> {
        match self {
            Px::Plain(p) => p.bytes(),
            Px::Packed(p) => {
                let b = p.bytes();
                // input preparation only (not part of the oracle): an already-compressed payload
                match try_call(|| zipora::compression::ZstdCompressor::new(3).compress(&b)) {
                    Ok(Ok(z)) => z,
                    _ => b,
                }
            }
            Px::Two { first, second } => {
                let mut v = first.bytes();
                v.extend_from_slice(&second.bytes());
                v
            }
            Px::Big { content, kib, seed } => expand(*content, *kib as usize * 1024 + (*seed % 7) as usize, *seed),
            Px::Repeat { unit, dist, fill, seed, tail } => {
                let u = unit.bytes();
                let mut out = u.clone();
                let d = *dist as usize;
                if d > u.len() {
                    out.extend_from_slice(&expand(*fill, d - u.len(), *seed));
                }
                out.extend_from_slice(&u);
                let mut r = Xs(*seed | 1);
                for _ in 0..*tail {
                    out.push(r.next() as u8);
                }
                out
            }
        }
    }
    fn class(&self) -> String {
        match self {
            Px::Plain(p) => p.class(),
            Px::Packed(_) => "Packed".into(),
            Px::Big { .. } => "Big".into(),
            Px::Two { .. } => "TwoRegions".into(),
            Px::Repeat { dist, .. } => {
                if *dist >= 60_000 {
                    "Repeat@64K".into()
                } else if *dist >= 250 {
                    "Repeat@256".into()
                } else {
                    "Repeat@near".into()
                }
            }
        }
    }
}

fn len_class(n: usize) -> &'static str {
    match n {
        0 => "len=0",
        1 => "len=1",
        2..=63 => "len=2..63",
        64..=1023 => "len=64..1023",
        1024..=8192 => "len=1K..8K",
        8193..=1048575 => "len>8K",
        _ => "len>=1M",
    }
}

/// deterministic input class used in signatures
fn in_class(x: &[u8]) -> &'static str {
    if x.is_empty() {
        "empty"
    } else if x.len() == 1 {
        "len1"
    } else if x.iter().all(|b| *b == x[0]) {
        "one_symbol"
    } else {
        "multi_symbol"
    }
}

fn resolve_train(t: &Train, x: &[u8]) -> Vec<u8> {
    let n = t.len as usize;
    match t.kind {
        TrainKind::Same => x.to_vec(),
        TrainKind::Superset => {
            let mut v = x.to_vec();
            v.extend_from_slice(&expand(Content::Uniform, n.min(1024), t.seed));
            v
        }
        TrainKind::Prefix => x[..x.len() / 2].to_vec(),
        TrainKind::Disjoint => {
            let mut present = [false; 256];
            for b in x {
                present[*b as usize] = true;
            }
            let absent: Vec<u8> = (0..=255u8).filter(|b| !present[*b as usize]).collect();
            if absent.is_empty() {
                return expand(Content::KSymbol, n.max(1), t.seed);
            }
            let mut r = Xs(t.seed | 1);
            let k = 1 + r.below(absent.len().min(40) as u64) as usize;
            (0..n.max(1)).map(|_| absent[r.below(k as u64) as usize]).collect()
        }
        TrainKind::Unrelated => expand(Content::KSymbol, n.max(1), t.seed),
        TrainKind::Text => expand(Content::Text, n.max(1), t.seed),
        TrainKind::Empty => vec![],
        TrainKind::HugeSkew => {
            // dominant symbol ~70 %, then a geometric tail, then the payload itself so that every
            // payload symbol is covered by the model
            let total = 120_000 + (n % 8) * 40_000;
            let mut r = Xs(t.seed | 1);
            let base = (t.seed >> 8) as u8;
            let mut v: Vec<u8> = (0..total)
                .map(|_| {
                    let u = r.below(1000);
                    if u < 700 { base } else if u < 900 { base.wrapping_add(1) } else if u < 985 { base.wrapping_add(2) } else { base.wrapping_add(3 + (r.below(6) as u8)) }
                })
                .collect();
            v.extend_from_slice(x);
            v
        }
    }
}

fn corpus_bytes(c: &Corpus) -> Vec<u8> {
    let n = CORPUS_SIZES[(c.size as usize).min(CORPUS_SIZES.len() - 1)];
    expand(c.content, n, 0xC0_2000 + c.seed as u64 * 0x1_0001)
}

fn pieces_bytes(pieces: &[Piece], corpus: &[u8], dict_text: &[u8], cap: usize) -> Vec<u8> {
    let mut out = vec![];
    let mut cap = cap;
    let slice = |src: &[u8], off: u16, len: u16, max: usize| -> Vec<u8> {
        if src.is_empty() {
            return vec![];
        }
        let o = idx(off, src.len());
        let l = 1 + idx(len, (src.len() - o).min(max));
        src[o..(o + l).min(src.len())].to_vec()
    };
    for p in pieces {
        match p {
            Piece::Lit(p) => out.extend_from_slice(&p.bytes()),
            Piece::Dict { off, len } => out.extend_from_slice(&slice(dict_text, *off, *len, 400)),
            Piece::Corpus { off, len } => out.extend_from_slice(&slice(corpus, *off, *len, 400)),
            Piece::DictLong { off, len } => {
                cap = cap.max(80_000);
                // `off` maps onto the first 10 % of the text so that the slice can be long
                let o = idx(*off, dict_text.len() / 10 + 1).min(dict_text.len());
                let l = idx(*len, (dict_text.len() - o).min(70_000) + 1);
                out.extend_from_slice(&dict_text[o..o + l]);
            }
            Piece::Run { byte, n } => out.extend(std::iter::repeat(*byte).take(1 + idx(*n, 300))),
            Piece::Huge { content, extra, seed } => {
                let total = (1usize << 20) - 2 + *extra as usize;
                cap = cap.max(total);
                if out.len() < total {
                    out.extend_from_slice(&expand(*content, total - out.len(), *seed));
                }
            }
        }
        if out.len() >= cap {
            out.truncate(cap);
            break;
        }
    }
    out
}

// ---------------------------------------------------------------------------------------
// strategies
// ---------------------------------------------------------------------------------------

const BLOCKS: &[usize] = &[32, 50, 128, 1024, 2048];

fn px(max: usize, big_ok: bool) -> BoxedStrategy<Px> {
    let small_repeat = (
        payload(size_around(&[4, 16], 40), 24),
        proptest::sample::select(vec![1u32, 2, 3, 8, 9, 10, 11, 33, 34, 35, 254, 255, 256, 257, 258, 259, 300]),
        proptest::sample::select(vec![Content::Uniform, Content::Constant, Content::Text, Content::KSymbol]),
        any::<u64>(),
        0u8..4,
    )
        .prop_map(|(unit, dist, fill, seed, tail)| Px::Repeat { unit, dist, fill, seed, tail });
    let big_repeat = (
        payload(size_around(&[16, 34], 80), 24),
        proptest::sample::select(vec![65_533u32, 65_534, 65_535, 65_536, 65_537, 65_792, 65_793, 65_794, 65_795]),
        proptest::sample::select(vec![Content::Uniform, Content::Text, Content::KSymbol]),
        any::<u64>(),
        0u8..4,
    )
        .prop_map(|(unit, dist, fill, seed, tail)| Px::Repeat { unit, dist, fill, seed, tail });
    let plain = payload(size_around(BLOCKS, max), 48).prop_map(Px::Plain);
    let packed = payload(size_around(BLOCKS, max), 48).prop_map(Px::Packed);
    // a very compressible region of 1-2 KiB next to an incompressible one of 0.5-4 KiB, in either
    // order (2 in 3), or two arbitrary regions (1 in 3)
    let region = |lens: &'static [usize]| payload(size_around(lens, max.max(64)), 16);
    let squeezable = (proptest::sample::select(vec![Content::Text, Content::Runs, Content::Periodic, Content::TwoSymbol, Content::Constant, Content::Geometric]), 1024usize..=2048, any::<u64>())
        .prop_map(|(content, len, seed)| Payload::Gen { content, len, seed });
    let noise = (512usize..=4096, any::<u64>()).prop_map(|(len, seed)| Payload::Gen { content: Content::Uniform, len, seed });
    let two = prop_oneof![
        1 => (squeezable.clone(), noise.clone()).prop_map(|(first, second)| Px::Two { first, second }),
        1 => (noise, squeezable).prop_map(|(first, second)| Px::Two { first, second }),
        1 => (region(&[300, 1024, 1500]), region(&[64, 600, 2048])).prop_map(|(first, second)| Px::Two { first, second }),
    ];
    if big_ok {
        let big = (proptest::sample::select(vec![Content::Constant, Content::Periodic, Content::Runs, Content::TwoSymbol, Content::Text]), prop_oneof![Just(128u16), Just(1024u16), 100u16..1500], any::<u64>())
            .prop_map(|(content, kib, seed)| Px::Big { content, kib, seed });
        prop_oneof![24 => plain, 4 => packed, 4 => small_repeat, 1 => big_repeat, 1 => big, 3 => two].boxed()
    } else {
        prop_oneof![24 => plain, 4 => packed, 4 => small_repeat, 3 => two].boxed()
    }
}

fn train() -> BoxedStrategy<Train> {
    (
        prop_oneof![
            8 => Just(TrainKind::Same),
            4 => Just(TrainKind::Superset),
            2 => Just(TrainKind::Prefix),
            2 => Just(TrainKind::Disjoint),
            3 => Just(TrainKind::Unrelated),
            2 => Just(TrainKind::Text),
            1 => Just(TrainKind::Empty),
            2 => Just(TrainKind::HugeSkew),
        ],
        any::<u64>(),
        prop_oneof![1u16..40, 1u16..2000],
    )
        .prop_map(|(kind, seed, len)| Train { kind, seed, len })
        .boxed()
}

/// (training corpus, dictionary-builder preset).  Dictionary construction dominates the cost of the
/// PA-Zip cells (0.02 s .. 1 s for 4 KB, seconds beyond), so the corpora come from a small fixed
/// family (content class x size index, one seed in quick) and are cached per worker.
fn corpus_and_builder(tier: Tier) -> BoxedStrategy<(Corpus, u8)> {
    let contents = vec![
        Content::Text,
        Content::Text,
        Content::KSymbol,
        Content::Uniform,
        Content::Periodic,
        Content::Runs,
        Content::TwoSymbol,
        Content::Geometric,
        Content::Constant,
    ];
    let seeds = tier.pick(1, 3) as u8;
    let small = (
        proptest::sample::select(contents.clone()),
        prop_oneof![1 => Just(0u8), 2 => Just(1u8), 2 => Just(2u8), 3 => Just(3u8), 3 => Just(4u8), 4 => Just(5u8)],
        0u8..seeds,
        prop_oneof![5 => Just(0u8), 1 => Just(1u8), 2 => Just(2u8), 2 => Just(3u8)],
    )
        .prop_map(|(content, size, seed, b)| (Corpus { content, size, seed }, b));
    // 4 000-byte corpora: not with max_compression (1 s each)
    let medium = (proptest::sample::select(contents), 0u8..seeds, prop_oneof![5 => Just(0u8), 2 => Just(2u8), 2 => Just(3u8)])
        .prop_map(|(content, seed, b)| (Corpus { content, size: 6, seed }, b));
    // dictionary text > 64 KiB (16-bit offset fields): 140 000-byte corpus, max_speed builder (samples 50 %)
    let over64k = proptest::sample::select(vec![Content::Text, Content::KSymbol, Content::Uniform]).prop_map(|content| (Corpus { content, size: 10, seed: 0 }, 2u8));
    let k20 = (proptest::sample::select(vec![Content::Text, Content::KSymbol]), proptest::sample::select(vec![0u8, 2])).prop_map(|(content, b)| (Corpus { content, size: 7, seed: 0 }, b));
    if tier == Tier::Quick {
        prop_oneof![70 => small, 22 => medium, 5 => over64k, 3 => k20].boxed()
    } else {
        let large = (proptest::sample::select(vec![Content::Text, Content::KSymbol, Content::Runs]), proptest::sample::select(vec![8u8, 9]), proptest::sample::select(vec![0u8, 2, 3]))
            .prop_map(|(content, size, b)| (Corpus { content, size, seed: 0 }, b));
        prop_oneof![60 => small, 25 => medium, 6 => over64k, 5 => k20, 4 => large].boxed()
    }
}

/// small corpora only (SIMD-LZ77 `with_dictionary`)
fn small_corpus() -> BoxedStrategy<Corpus> {
    (proptest::sample::select(vec![Content::Text, Content::KSymbol, Content::Runs]), 1u8..6).prop_map(|(content, size)| Corpus { content, size, seed: 0 }).boxed()
}

fn pieces(max_lit: usize) -> BoxedStrategy<Vec<Piece>> {
    let piece = prop_oneof![
        4 => payload(size_around(&[8, 32], max_lit), 16).prop_map(Piece::Lit),
        5 => (any::<u16>(), prop_oneof![0u16..2000, any::<u16>()]).prop_map(|(off, len)| Piece::Dict { off, len }),
        1 => (any::<u16>(), prop_oneof![0u16..2000, any::<u16>()]).prop_map(|(off, len)| Piece::Corpus { off, len }),
        1 => (any::<u16>(), prop_oneof![Just(u16::MAX), 60_000u16..=u16::MAX, any::<u16>()]).prop_map(|(off, len)| Piece::DictLong { off, len }),
        1 => (any::<u8>(), prop_oneof![0u16..3000, any::<u16>()]).prop_map(|(byte, n)| Piece::Run { byte, n }),
    ];
    let huge = (proptest::sample::select(vec![Content::Text, Content::KSymbol, Content::Runs, Content::Uniform, Content::Periodic]), prop_oneof![0u16..5, any::<u16>()], any::<u64>())
        .prop_map(|(content, extra, seed)| Piece::Huge { content, extra, seed });
    prop_oneof![
        60 => proptest::collection::vec(piece.clone(), 0..4),
        60 => proptest::collection::vec(piece.clone(), 0..14),
        1 => (proptest::collection::vec(piece, 0..3), huge).prop_map(|(mut v, h)| {
            v.push(h);
            v
        }),
    ]
    .boxed()
}

/// values around the documented field limits of the match kinds
fn bnd(points: &'static [u32], max: u32) -> BoxedStrategy<u32> {
    let mut pts: Vec<u32> = vec![];
    for &p in points {
        for d in [-2i64, -1, 0, 1, 2] {
            let v = p as i64 + d;
            if v >= 0 && v <= max as i64 {
                pts.push(v as u32);
            }
        }
    }
    prop_oneof![6 => proptest::sample::select(pts), 2 => 0u32..=max, 1 => 0u32..=max.min(300)].boxed()
}

fn mspec() -> BoxedStrategy<MSpec> {
    const LEN_PTS: &[u32] = &[0, 1, 5, 6, 32, 33, 34, 35, 64, 127, 128, 161, 162, 255, 256, 32_767, 32_768, 32_801, 32_802, 65_535];
    prop_oneof![
        // Literal(length u8)
        2 => bnd(&[0, 1, 32, 255], 255).prop_map(|b| MSpec { kind: 0, a: 0, b }),
        // Global(dict_position u32, length u16)
        2 => (bnd(&[0, 65_535, 65_536, 1 << 24, u32::MAX], u32::MAX), bnd(LEN_PTS, 65_535)).prop_map(|(a, b)| MSpec { kind: 1, a, b }),
        // RLE(byte, length u8)
        2 => (0u32..=255, bnd(&[0, 2, 33, 255], 255)).prop_map(|(a, b)| MSpec { kind: 2, a, b }),
        // NearShort(distance u8, length u8)
        2 => (bnd(&[0, 2, 9, 255], 255), bnd(&[0, 2, 5, 255], 255)).prop_map(|(a, b)| MSpec { kind: 3, a, b }),
        // Far1Short(distance u16, length u8)
        2 => (bnd(&[0, 2, 9, 255, 257, 65_535], 65_535), bnd(&[0, 2, 5, 33, 255], 255)).prop_map(|(a, b)| MSpec { kind: 4, a, b }),
        // Far2Short(distance u32, length u8)
        2 => (bnd(&[0, 257, 258, 65_535, 65_793, 1 << 24, u32::MAX], u32::MAX), bnd(&[0, 2, 33, 255], 255)).prop_map(|(a, b)| MSpec { kind: 5, a, b }),
        // Far2Long(distance u16, length u16)
        3 => (bnd(&[0, 1, 255, 257, 65_535], 65_535), bnd(LEN_PTS, 65_535)).prop_map(|(a, b)| MSpec { kind: 6, a, b }),
        // Far3Long(distance u32 (24 bits), length u32)
        3 => (
            bnd(&[0, 65_535, 65_536, (1 << 24) - 1, 1 << 24, u32::MAX], u32::MAX),
            prop_oneof![
                4 => bnd(LEN_PTS, u32::MAX),
                2 => bnd(&[1 << 16, 1 << 24, (1 << 30) + 32_801, (1 << 30) + 32_802, 1 << 31, u32::MAX], u32::MAX),
            ]
        )
            .prop_map(|(a, b)| MSpec { kind: 7, a, b }),
    ]
    .boxed()
}

// ---------------------------------------------------------------------------------------
// the property
// ---------------------------------------------------------------------------------------

impl Prop for P {
    fn id(&self) -> &'static str {
        "C02"
    }
    fn rule(&self) -> &'static str {
        "one plan per cell (factory algorithm / adaptive profile / real-time mode / SIMD-LZ77 variant / PA-Zip preset / match codec / FSE stage); payloads = content class x boundary-biased length, plus zstd-packed (incompressible) payloads and unit..filler..unit repeats at distances around 2^8 and 2^16; trained compressors get Same/Superset/Prefix/Disjoint/Unrelated/Text/Empty training; PA-Zip inputs are concatenations of slices of the training corpus, literals and runs; Match values at min/max/max+-1/2^k+-1 of every documented field; adaptive and real-time cells are op histories. Non-trivial = some payload of >= 2 bytes was compressed successfully (match cell: >= 1 valid match encoded). Distinct by hash of the case JSON"
    }
    fn assumptions(&self) -> Vec<String> {
        vec![
            "Err from a constructor or from compress is 'refused' (counted in labels), never a violation; only Ok(compress) followed by a decompress that panics, errs or returns different bytes is".into(),
            "a panic inside compress is reported under aspect 'compress' (a Result-returning API must not panic), separately from round-trip failures".into(),
            "AdaptiveCompressor::set_algorithm / RealtimeCompressor::set_mode: only data compressed *after* the switch is required to round-trip; decoding blobs from before an explicit switch is observed in labels (cross_switch_*) but not asserted, the API does not promise it".into(),
            "RealtimeCompressor::compress_batch may return fewer results than items when its deadline passes (labelled batch_truncated); only the returned prefix is checked".into(),
            "real-time fallback is classified from the compressor's own RealtimeStats::fallback_operations counter, not from the clock".into(),
            "Match constructors: the documented ranges (doc comments on Match/CompressionType) are the reference for accept/refuse; Far3Long lengths are additionally limited by the documented 30-bit variable-length field".into(),
            "DictionaryCompressor is quadratic: payloads for factory_Dictionary / factory_Hybrid / adaptive training samples are bounded (<= 4 KiB); SIMD-LZ77 payloads <= 400 bytes (match search is cubic)".into(),
            "PA-Zip dictionaries are built once per (corpus, builder preset) per worker and cloned per case".into(),
        ]
    }
    fn cpu_budget_s(&self) -> u64 {
        60
    }

    fn plans(&self, tier: Tier) -> Vec<Plan> {
        let q = |a: usize, b: usize| tier.pick(a, b);
        let max = q(8192, 65_536);
        let mut v = vec![];
        for (i, (name, _)) in ALGS.iter().enumerate() {
            let quadratic = matches!(*name, "Dictionary" | "Hybrid");
            let m = if quadratic { q(4096, 4096) } else { max };
            let n = if quadratic { q(260, 8000) } else { q(420, 16_000) };
            let big_ok = !quadratic;
            let memory = matches!(*name, "Huffman" | "Rans" | "Dictionary" | "Hybrid" | "Lz4");
            // the hybrid selector only leaves its "nothing helped" branch for payloads that are
            // large enough to amortise the component headers (Huffman tree, 1 KiB rANS table):
            // half of its payloads are compressible classes of 300..m bytes
            let x = if *name == "Hybrid" {
                prop_oneof![
                    1 => px(m, big_ok),
                    1 => (proptest::sample::select(vec![Content::TwoSymbol, Content::Geometric, Content::Text, Content::Runs, Content::Fibonacci, Content::KSymbol, Content::Periodic]), 300usize..=m, any::<u64>())
                        .prop_map(|(content, len, seed)| Px::Plain(Payload::Gen { content, len, seed })),
                ]
                .boxed()
            } else {
                px(m, big_ok)
            };
            v.push(Plan::new(
                &format!("factory_{name}"),
                n,
                if memory { n / 10 } else { 0 },
                (x, train(), prop_oneof![-7i32..=22, proptest::sample::select(vec![0i32, 1, 22, 23, 100, -100])])
                    .prop_map(move |(x, train, level)| Case::Factory { alg: i as u8, level, x, train }),
            ));
        }
        for (i, name) in ADAPTIVE_PROFILES.iter().enumerate() {
            let op = prop_oneof![
                8 => px(q(4096, 32_768), false).prop_map(AOp::Compress),
                3 => (0u8..ALGS.len() as u8 - 1).prop_map(AOp::SetAlg),
                1 => proptest::collection::vec(payload(size_around(&[16, 64], 384), 16), 0..3).prop_map(AOp::Train),
            ];
            v.push(Plan::new(
                &format!("adaptive_{name}"),
                q(160, 6000),
                0,
                proptest::collection::vec(op, 1..10).prop_map(move |ops| Case::Adaptive { profile: i as u8, ops }),
            ));
        }
        for (i, (name, _)) in MODES.iter().enumerate() {
            let op = prop_oneof![
                6 => px(q(4096, 32_768), false).prop_map(ROp::Compress),
                4 => (px(q(2048, 16_384), false), prop_oneof![Just(Deadline::Past), Just(Deadline::Now), Just(Deadline::Far)]).prop_map(|(x, d)| ROp::WithDeadline(x, d)),
                2 => proptest::collection::vec(payload(size_around(&[16, 64], 1024), 16), 0..5).prop_map(ROp::Batch),
                1 => (0u8..4).prop_map(ROp::SetMode),
            ];
            v.push(Plan::new(
                &format!("realtime_{name}"),
                q(200, 6000),
                0,
                (1u8..4, any::<bool>(), any::<bool>(), proptest::collection::vec(op, 1..8))
                    .prop_map(move |(conc, fallback, deadlines, ops)| Case::Realtime { mode: i as u8, conc, fallback, deadlines, ops }),
            ));
        }
        for (i, name) in SIMD_VARIANTS.iter().enumerate() {
            v.push(Plan::new(
                &format!("simdlz77_{name}"),
                q(50, 1500),
                q(6, 150),
                (payload(size_around(&[8, 32], q(200, 400)), 24), small_corpus()).prop_map(move |(x, corpus)| Case::SimdLz77 { variant: i as u8, x, corpus }),
            ));
        }
        for (i, name) in PAZIP_PRESETS.iter().enumerate() {
            v.push(Plan::new(
                &format!("pazip_{name}"),
                q(300, 10_000),
                q(30, 1000),
                (corpus_and_builder(tier), proptest::collection::vec(pieces(q(300, 2000)), 1..4))
                    .prop_map(move |((corpus, builder), inputs)| Case::PaZip { preset: i as u8, builder, corpus, inputs }),
            ));
        }
        v.push(Plan::new("pazip_matches", q(2500, 80_000), q(200, 5000), proptest::collection::vec(mspec(), 0..10).prop_map(|ms| Case::Matches { ms })));
        v.push(Plan::new(
            "pazip_fse",
            q(400, 12_000),
            q(40, 1200),
            (0u8..3, px(q(4096, 32_768), false)).prop_map(|(cfg, x)| Case::Fse { cfg, x }),
        ));
        v
    }

    fn run(&self, case: &Value, ctx: &mut Ctx) {
        let c: Case = decode(case);
        match c {
            Case::Factory { alg, level, x, train } => run_factory(ctx, alg as usize, level, &x, &train),
            Case::Adaptive { profile, ops } => run_adaptive(ctx, profile, &ops),
            Case::Realtime { mode, conc, fallback, deadlines, ops } => run_realtime(ctx, mode, conc, fallback, deadlines, &ops),
            Case::SimdLz77 { variant, x, corpus } => run_simd(ctx, variant, &x, &corpus),
            Case::PaZip { preset, builder, corpus, inputs } => run_pazip(ctx, preset, builder, &corpus, &inputs),
            Case::Matches { ms } => run_matches(ctx, &ms),
            Case::Fse { cfg, x } => run_fse(ctx, cfg, &x),
        }
    }
}

// ---------------------------------------------------------------------------------------
// shared round-trip judge
// ---------------------------------------------------------------------------------------

/// Judge `decompress(z)` against `x`.  `class` is the deterministic input class.
fn judge(ctx: &mut Ctx, aspect: &str, class: &str, x: &[u8], r: Result<zipora::Result<Vec<u8>>, crate::engine::PanicInfo>) -> bool {
    judge_z(ctx, aspect, class, x, &[], r)
}

/// as `judge`, with the compressed bytes quoted in the failure detail
fn judge_z(ctx: &mut Ctx, aspect: &str, class: &str, x: &[u8], z: &[u8], r: Result<zipora::Result<Vec<u8>>, crate::engine::PanicInfo>) -> bool {
    let zq = if z.is_empty() { String::new() } else { format!(" z[{}]={}", z.len(), crate::gen::hex(&z[..z.len().min(48)])) };
    match r {
        Ok(Ok(y)) => {
            ctx.out.checks += 1;
            if y == x {
                true
            } else {
                let first = y.iter().zip(x.iter()).position(|(a, b)| a != b).unwrap_or(y.len().min(x.len()));
                ctx.fail(
                    aspect,
                    "mismatch",
                    class,
                    format!(
                        "decompress(compress(x)) != x: |x|={} |got|={} first difference at {} (x[..]={} got[..]={}){}",
                        x.len(),
                        y.len(),
                        first,
                        crate::gen::hex(&x[first.min(x.len())..(first + 12).min(x.len())]),
                        crate::gen::hex(&y[first.min(y.len())..(first + 12).min(y.len())]),
                        zq
                    ),
                );
                false
            }
        }
        Ok(Err(e)) => {
            ctx.out.checks += 1;
            ctx.fail(aspect, "err", class, format!("decompress of freshly compressed data failed (|x|={}): {e}{zq}", x.len()));
            false
        }
        Err(p) => {
            ctx.out.checks += 1;
            ctx.fail(aspect, "panic", &format!("{},{}", class, p.class()), format!("{}:{}: {}", p.file, p.line, crate::engine::clip(&p.msg, 300)));
            false
        }
    }
}

fn label_payload(ctx: &mut Ctx, cls: &str, n: usize) {
    ctx.label(format!("content_{cls}"));
    ctx.label(len_class(n));
}

// ---------------------------------------------------------------------------------------
// factory cells
// ---------------------------------------------------------------------------------------

fn run_factory(ctx: &mut Ctx, alg_i: usize, level: i32, px: &Px, train: &Train) {
    let alg_i = alg_i.min(ALGS.len() - 1);
    let alg = if alg_i == ALG_ZSTD_ANY { Algorithm::Zstd(level) } else { ALGS[alg_i].1 };
    let x = px.bytes();
    label_payload(ctx, &px.class(), x.len());
    let trained = matches!(alg, Algorithm::Huffman | Algorithm::Rans | Algorithm::Dictionary | Algorithm::Hybrid);
    let huge_ok = matches!(alg, Algorithm::Huffman | Algorithm::Rans);
    let eff_train = if train.kind == TrainKind::HugeSkew && !huge_ok { Train { kind: TrainKind::Same, ..train.clone() } } else { train.clone() };
    let train = &eff_train;
    let t = if trained { resolve_train(train, &x) } else { vec![] };
    if trained {
        ctx.label(format!("train_{:?}", train.kind));
    }
    let created = try_call(|| CompressorFactory::create(alg, if trained { Some(&t[..]) } else { None }));
    let c = match created {
        Ok(Ok(c)) => c,
        Ok(Err(_)) => {
            ctx.label("create_refused");
            return;
        }
        Err(p) => {
            ctx.fail("create", "panic", &p.class(), format!("{}:{}: {}", p.file, p.line, p.msg));
            return;
        }
    };
    // input class of a trained compressor: payload class, relation of the training data to the
    // payload, and whether the model was trained on more than one distinct symbol
    let model = if t.iter().any(|b| *b != t[0]) { "model_multi" } else { "model_one" };
    let train_cls = if !trained {
        String::new()
    } else if train.kind == TrainKind::Same {
        format!(",train_same,{model}")
    } else {
        format!(",train_other,{model}")
    };
    let z = match try_call(|| c.compress(&x)) {
        Ok(Ok(z)) => z,
        Ok(Err(_)) => {
            ctx.label("compress_refused");
            return;
        }
        Err(p) => {
            ctx.fail("compress", "panic", &format!("{}{},{}", in_class(&x), train_cls, p.class()), format!("{}:{}: {}", p.file, p.line, p.msg));
            return;
        }
    };
    if x.len() >= 2 {
        ctx.nontrivial();
    }
    let mut class = format!("{}{}", in_class(&x), train_cls);
    if alg == Algorithm::Hybrid && !x.is_empty() {
        // which branch did the selector take?  id 0..2 = component compressors; "nothing helped"
        // is visible as: tag 0 followed by the payload itself
        let via = if z.len() == x.len() + 1 && z[1..] == x[..] {
            "via_raw"
        } else {
            match z.first() {
                Some(0) => "via_huffman",
                Some(1) => "via_rans",
                Some(2) => "via_dict",
                _ => "via_unknown",
            }
        };
        ctx.label(format!("hybrid_{via}"));
        class = format!("{via},{class}");
    }
    if z.len() < x.len() {
        ctx.label("shrunk");
    } else {
        ctx.label("not_shrunk");
    }
    let r = try_call(|| c.decompress(&z));
    judge(ctx, "roundtrip", &class, &x, r);
}

// ---------------------------------------------------------------------------------------
// adaptive cells
// ---------------------------------------------------------------------------------------

fn run_adaptive(ctx: &mut Ctx, profile: u8, ops: &[AOp]) {
    let profile = (profile as usize).min(ADAPTIVE_PROFILES.len() - 1);
    let mut cfg = AdaptiveConfig::default();
    let mut req = PerformanceRequirements::default();
    match ADAPTIVE_PROFILES[profile] {
        "aggressive" => {
            cfg = AdaptiveConfig { learning_window: 4, min_operations: 1, evaluation_interval: 1, switch_threshold: 0.0, aggressive_learning: true, test_sample_size: 1 };
        }
        "speed" => {
            req = PerformanceRequirements { max_latency: Duration::from_nanos(1), min_throughput: u64::MAX, max_memory: usize::MAX, target_ratio: 1.0, speed_vs_quality: 0.0 };
            cfg.min_operations = 2;
            cfg.evaluation_interval = 2;
        }
        "quality" => {
            req = PerformanceRequirements { max_latency: Duration::from_secs(3600), min_throughput: 0, max_memory: usize::MAX, target_ratio: 0.0, speed_vs_quality: 1.0 };
            cfg.min_operations = 2;
            cfg.evaluation_interval = 3;
        }
        "lowmem" => {
            req = PerformanceRequirements { max_memory: 0, ..Default::default() };
            cfg.min_operations = 1;
            cfg.evaluation_interval = 2;
            cfg.learning_window = 1;
        }
        _ => {}
    }
    let mut c = match try_call(|| AdaptiveCompressor::new(cfg, req)) {
        Ok(Ok(c)) => c,
        Ok(Err(_)) => {
            ctx.label("create_refused");
            return;
        }
        Err(p) => {
            ctx.fail("create", "panic", &p.class(), p.msg.clone());
            return;
        }
    };
    // last blob produced before an explicit switch (observation only)
    let mut last: Option<(Vec<u8>, Vec<u8>)> = None;
    let mut pending_cross: Option<(Vec<u8>, Vec<u8>)> = None;
    for op in ops {
        if ctx.saturated() {
            break;
        }
        match op {
            AOp::Compress(px) => {
                let x = px.bytes();
                label_payload(ctx, &px.class(), x.len());
                let algn = alg_name(c.current_algorithm());
                ctx.label(format!("adaptive_alg_{algn}"));
                let class = format!("alg_{algn},{}", in_class(&x));
                let z = match try_call(|| c.compress(&x)) {
                    Ok(Ok(z)) => z,
                    Ok(Err(_)) => {
                        ctx.label("compress_refused");
                        continue;
                    }
                    Err(p) => {
                        ctx.fail("compress", "panic", &format!("{class},{}", p.class()), format!("{}:{}: {}", p.file, p.line, p.msg));
                        continue;
                    }
                };
                if x.len() >= 2 {
                    ctx.nontrivial();
                }
                let r = try_call(|| c.decompress(&z));
                judge(ctx, "roundtrip", &class, &x, r);
                if let Some((ox, oz)) = pending_cross.take() {
                    // not asserted: a blob from before set_algorithm decoded by the new compressor
                    match try_call(|| c.decompress(&oz)) {
                        Ok(Ok(y)) if y == ox => ctx.label("cross_switch_decodes"),
                        _ => ctx.label("cross_switch_fails"),
                    }
                }
                last = Some((x, z));
            }
            AOp::SetAlg(a) => {
                let alg = ALGS[(*a as usize).min(ALGS.len() - 2)].1;
                let before = c.current_algorithm();
                match try_call(|| c.set_algorithm(alg)) {
                    Ok(Ok(())) => {
                        ctx.label("set_algorithm_ok");
                        ctx.eq("set_algorithm", "", &alg_name(c.current_algorithm()), &alg_name(alg));
                        if before != alg {
                            pending_cross = last.take();
                        }
                    }
                    Ok(Err(_)) => {
                        ctx.label("set_algorithm_refused");
                        // a refused switch must leave the old compressor in place
                        ctx.eq("set_algorithm", "refused_keeps_current", &alg_name(c.current_algorithm()), &alg_name(before));
                    }
                    Err(p) => ctx.fail("set_algorithm", "panic", &p.class(), p.msg.clone()),
                }
            }
            AOp::Train(samples) => {
                let data: Vec<Vec<u8>> = samples.iter().map(|p| p.bytes()).collect();
                let refs: Vec<(&[u8], &str)> = data.iter().enumerate().map(|(i, d)| (&d[..], if i % 2 == 0 { "text" } else { "binary" })).collect();
                match try_call(|| c.train(&refs)) {
                    Ok(Ok(())) => ctx.label("train_ok"),
                    Ok(Err(_)) => ctx.label("train_refused"),
                    Err(p) => {
                        let cls = if data.iter().any(|d| d.is_empty()) { "empty_sample" } else { "nonempty_samples" };
                        ctx.fail("train", "panic", &format!("{cls},{}", p.class()), format!("{}:{}: {}", p.file, p.line, p.msg))
                    }
                }
            }
        }
    }
}

fn alg_name(a: Algorithm) -> String {
    match a {
        Algorithm::Zstd(l) => format!("Zstd{l}"),
        other => format!("{:?}", other),
    }
}

// ---------------------------------------------------------------------------------------
// real-time cells
// ---------------------------------------------------------------------------------------

fn run_realtime(ctx: &mut Ctx, mode: u8, conc: u8, fallback: bool, deadlines: bool, ops: &[ROp]) {
    let mode = MODES[(mode as usize).min(MODES.len() - 1)].1;
    let rt = match tokio::runtime::Builder::new_current_thread().enable_all().build() {
        Ok(rt) => rt,
        Err(e) => {
            ctx.skip(format!("tokio runtime: {e}"));
            return;
        }
    };
    let cfg = RealtimeConfig {
        mode,
        max_concurrent: conc.max(1) as usize,
        enable_deadlines: deadlines,
        fallback_on_timeout: fallback,
        batch_size: 4,
        batch_timeout: Duration::from_millis(1),
    };
    let c = match try_call(|| RealtimeCompressor::new(cfg)) {
        Ok(Ok(c)) => c,
        Ok(Err(_)) => {
            ctx.label("create_refused");
            return;
        }
        Err(p) => {
            ctx.fail("create", "panic", &p.class(), p.msg.clone());
            return;
        }
    };
    let mut switched = false;
    for op in ops {
        if ctx.saturated() {
            break;
        }
        match op {
            ROp::Compress(px) | ROp::WithDeadline(px, _) => {
                let x = px.bytes();
                label_payload(ctx, &px.class(), x.len());
                let fb0 = c.stats().fallback_operations;
                let (r, how) = match op {
                    ROp::WithDeadline(_, d) => {
                        let now = Instant::now();
                        let dl = match d {
                            Deadline::Past => now.checked_sub(Duration::from_millis(50)).unwrap_or(now),
                            Deadline::Now => now,
                            Deadline::Far => now + Duration::from_secs(120),
                        };
                        ctx.label(format!("deadline_{:?}", d));
                        (try_call(|| rt.block_on(c.compress_with_deadline(&x, dl))), "compress_with_deadline")
                    }
                    _ => (try_call(|| rt.block_on(c.compress(&x))), "compress"),
                };
                let fell_back = c.stats().fallback_operations > fb0;
                let class = format!(
                    "{}{}{},{}",
                    if fell_back { "fallback" } else { "direct" },
                    if switched { ",after_set_mode" } else { "" },
                    if x.len() < 64 { ",small<64" } else { "" },
                    in_class(&x)
                );
                ctx.label(if fell_back { "rt_fallback" } else { "rt_direct" });
                let z = match r {
                    Ok(Ok(z)) => z,
                    Ok(Err(_)) => {
                        ctx.label("compress_refused");
                        continue;
                    }
                    Err(p) => {
                        ctx.fail(how, "panic", &format!("{class},{}", p.class()), format!("{}:{}: {}", p.file, p.line, p.msg));
                        continue;
                    }
                };
                if x.len() >= 2 {
                    ctx.nontrivial();
                }
                let r = try_call(|| rt.block_on(c.decompress(&z)));
                judge(ctx, "roundtrip", &class, &x, r);
            }
            ROp::Batch(items) => {
                let data: Vec<Vec<u8>> = items.iter().map(|p| p.bytes()).collect();
                let refs: Vec<&[u8]> = data.iter().map(|d| &d[..]).collect();
                let fb0 = c.stats().fallback_operations;
                let r = try_call(|| rt.block_on(c.compress_batch(refs)));
                let fell_back = c.stats().fallback_operations > fb0;
                match r {
                    Ok(Ok(zs)) => {
                        ctx.label("batch_ok");
                        if !ctx.ensure("batch_len", "", zs.len() <= data.len(), || format!("{} results for {} items", zs.len(), data.len())) {
                            continue;
                        }
                        if zs.len() < data.len() {
                            ctx.label("batch_truncated");
                        }
                        for (x, z) in data.iter().zip(zs.iter()) {
                            if x.len() >= 2 {
                                ctx.nontrivial();
                            }
                            let class = format!(
                                "{}{}{},{}",
                                if fell_back { "fallback" } else { "direct" },
                                if switched { ",after_set_mode" } else { "" },
                                if x.len() < 64 { ",small<64" } else { "" },
                                in_class(x)
                            );
                            let r = try_call(|| rt.block_on(c.decompress(z)));
                            judge(ctx, "batch_roundtrip", &class, x, r);
                        }
                    }
                    Ok(Err(_)) => ctx.label("batch_refused"),
                    Err(p) => ctx.fail("compress_batch", "panic", &p.class(), format!("{}:{}: {}", p.file, p.line, p.msg)),
                }
            }
            ROp::SetMode(m) => {
                let (name, m) = MODES[(*m as usize).min(MODES.len() - 1)];
                match try_call(|| c.set_mode(m)) {
                    Ok(Ok(())) => {
                        ctx.label(format!("set_mode_{name}"));
                        if m != mode {
                            switched = true;
                        }
                    }
                    Ok(Err(_)) => ctx.label("set_mode_refused"),
                    Err(p) => ctx.fail("set_mode", "panic", &p.class(), p.msg.clone()),
                }
            }
        }
    }
}

// ---------------------------------------------------------------------------------------
// PA-Zip dictionaries (cached per worker)
// ---------------------------------------------------------------------------------------

thread_local! {
    static DICTS: RefCell<HashMap<u64, Option<(SuffixArrayDictionary, bool)>>> = RefCell::new(HashMap::new());
}

/// Is the suffix array that zipora builds for this dictionary text (same public constructor and
/// configuration the dictionary used) a sorted permutation?  Checked naively.  PA-Zip's global
/// matcher binary-searches that array; when it is mis-sorted (property C12's subject) every
/// global match is unreliable, so the verdict is part of the input class of the signature.
fn suffix_array_sorted(d: &SuffixArrayDictionary) -> bool {
    use zipora::algorithms::suffix_array::SuffixArray;
    let text = d.dictionary_text();
    let cfg = d.config().suffix_array_config.clone();
    let sa = match try_call(|| SuffixArray::with_config(text, &cfg)) {
        Ok(Ok(sa)) => sa,
        _ => return false,
    };
    let v = sa.as_slice();
    if v.len() != text.len() {
        return false;
    }
    let mut seen = vec![false; text.len()];
    for &p in v {
        if p >= text.len() || seen[p] {
            return false;
        }
        seen[p] = true;
    }
    v.windows(2).all(|w| text[w[0]..] < text[w[1]..])
}

fn builder_cfg(b: u8) -> (&'static str, DictionaryBuilderConfig) {
    match b % 4 {
        0 => ("default", DictionaryBuilderConfig::default()),
        1 => ("max_compression", DictionaryBuilderConfig::max_compression()),
        2 => ("max_speed", DictionaryBuilderConfig::max_speed()),
        _ => ("min_memory", DictionaryBuilderConfig::min_memory()),
    }
}

/// `None` = the builder refused (or panicked on) this corpus; the flag is `suffix_array_sorted`
fn dictionary_for(ctx: &mut Ctx, corpus: &[u8], builder: u8) -> Option<(SuffixArrayDictionary, bool)> {
    let key = mix(fnv(corpus), 0xD1C7 + (builder % 4) as u64);
    if let Some(d) = DICTS.with(|m| m.borrow().get(&key).cloned()) {
        return d;
    }
    let (_, cfg) = builder_cfg(builder);
    let built = try_call(|| DictionaryBuilder::with_config(cfg).build(corpus));
    let d = match built {
        Ok(Ok(d)) => {
            let sorted = suffix_array_sorted(&d);
            Some((d, sorted))
        }
        Ok(Err(_)) => None,
        Err(p) => {
            ctx.label(format!("dict_build_panicked:{}", crate::engine::clip(&p.class(), 60)));
            None
        }
    };
    DICTS.with(|m| {
        let mut m = m.borrow_mut();
        if m.len() >= 48 {
            m.clear();
        }
        m.insert(key, d.clone());
    });
    d
}

fn pazip_cfg(preset: usize) -> PaZipCompressorConfig {
    match PAZIP_PRESETS[preset] {
        "fast" => PaZipCompressorConfig::fast_compression(),
        "high" => PaZipCompressorConfig::high_compression(),
        "balanced" => PaZipCompressorConfig::balanced(),
        "realtime" => PaZipCompressorConfig::realtime(),
        "reference_compliant" => PaZipCompressorConfig::reference_compliant(),
        _ => PaZipCompressorConfig::default(),
    }
}

fn run_pazip(ctx: &mut Ctx, preset: u8, builder: u8, corpus: &Corpus, inputs: &[Vec<Piece>]) {
    let preset = (preset as usize).min(PAZIP_PRESETS.len() - 1);
    let cb = corpus_bytes(corpus);
    ctx.label(format!("corpus_{:?}", corpus.content));
    ctx.label(format!("corpus_len={}", cb.len()));
    ctx.label(format!("builder_{}", builder_cfg(builder).0));
    let Some((dict, sa_sorted)) = dictionary_for(ctx, &cb, builder) else {
        ctx.label("dict_refused");
        return;
    };
    ctx.label(if sa_sorted { "dict_sa_sorted" } else { "dict_sa_unsorted" });
    let dict_text = dict.dictionary_text().to_vec();
    let dict_len = dict_text.len();
    ctx.label(match dict_len {
        0 => "dict_text=0",
        1..=64 => "dict_text<=64",
        65..=65_535 => "dict_text<=64K",
        _ => "dict_text>64K",
    });
    let pool = match try_call(|| SecureMemoryPool::new(SecurePoolConfig::new(4096, 1024, 8))) {
        Ok(Ok(p)) => p,
        _ => {
            ctx.skip("memory pool unavailable");
            return;
        }
    };
    let mut c = match try_call(|| PaZipCompressor::new(dict, pazip_cfg(preset), pool)) {
        Ok(Ok(c)) => c,
        Ok(Err(_)) => {
            ctx.label("create_refused");
            return;
        }
        Err(p) => {
            ctx.fail("create", "panic", &p.class(), format!("{}:{}: {}", p.file, p.line, p.msg));
            return;
        }
    };
    let cap = ctx.tier.pick(6000, 40_000);
    for (n, pieces) in inputs.iter().enumerate() {
        if ctx.saturated() {
            break;
        }
        let mut x = pieces_bytes(pieces, &cb, &dict_text, cap);
        if PAZIP_PRESETS[preset] == "reference_compliant" && x.len() > 40_000 {
            // the reference encoder is super-linear (13 s for 256 KiB of periodic text, minutes for
            // 1 MiB): slow, not wrong -- the 1 MiB class is for the block-wise path of the others
            x.truncate(40_000);
            ctx.label("reference_compliant_input_capped_40000");
        }
        ctx.label(len_class(x.len()));
        let mut z = Vec::new();
        let stats = match try_call(|| c.compress(&x, &mut z)) {
            Ok(Ok(s)) => s,
            Ok(Err(_)) => {
                ctx.label("compress_refused");
                continue;
            }
            Err(p) => {
                ctx.fail("compress", "panic", &format!("{},{}", in_class(&x), p.class()), format!("{}:{}: {}", p.file, p.line, p.msg));
                continue;
            }
        };
        if x.len() >= 2 {
            ctx.nontrivial();
        }
        // which match kinds did the compressor report?
        let mut kinds = String::new();
        for (k, cnt) in stats.compression_type_usage.iter().enumerate() {
            if *cnt > 0 {
                ctx.label(format!("pazip_kind_{}", KIND_NAMES[k]));
                kinds.push(['L', 'G', 'R', 'N', 'f', 'F', 'l', 'X'][k]);
            }
        }
        if kinds.is_empty() {
            kinds.push_str(if PAZIP_PRESETS[preset] == "reference_compliant" { "ref_format" } else { "none" });
        }
        let class = format!(
            "kinds={kinds}{}{}{}",
            if dict_len > 65_535 { ",dict>64K" } else { "" },
            if sa_sorted { "" } else { ",sa_unsorted" },
            if n > 0 { ",reused" } else { "" }
        );
        // statistics are outside the statement (round-trip identity): recorded, not judged
        ctx.label(if stats.bytes_processed == x.len() as u64 { "pazip_stats_bytes_processed=input_len" } else { "pazip_stats_bytes_processed=other" });
        let mut y = Vec::new();
        let r = try_call(|| c.decompress(&z, &mut y)).map(|r| r.map(|()| y));
        judge_z(ctx, "roundtrip", &class, &x, &z, r);
    }
}

// ---------------------------------------------------------------------------------------
// SIMD LZ77 family
// ---------------------------------------------------------------------------------------

enum Simd {
    Base(SimdLz77Compressor),
    X1(SimdLz77CompressorX1),
    X2(SimdLz77CompressorX2),
    X4(SimdLz77CompressorX4),
    X8(SimdLz77CompressorX8),
    Global,
}

impl Simd {
    fn compress(&mut self, x: &[u8]) -> zipora::Result<Vec<u8>> {
        match self {
            Simd::Base(c) => c.compress(x),
            Simd::X1(c) => c.compress(x),
            Simd::X2(c) => c.compress(x),
            Simd::X4(c) => c.compress(x),
            Simd::X8(c) => c.compress(x),
            Simd::Global => compress_with_simd_lz77(x),
        }
    }
    fn decompress(&mut self, z: &[u8]) -> zipora::Result<Vec<u8>> {
        match self {
            Simd::Base(c) => c.decompress(z),
            Simd::X1(c) => c.decompress(z),
            Simd::X2(c) => c.decompress(z),
            Simd::X4(c) => c.decompress(z),
            Simd::X8(c) => c.decompress(z),
            Simd::Global => decompress_with_simd_lz77(z),
        }
    }
}

fn run_simd(ctx: &mut Ctx, variant: u8, p: &Payload, corpus: &Corpus) {
    let variant = (variant as usize).min(SIMD_VARIANTS.len() - 1);
    let x = p.bytes();
    label_payload(ctx, &p.class(), x.len());
    let made: Result<zipora::Result<Simd>, _> = match SIMD_VARIANTS[variant] {
        "default" => try_call(|| SimdLz77Compressor::new().map(Simd::Base)),
        "high_performance" => try_call(|| SimdLz77Compressor::with_config(SimdLz77Config::high_performance()).map(Simd::Base)),
        "low_latency" => try_call(|| SimdLz77Compressor::with_config(SimdLz77Config::low_latency()).map(Simd::Base)),
        "maximum_parallelism" => try_call(|| SimdLz77Compressor::with_config(SimdLz77Config::maximum_parallelism()).map(Simd::Base)),
        "X1" => try_call(|| SimdLz77CompressorX1::new().map(Simd::X1)),
        "X2" => try_call(|| SimdLz77CompressorX2::new().map(Simd::X2)),
        "X4" => try_call(|| SimdLz77CompressorX4::new().map(Simd::X4)),
        "X8" => try_call(|| SimdLz77CompressorX8::new().map(Simd::X8)),
        "with_dictionary" => {
            let cb = corpus_bytes(corpus);
            let Some((d, _)) = dictionary_for(ctx, &cb, 0) else {
                ctx.label("dict_refused");
                return;
            };
            let text = Arc::new(d.dictionary_text().to_vec());
            try_call(|| SimdLz77Compressor::with_config(SimdLz77Config::with_dictionary(Arc::new(d), text)).map(Simd::Base))
        }
        _ => Ok(Ok(Simd::Global)),
    };
    let mut c = match made {
        Ok(Ok(c)) => c,
        Ok(Err(_)) => {
            ctx.label("create_refused");
            return;
        }
        Err(p) => {
            ctx.fail("create", "panic", &p.class(), format!("{}:{}: {}", p.file, p.line, p.msg));
            return;
        }
    };
    let z = match try_call(|| c.compress(&x)) {
        Ok(Ok(z)) => z,
        Ok(Err(_)) => {
            ctx.label("compress_refused");
            return;
        }
        Err(p) => {
            ctx.fail("compress", "panic", &format!("{},{}", in_class(&x), p.class()), format!("{}:{}: {}", p.file, p.line, p.msg));
            return;
        }
    };
    if x.len() >= 2 {
        ctx.nontrivial();
    }
    let r = try_call(|| c.decompress(&z));
    judge(ctx, "roundtrip", in_class(&x), &x, r);
}

// ---------------------------------------------------------------------------------------
// PA-Zip match codec
// ---------------------------------------------------------------------------------------

/// documented ranges (doc comments on `Match` / `CompressionType`).  `None` = the documentation
/// is contradictory, nothing asserted: `Far3Long` is documented as "length 34+" but its
/// variable-length field carries at most 30 bits, so for longer lengths both refusing and
/// (if it round-trips) accepting are tolerated.
fn doc_valid(m: &MSpec) -> Option<bool> {
    let (a, b) = (m.a as u64, m.b as u64);
    Some(match m.kind {
        0 => (1..=32).contains(&b),
        1 => b >= 6,
        2 => (2..=33).contains(&b),
        3 => (2..=9).contains(&a) && (2..=5).contains(&b),
        4 => (2..=257).contains(&a) && (2..=33).contains(&b),
        5 => (258..=65_793).contains(&a) && (2..=33).contains(&b),
        6 => b >= 34,
        _ => {
            if a <= (1 << 24) - 1 && b > FAR3_MAX_LEN {
                return None;
            }
            a <= (1 << 24) - 1 && b >= 34
        }
    })
}

/// bit widths documented in `encode_match` / `encode_variable_length`
fn doc_bits(m: &MSpec) -> usize {
    let varlen = |v: u32| -> usize {
        if v < 128 {
            8
        } else if v < 32_768 {
            17
        } else {
            32
        }
    };
    3 + match m.kind {
        0 => 5,
        1 => 48,
        2 => 13,
        3 => 5,
        4 => 13,
        5 => 21,
        6 => 16 + varlen(m.b - 34),
        _ => 24 + varlen(m.b - 34),
    }
}

fn construct(m: &MSpec) -> zipora::Result<Match> {
    match m.kind {
        0 => Match::literal(m.b as u8),
        1 => Match::global(m.a, m.b as u16),
        2 => Match::rle(m.a as u8, m.b as u8),
        3 => Match::near_short(m.a as u8, m.b as u8),
        4 => Match::far1_short(m.a as u16, m.b as u8),
        5 => Match::far2_short(m.a, m.b as u8),
        6 => Match::far2_long(m.a as u16, m.b as u16),
        _ => Match::far3_long(m.a, m.b),
    }
}

/// largest Far3Long length the documented "11 + 30 bits (value - 32768)" field can carry
const FAR3_MAX_LEN: u64 = 34 + 32_768 + (1 << 30) - 1;

fn run_matches(ctx: &mut Ctx, specs: &[MSpec]) {
    let mut ms: Vec<Match> = vec![];
    let mut kept: Vec<&MSpec> = vec![];
    for s in specs {
        let kind = KIND_NAMES[(s.kind as usize).min(7)];
        let want_ok = doc_valid(s);
        match try_call(|| construct(s)) {
            Ok(r) => {
                if let Some(want_ok) = want_ok {
                    ctx.ensure("ctor_range", kind, r.is_ok() == want_ok, || {
                        format!("{kind}(a={}, b={}) constructor returned {} but the documented range says {}", s.a, s.b, if r.is_ok() { "Ok" } else { "Err" }, if want_ok { "valid" } else { "invalid" })
                    });
                }
                match r {
                    Ok(m) => {
                        ctx.label(format!("match_{kind}"));
                        ms.push(m);
                        kept.push(s);
                    }
                    Err(_) => ctx.label("ctor_refused"),
                }
            }
            Err(p) => ctx.fail("ctor_range", "panic", &format!("{kind},{}", p.class()), p.msg.clone()),
        }
    }
    // single-match round trips
    let mut single_bits: Vec<usize> = vec![];
    let mut encodable: Vec<Match> = vec![];
    for (m, s) in ms.iter().zip(kept.iter()) {
        let kind = KIND_NAMES[(s.kind as usize).min(7)];
        let cls = if s.kind == 7 && s.b as u64 > FAR3_MAX_LEN { format!("{kind},len>30bit_field") } else { kind.to_string() };
        let mut w = BitWriter::new();
        let bits = match try_call(|| encode_match(m, &mut w)) {
            Ok(Ok(b)) => b,
            Ok(Err(_)) => {
                ctx.label("encode_refused");
                continue;
            }
            Err(p) => {
                ctx.fail("encode", "panic", &format!("{cls},{}", p.class()), p.msg.clone());
                continue;
            }
        };
        ctx.nontrivial();
        encodable.push(m.clone());
        single_bits.push(bits);
        ctx.eq("bits_doc", &cls, &bits, &doc_bits(s));
        let buf = w.finish();
        ctx.eq("bits_buffer", &cls, &buf.len(), &((bits + 7) / 8));
        let mut r = BitReader::new(&buf);
        match try_call(|| decode_match(&mut r)) {
            Ok(Ok((m2, used))) => {
                ctx.eq("single", &cls, &m2, m);
                ctx.eq("bits_consumed", &cls, &used, &bits);
            }
            Ok(Err(e)) => ctx.fail("single", "err", &cls, format!("decode_match(encode_match({m:?})) failed: {e}")),
            Err(p) => ctx.fail("single", "panic", &format!("{cls},{}", p.class()), p.msg.clone()),
        }
    }
    if encodable.is_empty() {
        return;
    }
    // the stream
    let (buf, total) = match try_call(|| encode_matches(&encodable)) {
        Ok(Ok(r)) => r,
        Ok(Err(e)) => {
            ctx.fail("stream_encode", "err", "", format!("every match encoded alone, but encode_matches failed: {e}"));
            return;
        }
        Err(p) => {
            ctx.fail("stream_encode", "panic", &p.class(), p.msg.clone());
            return;
        }
    };
    let sum: usize = single_bits.iter().sum();
    ctx.eq("stream_bits", "", &total, &sum);
    ctx.eq("stream_bits", "buffer_len", &buf.len(), &((sum + 7) / 8));
    // sequential decode with the known count (no reliance on end-of-stream detection)
    let mut r = BitReader::new(&buf);
    let mut pos = 0usize;
    let mut any_overlong = false;
    for (i, m) in encodable.iter().enumerate() {
        let overlong = matches!(m, Match::Far3Long { length, .. } if *length as u64 > FAR3_MAX_LEN);
        any_overlong |= overlong;
        let cls = if overlong { "len>30bit_field" } else { "" };
        match try_call(|| decode_match(&mut r)) {
            Ok(Ok((m2, used))) => {
                pos += used;
                let ok = ctx.eq("stream_seq", cls, &m2, m) & ctx.eq("stream_seq", if overlong { "position,len>30bit_field" } else { "position" }, &(r.bit_position(), used), &(pos, single_bits[i]));
                if !ok {
                    break;
                }
            }
            Ok(Err(e)) => {
                ctx.fail("stream_seq", "err", cls, format!("match #{i} {m:?}: {e}"));
                break;
            }
            Err(p) => {
                ctx.fail("stream_seq", "panic", &p.class(), p.msg.clone());
                break;
            }
        }
    }
    // decode_matches: end of stream must be found from the buffer alone
    let pad = buf.len() * 8 - sum.min(buf.len() * 8);
    let cls = format!("{}{}", if pad >= 3 { "pad>=3bits" } else { "pad<3bits" }, if any_overlong { ",len>30bit_field" } else { "" });
    ctx.label(if pad >= 3 { "stream_pad>=3" } else { "stream_pad<3" });
    match try_call(|| decode_matches(&buf)) {
        Ok(Ok((ms2, used))) => {
            ctx.eq("stream", &cls, &ms2, &encodable);
            ctx.eq("stream_consumed", &cls, &used, &total);
        }
        Ok(Err(e)) => ctx.fail("stream", "err", &cls, format!("decode_matches(encode_matches({} matches, {} bits)) failed: {e}", encodable.len(), total)),
        Err(p) => ctx.fail("stream", "panic", &format!("{cls},{}", p.class()), p.msg.clone()),
    }
}

// ---------------------------------------------------------------------------------------
// PA-Zip FSE stage
// ---------------------------------------------------------------------------------------

fn run_fse(ctx: &mut Ctx, cfg: u8, px: &Px) {
    let x = px.bytes();
    label_payload(ctx, &px.class(), x.len());
    let (cname, cfg) = match cfg % 3 {
        0 => ("default", FseConfig::default()),
        1 => ("for_pa_zip", FseConfig::for_pa_zip()),
        _ => ("fast_pa_zip", FseConfig::fast_pa_zip()),
    };
    ctx.label(format!("fse_cfg_{cname}"));
    match try_call(|| apply_fse_compression(&x, &cfg)) {
        Ok(Ok(z)) => {
            if x.len() >= 2 {
                ctx.nontrivial();
            }
            let branch = match z.get(0..2) {
                Some([0xFE, 0x53]) => "fse_coded",
                Some([0x55, 0x4E]) => "stored",
                _ => "empty",
            };
            ctx.label(format!("fse_{branch}"));
            let r = try_call(|| remove_fse_compression(&z, &cfg));
            judge(ctx, "roundtrip", &format!("{branch},{}", in_class(&x)), &x, r);
        }
        Ok(Err(_)) => ctx.label("compress_refused"),
        Err(p) => ctx.fail("compress", "panic", &format!("{},{}", in_class(&x), p.class()), format!("{}:{}: {}", p.file, p.line, p.msg)),
    }
    // reference-style wrappers
    let mut buf = vec![0u8; x.len() + 64];
    let mut n = 0usize;
    match try_call(|| fse_zip_reference(&x, &mut buf, &mut n)) {
        Ok(Ok(true)) => {
            ctx.label("fse_zip_true");
            if !ctx.ensure("zip_size", "", n <= buf.len() && n < x.len(), || format!("fse_zip_reference reported {} bytes for {} input bytes", n, x.len())) {
                return;
            }
            let mut out = vec![0u8; x.len() + 64];
            let r = try_call(|| fse_unzip_reference(&buf[..n], &mut out)).map(|r| {
                r.map(|m| {
                    out.truncate(m.min(out.len()));
                    out
                })
            });
            judge(ctx, "zip_roundtrip", in_class(&x), &x, r);
        }
        Ok(Ok(false)) => ctx.label("fse_zip_false"),
        Ok(Err(_)) => ctx.label("fse_zip_refused"),
        Err(p) => ctx.fail("zip", "panic", &format!("{},{}", in_class(&x), p.class()), format!("{}:{}: {}", p.file, p.line, p.msg)),
    }
}

#[allow(dead_code)]
fn _unused() {
    let _ = ALL_CONTENT;
}
