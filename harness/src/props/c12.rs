//! C12 — suffix arrays order all suffixes; LCP and pattern search are exact.
//!
//! Oracles (all independent of zipora):
//!  * suffix array: permutation test + the linear-time Burkhardt/Kärkkäinen condition
//!    (`(t[sa[i]], rank[sa[i]+1]) < (t[sa[i+1]], rank[sa[i+1]+1])` for all adjacent ranks, rank of
//!    the empty suffix = -1), which is equivalent to "suffixes strictly increasing"; for n <= 512
//!    additionally the definitional `sort_by(|a,b| text[a..].cmp(&text[b..]))` (both oracles must
//!    agree, otherwise the harness reports `oracle_selfcheck`).
//!  * LCP: direct common-prefix length of the two adjacent suffixes.
//!  * BWT: `text[sa[i]-1]`.
//!  * search: naive scan for all occurrence positions; the returned rank range must hold exactly
//!    that set (nothing missing, nothing extra), count = |set|, absent => empty range.
//!  * dictionary matcher: naive longest prefix of the input that occurs in the dictionary, and
//!    the exact rank range of that prefix.
//!
//! When the array an algorithm built is wrong, the dependent clauses (LCP, search) are only
//! checked structurally relative to the array actually built and carry the input class
//! `wrong_sa`, so that they never hide a second defect on correctly built arrays.

use crate::engine::{clip, decode, try_call, Ctx, Plan, Prop, Tier};
use crate::gen::{hex, idx, size_around, Bytes, Xs};
use proptest::prelude::*;
use serde::{Deserialize, Serialize};
use serde_json::{json, Value};
use std::collections::BTreeSet;
use zipora::algorithms::suffix_array::{
    EnhancedSuffixArray, LcpArray, SuffixArray, SuffixArrayAlgorithm, SuffixArrayBuilder, SuffixArrayConfig,
};
use zipora::compression::dict_zip::dictionary::{SuffixArrayDictionary, SuffixArrayDictionaryConfig};
use zipora::compression::suffix_array::{SuffixArrayCompressor, SuffixArrayConfig as CompressorConfig};

pub struct P;

// ---------------------------------------------------------------------------------------
// case description
// ---------------------------------------------------------------------------------------

#[derive(Clone, Copy, Debug, PartialEq, Eq, Serialize, Deserialize)]
pub enum Shape {
    Single,
    Runs,
    Periodic,
    Fib,
    ThueMorse,
    Rand1,
    Rand2,
    Rand3,
    Rand4,
    Rand16,
    Rand256,
    TextLike,
    ZeroFF,
    /// fixed-width records: a pad run of 257..400 equal bytes, then 1-3 varying bytes -- the same
    /// long monotone run occurs many times with different continuations
    PaddedRecords,
}

const SHAPES: &[Shape] = &[
    Shape::Single,
    Shape::Runs,
    Shape::Periodic,
    Shape::Fib,
    Shape::ThueMorse,
    Shape::Rand1,
    Shape::Rand2,
    Shape::Rand3,
    Shape::Rand4,
    Shape::Rand16,
    Shape::Rand256,
    Shape::TextLike,
    Shape::ZeroFF,
    Shape::PaddedRecords,
];

/// shapes whose suffixes share very long prefixes (comparison sorts are quadratic on them)
fn repetitive(s: Shape) -> bool {
    matches!(s, Shape::Single | Shape::Runs | Shape::Periodic | Shape::Fib | Shape::ThueMorse | Shape::Rand1 | Shape::PaddedRecords)
}

#[derive(Clone, Debug, Serialize, Deserialize)]
pub enum Text {
    Raw(Bytes),
    Gen { shape: Shape, len: usize, seed: u64 },
}

#[derive(Clone, Debug, Serialize, Deserialize)]
pub enum Pat {
    /// substring of the text (present by construction)
    Sub { at: u16, len: u8 },
    /// substring whose last byte is replaced (usually absent, shares a long prefix with the text)
    SubMut { at: u16, len: u8, byte: u8 },
    /// substring followed by foreign bytes (longest-match inputs)
    SubTail { at: u16, len: u8, tail: Bytes },
    Whole,
    WholePlus(u8),
    Raw(Bytes),
    Empty,
}

#[derive(Clone, Debug, Default, Serialize, Deserialize)]
pub struct Case {
    text: Option<Text>,
    /// make the text end with a unique smallest byte (the "sentinel" the compressor doc mentions)
    #[serde(default)]
    term: bool,
    /// algorithm index for cells that do not fix it (0 SAIS, 1 DivSufSort, 2 DC3, 3 LarssonSadakane, 4 Adaptive)
    #[serde(default)]
    algo: u8,
    #[serde(default)]
    par: bool,
    #[serde(default)]
    par_low: bool,
    #[serde(default = "yes")]
    small_alpha: bool,
    /// adaptive_threshold selector: 0 -> 0, 1 -> 16, 2 -> 10_000 (the default)
    #[serde(default = "two")]
    thr: u8,
    /// cell-specific selector (dictionary min_pattern_length / min_frequency / max_matches ...)
    #[serde(default)]
    knob: u8,
    #[serde(default)]
    pats: Vec<Pat>,
    /// run every distinct substring of the text (and each with one more byte) as a pattern
    #[serde(default)]
    all_pats: bool,
    /// do not cap repetitive texts (only generated for cells that build with SA-IS)
    #[serde(default)]
    long: bool,
}

fn yes() -> bool {
    true
}
fn two() -> u8 {
    2
}

const ALGOS: &[(&str, SuffixArrayAlgorithm)] = &[
    ("SAIS", SuffixArrayAlgorithm::SAIS),
    ("DivSufSort", SuffixArrayAlgorithm::DivSufSort),
    ("DC3", SuffixArrayAlgorithm::DC3),
    ("LarssonSadakane", SuffixArrayAlgorithm::LarssonSadakane),
    ("Adaptive", SuffixArrayAlgorithm::Adaptive),
];

fn algo_name(a: SuffixArrayAlgorithm) -> &'static str {
    ALGOS.iter().find(|(_, x)| *x == a).map(|(n, _)| *n).unwrap_or("?")
}

// ---------------------------------------------------------------------------------------
// text expansion
// ---------------------------------------------------------------------------------------

fn pick_sym(r: &mut Xs) -> u8 {
    const B: &[u8] = &[0x00, 0xFF, b'a', b'b', 0x01, 0xFE, 0x7F, 0x80];
    if r.below(3) == 0 {
        r.next() as u8
    } else {
        B[r.below(B.len() as u64) as usize]
    }
}

fn rand_alphabet(r: &mut Xs, k: usize) -> Vec<u8> {
    if k >= 256 {
        return (0..=255u8).collect();
    }
    let mut set = BTreeSet::new();
    // half of the time force the extreme byte values into the alphabet
    if k >= 2 && r.below(2) == 0 {
        set.insert(0x00);
        set.insert(0xFF);
    }
    while set.len() < k {
        set.insert(pick_sym(r));
    }
    let mut v: Vec<u8> = set.into_iter().collect();
    // random order so that "first symbol" is not always the smallest
    for i in (1..v.len()).rev() {
        let j = r.below(i as u64 + 1) as usize;
        v.swap(i, j);
    }
    v
}

pub fn expand(shape: Shape, len: usize, seed: u64) -> Vec<u8> {
    let mut r = Xs(seed | 1);
    let mut out = Vec::with_capacity(len);
    match shape {
        Shape::Single | Shape::Rand1 => {
            let b = pick_sym(&mut r);
            out.resize(len, b);
        }
        Shape::Runs => {
            let k = 2 + r.below(3) as usize;
            let al = rand_alphabet(&mut r, k);
            while out.len() < len {
                let b = al[r.below(al.len() as u64) as usize];
                let long = r.below(4) == 0;
                let run = 1 + r.below(if long { 200 } else { 9 }) as usize;
                for _ in 0..run.min(len - out.len()) {
                    out.push(b);
                }
            }
        }
        Shape::Periodic => {
            let p = 1 + r.below(7) as usize;
            let k = 2 + r.below(2) as usize;
            let al = rand_alphabet(&mut r, k);
            let pat: Vec<u8> = (0..p).map(|_| al[r.below(al.len() as u64) as usize]).collect();
            for i in 0..len {
                out.push(pat[i % p]);
            }
        }
        Shape::Fib => {
            let al = rand_alphabet(&mut r, 2);
            let (mut a, mut b): (Vec<u8>, Vec<u8>) = (vec![al[0]], vec![al[0], al[1]]);
            while b.len() < len {
                let mut c = b.clone();
                c.extend_from_slice(&a);
                a = b;
                b = c;
            }
            b.truncate(len);
            out = b;
        }
        Shape::ThueMorse => {
            let al = rand_alphabet(&mut r, 2);
            for i in 0..len {
                out.push(al[(i.count_ones() & 1) as usize]);
            }
        }
        Shape::Rand2 | Shape::Rand3 | Shape::Rand4 | Shape::Rand16 | Shape::Rand256 => {
            let k = match shape {
                Shape::Rand2 => 2,
                Shape::Rand3 => 3,
                Shape::Rand4 => 4,
                Shape::Rand16 => 16,
                _ => 256,
            };
            let al = rand_alphabet(&mut r, k);
            for _ in 0..len {
                out.push(al[r.below(al.len() as u64) as usize]);
            }
        }
        Shape::TextLike => {
            const WORDS: &[&str] = &["the ", "quick ", "brown ", "fox ", "banana", "mississippi ", "abracadabra ", "ab", "abab", "a", "\n", "zipora "];
            while out.len() < len {
                out.extend_from_slice(WORDS[r.below(WORDS.len() as u64) as usize].as_bytes());
            }
            out.truncate(len);
        }
        Shape::PaddedRecords => {
            let pad = pick_sym(&mut r);
            let width = 257 + r.below(144) as usize;
            let al = rand_alphabet(&mut r, 3);
            while out.len() < len {
                out.extend(std::iter::repeat(pad).take(width));
                for _ in 0..1 + r.below(3) {
                    out.push(al[r.below(al.len() as u64) as usize]);
                }
            }
            out.truncate(len);
        }
        Shape::ZeroFF => {
            // mostly 0x00 / 0xFF with a few other bytes
            for _ in 0..len {
                out.push(match r.below(10) {
                    0..=3 => 0x00,
                    4..=7 => 0xFF,
                    8 => 0x01,
                    _ => r.next() as u8,
                });
            }
        }
    }
    out
}

impl Case {
    fn text_bytes(&self, tier: Tier) -> (Vec<u8>, String) {
        let (mut t, shape) = match &self.text {
            None => (vec![], "Raw".to_string()),
            Some(Text::Raw(b)) => (b.0.clone(), "Raw".to_string()),
            Some(Text::Gen { shape, len, seed }) => {
                // comparison-sort based constructions are quadratic on repetitive texts
                let cap = if repetitive(*shape) && !self.long { if tier == Tier::Quick { 12_000 } else { 20_000 } } else { usize::MAX };
                (expand(*shape, (*len).min(cap), *seed), format!("{:?}", shape))
            }
        };
        if self.term {
            for b in t.iter_mut() {
                if *b == 0 {
                    *b = 1;
                }
            }
            t.push(0);
        }
        (t, shape)
    }
}

fn resolve_pat(p: &Pat, text: &[u8]) -> Vec<u8> {
    let n = text.len();
    let sub = |at: u16, len: u8| -> Vec<u8> {
        if n == 0 {
            return vec![];
        }
        let s = idx(at, n);
        let l = (len as usize).min(n - s);
        text[s..s + l].to_vec()
    };
    match p {
        Pat::Sub { at, len } => sub(*at, *len),
        Pat::SubMut { at, len, byte } => {
            let mut v = sub(*at, *len);
            if let Some(l) = v.last_mut() {
                *l = *byte;
            } else {
                v.push(*byte);
            }
            v
        }
        Pat::SubTail { at, len, tail } => {
            let mut v = sub(*at, *len);
            v.extend_from_slice(&tail.0);
            v
        }
        Pat::Whole => text.to_vec(),
        Pat::WholePlus(b) => {
            let mut v = text.to_vec();
            v.push(*b);
            v
        }
        Pat::Raw(b) => b.0.clone(),
        Pat::Empty => vec![],
    }
}

fn all_patterns(text: &[u8]) -> Vec<Vec<u8>> {
    let mut set: BTreeSet<Vec<u8>> = BTreeSet::new();
    set.insert(vec![]);
    let n = text.len();
    for i in 0..n {
        for j in i + 1..=n {
            set.insert(text[i..j].to_vec());
        }
    }
    let base: Vec<Vec<u8>> = set.iter().cloned().collect();
    for p in base {
        for b in [b'a', b'b', 0x00, 0xFF] {
            let mut q = p.clone();
            q.push(b);
            set.insert(q);
        }
    }
    set.into_iter().collect()
}

// ---------------------------------------------------------------------------------------
// reference computations
// ---------------------------------------------------------------------------------------

enum SaFault {
    Len(String),
    Perm(String),
    Order(String),
}

/// Permutation + Burkhardt/Kärkkäinen order condition. `None` = `sa` is THE suffix array.
fn sa_fault(text: &[u8], sa: &[usize]) -> Option<SaFault> {
    let n = text.len();
    if sa.len() != n {
        return Some(SaFault::Len(format!("array has {} entries for a text of {} bytes", sa.len(), n)));
    }
    let mut rank = vec![usize::MAX; n];
    for (r, &p) in sa.iter().enumerate() {
        if p >= n {
            return Some(SaFault::Perm(format!("entry {} at rank {} is not a text position (n={})", p, r, n)));
        }
        if rank[p] != usize::MAX {
            return Some(SaFault::Perm(format!("position {} appears at ranks {} and {}", p, rank[p], r)));
        }
        rank[p] = r;
    }
    let key = |p: usize| -> (u8, i64) { (text[p], if p + 1 < n { rank[p + 1] as i64 } else { -1 }) };
    for r in 1..n {
        let (a, b) = (sa[r - 1], sa[r]);
        if key(a) >= key(b) {
            return Some(SaFault::Order(format!("ranks {},{}: suffix@{} is not smaller than suffix@{}", r - 1, r, a, b)));
        }
    }
    None
}

const NAIVE_SA_MAX: usize = 512;

fn naive_sa(text: &[u8]) -> Vec<usize> {
    let mut sa: Vec<usize> = (0..text.len()).collect();
    sa.sort_by(|&a, &b| text[a..].cmp(&text[b..]));
    sa
}

/// reference suffix array: definitional sort for small texts, prefix doubling otherwise
fn ref_sa(text: &[u8]) -> Vec<usize> {
    let n = text.len();
    if n <= NAIVE_SA_MAX {
        return naive_sa(text);
    }
    let mut sa: Vec<usize> = (0..n).collect();
    let mut rank: Vec<usize> = text.iter().map(|&b| b as usize).collect();
    let mut tmp = vec![0usize; n];
    let mut k = 1usize;
    loop {
        let key = |i: usize, rank: &Vec<usize>| -> (usize, usize) { (rank[i], if i + k < n { rank[i + k] + 1 } else { 0 }) };
        sa.sort_by_key(|&i| key(i, &rank));
        tmp[sa[0]] = 0;
        for i in 1..n {
            tmp[sa[i]] = tmp[sa[i - 1]] + if key(sa[i - 1], &rank) < key(sa[i], &rank) { 1 } else { 0 };
        }
        std::mem::swap(&mut rank, &mut tmp);
        if rank[sa[n - 1]] == n - 1 || k >= n {
            break;
        }
        k *= 2;
    }
    sa
}

fn common_prefix(a: &[u8], b: &[u8]) -> usize {
    a.iter().zip(b.iter()).take_while(|(x, y)| x == y).count()
}

/// LCP of adjacent entries of `sa` (index 0 = 0). Direct definition; for large arrays that were
/// verified to be sorted the harness' own Kasai pass is used (exact on a sorted array).
fn ref_lcp(text: &[u8], sa: &[usize], sorted: bool) -> Vec<usize> {
    let n = sa.len();
    let mut lcp = vec![0usize; n];
    if n <= 4096 || !sorted {
        for i in 1..n {
            lcp[i] = common_prefix(&text[sa[i - 1]..], &text[sa[i]..]);
        }
        return lcp;
    }
    let mut rank = vec![0usize; n];
    for (r, &p) in sa.iter().enumerate() {
        rank[p] = r;
    }
    let mut h = 0usize;
    for i in 0..n {
        if rank[i] > 0 {
            let j = sa[rank[i] - 1];
            while i + h < n && j + h < n && text[i + h] == text[j + h] {
                h += 1;
            }
            lcp[rank[i]] = h;
            h = h.saturating_sub(1);
        } else {
            h = 0;
        }
    }
    lcp
}

/// all start positions of `pat` in `text` (the empty pattern occurs at every suffix start 0..n)
fn occurrences(text: &[u8], pat: &[u8]) -> Vec<usize> {
    let (n, m) = (text.len(), pat.len());
    if m == 0 {
        return (0..n).collect();
    }
    if m > n {
        return vec![];
    }
    (0..=n - m).filter(|&i| &text[i..i + m] == pat).collect()
}

fn longest_prefix_in(text: &[u8], input: &[u8]) -> usize {
    // longest l such that input[..l] occurs in text
    let mut best = 0;
    for i in 0..text.len() {
        let l = common_prefix(&text[i..], input);
        if l > best {
            best = l;
        }
    }
    best
}

fn nclass(n: usize) -> &'static str {
    match n {
        0 => "n=0",
        1 => "n=1",
        2 => "n=2",
        3 => "n=3",
        4..=8 => "n=4-8",
        9..=64 => "n=9-64",
        65..=9_999 => "n=65-9999",
        _ => "n>=10000",
    }
}

fn is_terminated(text: &[u8]) -> bool {
    match text.split_last() {
        Some((l, rest)) => rest.iter().all(|b| b > l),
        None => false,
    }
}

fn occ_class(pat: &[u8], occ: usize) -> &'static str {
    if pat.is_empty() {
        "empty_pattern"
    } else {
        match occ {
            0 => "absent",
            1 => "occ=1",
            _ => "occ>=2",
        }
    }
}

fn show(text: &[u8]) -> String {
    clip(&hex(text), 160)
}

// ---------------------------------------------------------------------------------------
// shared oracle pieces
// ---------------------------------------------------------------------------------------

/// Decide whether `got` is the suffix array of `text`; records `sa_len` / `sa_perm` / `sa_order`.
fn judge_sa(ctx: &mut Ctx, text: &[u8], got: &[usize], class: &str) -> bool {
    let fault = sa_fault(text, got);
    // definitional cross-check of the linear-time checker on small inputs
    if text.len() <= NAIVE_SA_MAX {
        let want = naive_sa(text);
        if fault.is_none() != (got == &want[..]) {
            ctx.fail("oracle_selfcheck", "mismatch", "", format!("checker and definitional sort disagree on text {} got {:?}", show(text), got));
            return false;
        }
    }
    ctx.out.checks += 1;
    match fault {
        None => {
            ctx.label("sa_correct");
            true
        }
        Some(f) => {
            ctx.label("sa_wrong");
            let (aspect, why) = match f {
                SaFault::Len(s) => ("sa_len", s),
                SaFault::Perm(s) => ("sa_perm", s),
                SaFault::Order(s) => ("sa_order", s),
            };
            let want = if text.len() <= 40 { format!(" want {:?}", naive_sa(text)) } else { String::new() };
            ctx.fail(aspect, "mismatch", class, format!("text x{} (n={}): {}; got {}{}", show(text), text.len(), why, clip(&format!("{:?}", got), 200), want));
            false
        }
    }
}

/// range check for one pattern. `ranks` = the array the structure actually holds.
fn judge_range(ctx: &mut Ctx, aspect: &str, text: &[u8], ranks: &[usize], correct: bool, pat: &[u8], lo: usize, hi: usize) {
    let n = ranks.len();
    let occ = occurrences(text, pat);
    let oc = occ_class(pat, occ.len());
    if !correct {
        // structural only, relative to the array actually built
        if !ctx.ensure(aspect, "wrong_sa", lo <= n && hi <= n, || format!("range ({lo},{hi}) outside 0..={n}")) {
            return;
        }
        let bad = (lo..hi).find(|&r| !text[ranks[r]..].starts_with(pat));
        ctx.ensure(aspect, "wrong_sa", bad.is_none(), || {
            format!("text x{} pattern x{}: rank {} in returned range ({lo},{hi}) holds suffix {} which does not start with the pattern (array {:?})", show(text), show(pat), bad.unwrap(), ranks[bad.unwrap()], clip(&format!("{:?}", ranks), 120))
        });
        return;
    }
    if !ctx.ensure(aspect, oc, lo <= hi && hi <= n, || format!("text x{} pattern x{}: range ({lo},{hi}) is not a sub-range of 0..{n}", show(text), show(pat))) {
        return;
    }
    let got: BTreeSet<usize> = (lo..hi).map(|r| ranks[r]).collect();
    let want: BTreeSet<usize> = occ.iter().copied().collect();
    if got != want {
        ctx.out.checks += 1;
        let missing: Vec<_> = want.difference(&got).take(6).collect();
        let extra: Vec<_> = got.difference(&want).take(6).collect();
        ctx.fail(aspect, "mismatch", oc, format!("text x{} pattern x{}: range ({lo},{hi}) missing occurrences {:?} extra positions {:?} ({} real occurrences)", show(text), show(pat), missing, extra, occ.len()));
    } else {
        ctx.out.checks += 1;
    }
}

fn label_pattern(ctx: &mut Ctx, pat: &[u8], occ: usize) {
    ctx.label(format!("pat_{}", occ_class(pat, occ)));
    if pat.len() >= 8 && occ >= 1 {
        ctx.label("pat_len>=8_present");
    }
}

fn patterns_of(c: &Case, text: &[u8]) -> Vec<Vec<u8>> {
    if c.all_pats {
        all_patterns(text)
    } else {
        let mut v: Vec<Vec<u8>> = c.pats.iter().map(|p| resolve_pat(p, text)).collect();
        v.dedup();
        v
    }
}

fn describe_text(ctx: &mut Ctx, text: &[u8], shape: &str) {
    let n = text.len();
    let mut seen = [false; 256];
    for &b in text {
        seen[b as usize] = true;
    }
    let distinct = seen.iter().filter(|x| **x).count();
    ctx.label(format!("shape_{shape}"));
    ctx.label(nclass(n));
    ctx.label(match distinct {
        0 => "sigma=0",
        1 => "sigma=1",
        2 => "sigma=2",
        3..=4 => "sigma=3-4",
        5..=16 => "sigma=5-16",
        _ => "sigma>16",
    });
    if seen[0] && seen[255] {
        ctx.label("has_00_and_FF");
    }
    if is_terminated(text) {
        ctx.label("sentinel_terminated");
    }
    if (n >= 4 && distinct >= 2) || n >= 8 {
        ctx.nontrivial();
    }
}

// ---------------------------------------------------------------------------------------
// algorithms::suffix_array cells
// ---------------------------------------------------------------------------------------

fn sa_config(c: &Case, algorithm: SuffixArrayAlgorithm) -> SuffixArrayConfig {
    SuffixArrayConfig {
        algorithm,
        use_parallel: c.par,
        parallel_threshold: if c.par_low { 0 } else { 100_000 },
        compute_lcp: c.knob & 1 == 1,
        optimize_small_alphabet: c.small_alpha,
        adaptive_threshold: match c.thr % 3 {
            0 => 0,
            1 => 16,
            _ => 10_000,
        },
    }
}

fn label_config(ctx: &mut Ctx, cfg: &SuffixArrayConfig) {
    if cfg.use_parallel && cfg.parallel_threshold == 0 {
        ctx.label("cfg_parallel_path");
    }
    if !cfg.optimize_small_alphabet {
        ctx.label("cfg_optimize_small_alphabet=false");
    }
    ctx.label(format!("cfg_adaptive_threshold={}", cfg.adaptive_threshold));
}

/// class for the construction aspects: which construction ran, size class, sentinel-terminated?
/// class of a construction panic: construction (+ alphabet flag) + panic class, taken from the
/// construction class `sel=X,n..[,term][,noopt]`
fn panic_class(class: &str, p: &crate::engine::PanicInfo) -> String {
    let sel = class.split(',').next().unwrap_or("");
    format!("{}{},{}", sel, if class.ends_with(",noopt") { ",noopt" } else { "" }, p.class())
}

fn build_class(sel: &str, cfg: &SuffixArrayConfig, text: &[u8]) -> String {
    format!(
        "sel={},{}{}{}",
        sel,
        nclass(text.len()),
        if is_terminated(text) { ",term" } else { "" },
        if !cfg.optimize_small_alphabet && sel == "SAIS" { ",noopt" } else { "" }
    )
}

/// Everything observable on an `algorithms::SuffixArray`: the array, LCP, search.
fn check_suffix_array(ctx: &mut Ctx, c: &Case, text: &[u8], sa: &SuffixArray, class: &str) -> bool {
    let n = text.len();
    let got: Vec<usize> = sa.as_slice().to_vec();
    ctx.eq("text_len", "", &sa.text_len(), &n);
    let correct = judge_sa(ctx, text, &got, class);
    if got.len() == n {
        let by_rank: Vec<Option<usize>> = (0..n).map(|r| sa.suffix_at_rank(r)).collect();
        let want: Vec<Option<usize>> = got.iter().map(|&p| Some(p)).collect();
        ctx.eq("suffix_at_rank", "", &by_rank, &want);
        ctx.eq("suffix_at_rank", "past_end", &sa.suffix_at_rank(n), &None);
    }
    let usable = got.len() == n && got.iter().all(|&p| p < n);
    if !usable {
        // LcpArray::new / search would index out of the text: the construction fault is recorded
        return correct;
    }

    // ---- LCP -----------------------------------------------------------------------------
    match ctx.no_panic("lcp", || LcpArray::new(text, sa)) {
        Some(Ok(l)) => {
            let want = ref_lcp(text, &got, correct);
            let maxl = want.iter().copied().max().unwrap_or(0);
            let lc = if !correct {
                "wrong_sa"
            } else if maxl >= 8 {
                "maxlcp>=8"
            } else {
                "maxlcp<8"
            };
            if correct && maxl >= 8 {
                ctx.label("maxlcp>=8");
            }
            if ctx.eq("lcp_len", lc, &l.as_slice().len(), &n) {
                if l.as_slice() != &want[..] {
                    let i = (0..n).find(|&i| l.as_slice()[i] != want[i]).unwrap();
                    ctx.fail("lcp", "mismatch", lc, format!("text x{} (n={n}): lcp[{i}] = {} but suffixes @{} and @{} share {} bytes", show(text), l.as_slice()[i], if i > 0 { got[i - 1] } else { 0 }, got[i], want[i]));
                }
                ctx.out.checks += 1;
                let at: Vec<Option<usize>> = (0..n.min(64)).map(|i| l.lcp_at(i)).collect();
                let at_want: Vec<Option<usize>> = l.as_slice().iter().take(64).map(|&v| Some(v)).collect();
                ctx.eq("lcp_at", "", &at, &at_want);
                ctx.eq("lcp_at", "past_end", &l.lcp_at(n), &None);
            }
        }
        Some(Err(e)) => {
            ctx.fail("lcp", "err", "", format!("LcpArray::new failed on a built suffix array: {e}"));
        }
        None => {}
    }

    // ---- search --------------------------------------------------------------------------
    for pat in patterns_of(c, text) {
        if ctx.saturated() {
            break;
        }
        let occ = occurrences(text, &pat).len();
        label_pattern(ctx, &pat, occ);
        let Some((lo, hi)) = ctx.no_panic("search_range", || sa.search_range(text, &pat)) else { continue };
        judge_range(ctx, "search_range", text, &got, correct, &pat, lo, hi);
        if let Some((start, count)) = ctx.no_panic("search", || sa.search(text, &pat)) {
            // `search` = (start, count) of the same range (used that way by PatternMatcher)
            let cls = if correct { occ_class(&pat, occ) } else { "wrong_sa" };
            ctx.eq("search", cls, &(start, count), &(lo, hi.saturating_sub(lo)));
            if correct {
                ctx.eq("search_count", cls, &count, &occ);
            }
        }
    }
    correct
}

fn build_with_config(ctx: &mut Ctx, text: &[u8], cfg: &SuffixArrayConfig, class: &str) -> Option<SuffixArray> {
    match try_call(|| SuffixArray::with_config(text, cfg)) {
        Ok(Ok(sa)) => Some(sa),
        Ok(Err(e)) => {
            // rule 2: a refusal is allowed; it is counted and visible in the label histogram
            ctx.label("build_refused");
            ctx.label(format!("build_refused:{}", clip(&e.to_string(), 60)));
            None
        }
        Err(p) => {
            ctx.fail("build", "panic", &panic_class(&class, &p), format!("text x{} (n={}): {}:{}: {}", show(text), text.len(), p.file, p.line, clip(&p.msg, 200)));
            None
        }
    }
}

fn run_sa_cell(ctx: &mut Ctx, c: &Case, text: &[u8], algorithm: SuffixArrayAlgorithm) {
    let cfg = sa_config(c, algorithm);
    label_config(ctx, &cfg);
    let builder = SuffixArrayBuilder::new(cfg.clone());
    let sel = if text.len() >= 2 { algo_name(builder.select_algorithm(text)) } else { algo_name(algorithm) };
    ctx.label(format!("sel={sel}"));
    let class = build_class(sel, &cfg, text);
    if let Some(sa) = build_with_config(ctx, text, &cfg, &class) {
        check_suffix_array(ctx, c, text, &sa, &class);
    }
}

fn run_sa_new(ctx: &mut Ctx, c: &Case, text: &[u8]) {
    let cfg = SuffixArrayConfig::default();
    let sel = if text.len() >= 2 { algo_name(SuffixArrayBuilder::new(cfg.clone()).select_algorithm(text)) } else { "Adaptive" };
    ctx.label(format!("sel={sel}"));
    let class = build_class(sel, &cfg, text);
    match try_call(|| SuffixArray::new(text)) {
        Ok(Ok(sa)) => {
            check_suffix_array(ctx, c, text, &sa, &class);
        }
        Ok(Err(e)) => ctx.label(format!("build_refused:{}", clip(&e.to_string(), 60))),
        Err(p) => ctx.fail("build", "panic", &panic_class(&class, &p), format!("text x{}: {}", show(text), clip(&p.msg, 200))),
    }
}

fn run_builder(ctx: &mut Ctx, c: &Case, text: &[u8]) {
    let (_, algorithm) = ALGOS[c.algo as usize % ALGOS.len()];
    let cfg = sa_config(c, algorithm);
    label_config(ctx, &cfg);
    ctx.label(format!("requested={}", algo_name(algorithm)));
    let builder = SuffixArrayBuilder::new(cfg.clone());
    let chosen = builder.select_algorithm(text);
    let sel = algo_name(chosen);
    ctx.label(format!("sel={sel}"));
    // a fixed request is returned unchanged; Adaptive is resolved to a concrete construction
    if algorithm != SuffixArrayAlgorithm::Adaptive {
        ctx.eq("select_algorithm", "fixed", &sel, &algo_name(algorithm));
    } else {
        ctx.ensure("select_algorithm", "adaptive", chosen != SuffixArrayAlgorithm::Adaptive, || "Adaptive was not resolved to a construction".into());
    }
    let class = build_class(if text.len() >= 2 { sel } else { algo_name(algorithm) }, &cfg, text);
    match try_call(|| builder.build(text)) {
        Ok(Ok(sa)) => {
            check_suffix_array(ctx, c, text, &sa, &class);
        }
        Ok(Err(e)) => ctx.label(format!("build_refused:{}", clip(&e.to_string(), 60))),
        Err(p) => ctx.fail("build", "panic", &panic_class(&class, &p), format!("text x{}: {}", show(text), clip(&p.msg, 200))),
    }
}

fn run_enhanced(ctx: &mut Ctx, c: &Case, text: &[u8], bwt: bool) {
    let cfg = SuffixArrayConfig::default();
    let sel = if text.len() >= 2 { algo_name(SuffixArrayBuilder::new(cfg.clone()).select_algorithm(text)) } else { "Adaptive" };
    ctx.label(format!("sel={sel}"));
    let class = build_class(sel, &cfg, text);
    let n = text.len();
    let built = try_call(|| if bwt { EnhancedSuffixArray::with_bwt(text) } else { EnhancedSuffixArray::with_lcp(text) });
    let esa = match built {
        Ok(Ok(e)) => e,
        Ok(Err(e)) => {
            ctx.label(format!("build_refused:{}", clip(&e.to_string(), 60)));
            return;
        }
        Err(p) => {
            ctx.fail("build", "panic", &panic_class(&class, &p), format!("text x{}: {}:{}: {}", show(text), p.file, p.line, clip(&p.msg, 200)));
            return;
        }
    };
    let correct = check_suffix_array(ctx, c, text, esa.suffix_array(), &class);
    let got: Vec<usize> = esa.suffix_array().as_slice().to_vec();
    let usable = got.len() == n && got.iter().all(|&p| p < n);
    if bwt {
        ctx.ensure("bwt_present", "", esa.bwt().is_some() && esa.lcp_array().is_none(), || "with_bwt: bwt() is None or lcp_array() is Some".into());
        if let (Some(b), true) = (esa.bwt(), usable) {
            let cls = if correct { "" } else { "wrong_sa" };
            if ctx.eq("bwt_len", cls, &b.len(), &n) {
                // BWT[i] = text[sa[i]-1]; the value stored for sa[i] = 0 is not documented and not asserted
                let bad = (0..n).find(|&i| got[i] > 0 && b[i] != text[got[i] - 1]);
                ctx.ensure("bwt", cls, bad.is_none(), || {
                    let i = bad.unwrap();
                    format!("text x{}: bwt[{i}] = {:#04x} but sa[{i}] = {} and text[{}] = {:#04x}", show(text), b[i], got[i], got[i] - 1, text[got[i] - 1])
                });
            }
        }
    } else {
        ctx.ensure("lcp_present", "", esa.lcp_array().is_some() && esa.bwt().is_none(), || "with_lcp: lcp_array() is None or bwt() is Some".into());
        if let (Some(l), true) = (esa.lcp_array(), usable) {
            let want = ref_lcp(text, &got, correct);
            let maxl = want.iter().copied().max().unwrap_or(0);
            let lc = if !correct {
                "wrong_sa"
            } else if maxl >= 8 {
                "maxlcp>=8"
            } else {
                "maxlcp<8"
            };
            ctx.eq("enhanced_lcp", lc, &l.as_slice().to_vec(), &want);
        }
    }
}

// ---------------------------------------------------------------------------------------
// compression::suffix_array cells
// ---------------------------------------------------------------------------------------

fn run_compressor(ctx: &mut Ctx, c: &Case, text: &[u8], preset: &str) {
    let cfg = match preset {
        "default" => CompressorConfig::default(),
        "dictionary" => CompressorConfig::for_dictionary_compression(),
        "large_text" => CompressorConfig::for_large_text(),
        _ => CompressorConfig::for_realtime(),
    };
    let want_lcp = cfg.compute_lcp;
    let n = text.len();
    let class = format!("sel=SAIS,{}{}", nclass(n), if is_terminated(text) { ",term" } else { "" });
    let comp = match try_call(|| SuffixArrayCompressor::new(cfg)) {
        Ok(Ok(c)) => c,
        Ok(Err(e)) => {
            ctx.skip(format!("cannot create compressor (memory pool): {e}"));
            return;
        }
        Err(p) => {
            ctx.fail("new", "panic", &p.class(), p.msg.clone());
            return;
        }
    };
    let esa = match try_call(|| comp.build_suffix_array(text)) {
        Ok(Ok(e)) => e,
        Ok(Err(e)) => {
            ctx.label(format!("build_refused:{}", clip(&e.to_string(), 60)));
            return;
        }
        Err(p) => {
            ctx.fail("build", "panic", &panic_class(&class, &p), format!("text x{}: {}:{}: {}", show(text), p.file, p.line, clip(&p.msg, 200)));
            return;
        }
    };
    ctx.eq("text_len", "", &esa.text_len(), &n);
    ctx.eq("len", "", &esa.len(), &n);
    ctx.eq("is_empty", "", &esa.is_empty(), &(n == 0));
    let by_rank: Vec<Option<usize>> = (0..esa.len()).map(|r| esa.suffix_at_rank(r)).collect();
    if by_rank.iter().any(|x| x.is_none()) {
        ctx.fail("suffix_at_rank", "mismatch", "", "suffix_at_rank(r) is None for r < len()".to_string());
        return;
    }
    ctx.eq("suffix_at_rank", "past_end", &esa.suffix_at_rank(esa.len()), &None);
    let got: Vec<usize> = by_rank.into_iter().map(|x| x.unwrap()).collect();
    let correct = judge_sa(ctx, text, &got, &class);
    let usable = got.len() == n && got.iter().all(|&p| p < n);
    if !usable {
        return;
    }
    // LCP (dictionary preset computes it; the others must answer None)
    if want_lcp && n > 0 {
        let want = ref_lcp(text, &got, correct);
        let maxl = want.iter().copied().max().unwrap_or(0);
        let lc = if !correct {
            "wrong_sa"
        } else if maxl >= 8 {
            "maxlcp>=8"
        } else {
            "maxlcp<8"
        };
        if correct && maxl >= 8 {
            ctx.label("maxlcp>=8");
        }
        let l: Vec<Option<usize>> = (0..n).map(|i| esa.lcp_at(i)).collect();
        let w: Vec<Option<usize>> = want.iter().map(|&v| Some(v)).collect();
        if l != w {
            let i = (0..n).find(|&i| l[i] != w[i]).unwrap();
            ctx.fail("lcp", "mismatch", lc, format!("text x{} (n={n}): lcp_at({i}) = {:?}, suffixes @{} and @{} share {} bytes", show(text), l[i], if i > 0 { got[i - 1] } else { 0 }, got[i], want[i]));
        }
        ctx.out.checks += 1;
        ctx.eq("lcp_at", "past_end", &esa.lcp_at(n), &None);
    } else if !want_lcp && n > 0 {
        ctx.eq("lcp_at", "not_computed", &esa.lcp_at(0), &None);
    }
    for pat in patterns_of(c, text) {
        if ctx.saturated() {
            break;
        }
        if pat.is_empty() {
            // the empty pattern is answered with "no occurrences" by this API; the doc comments are
            // silent about it, so it is exercised (must not panic) but not asserted
            let _ = ctx.no_panic("find_pattern", || esa.find_pattern(text, &pat));
            continue;
        }
        let occ = occurrences(text, &pat);
        label_pattern(ctx, &pat, occ.len());
        if let Some((lo, hi)) = ctx.no_panic("find_pattern_range", || esa.find_pattern_range(text, &pat)) {
            judge_range(ctx, "find_pattern_range", text, &got, correct, &pat, lo, hi);
        }
        if let Some(found) = ctx.no_panic("find_pattern", || esa.find_pattern(text, &pat)) {
            if correct {
                let oc = occ_class(&pat, occ.len());
                // documented: "Vector of starting positions where the pattern occurs" (sorted, deduplicated)
                ctx.eq("find_pattern", oc, &found, &occ);
                if let Some(cnt) = ctx.no_panic("count_pattern", || esa.count_pattern(text, &pat)) {
                    ctx.eq("count_pattern", oc, &cnt, &occ.len());
                }
            } else {
                let bad = found.iter().find(|&&p| p >= n || !text[p..].starts_with(&pat));
                ctx.ensure("find_pattern", "wrong_sa", bad.is_none(), || format!("text x{} pattern x{}: reported position {:?} is not an occurrence", show(text), show(&pat), bad));
            }
        }
    }
}

// ---------------------------------------------------------------------------------------
// dict_zip::SuffixArrayDictionary cell
// ---------------------------------------------------------------------------------------

fn run_dict(ctx: &mut Ctx, c: &Case, text: &[u8]) {
    let n = text.len();
    let mut cfg = SuffixArrayDictionaryConfig::default();
    cfg.min_pattern_length = [1usize, 2, 4][(c.knob % 3) as usize];
    cfg.min_frequency = [1u32, 2, 4][((c.knob / 3) % 3) as usize];
    cfg.max_bfs_depth = [0u32, 2, 6][((c.knob / 9) % 3) as usize];
    cfg.use_memory_pool = c.knob & 0x40 != 0;
    let min_len = cfg.min_pattern_length;
    let max_len = cfg.max_pattern_length;
    ctx.label(format!("dict_min_pattern_length={min_len}"));
    ctx.label(format!("dict_min_frequency={}", cfg.min_frequency));
    ctx.label(format!("dict_max_bfs_depth={}", cfg.max_bfs_depth));
    // the array the dictionary builds internally is not observable; build the same one to know
    // whether the (already recorded) construction defect applies to this text
    let sa_cfg = cfg.suffix_array_config.clone();
    let sel = if n >= 2 { algo_name(SuffixArrayBuilder::new(sa_cfg.clone()).select_algorithm(text)) } else { "Adaptive" };
    let inner_ok = match try_call(|| SuffixArray::with_config(text, &sa_cfg)) {
        Ok(Ok(sa)) => sa_fault(text, sa.as_slice()).is_none(),
        _ => false,
    };
    ctx.label(if inner_ok { "sa_correct" } else { "sa_wrong" });
    let wrong = |cls: &str| -> String { if inner_ok { cls.to_string() } else { format!("wrong_sa,sel={sel},{}", nclass(n)) } };
    let mut dict = match try_call(|| SuffixArrayDictionary::new(text, cfg)) {
        Ok(Ok(d)) => d,
        Ok(Err(e)) => {
            ctx.label(format!("build_refused:{}", clip(&e.to_string(), 60)));
            return;
        }
        Err(p) => {
            ctx.fail("build", "panic", &wrong(&p.class()), format!("text x{}: {}:{}: {}", show(text), p.file, p.line, clip(&p.msg, 200)));
            return;
        }
    };
    ctx.eq("dictionary_text", "", &dict.dictionary_text().to_vec(), &text.to_vec());
    ctx.eq("dictionary_size", "", &dict.dictionary_size(), &n);
    let reference = ref_sa(text);
    if sa_fault(text, &reference).is_some() {
        ctx.fail("oracle_selfcheck", "mismatch", "ref_sa", format!("reference suffix array is wrong for x{}", show(text)));
        return;
    }
    let mut rank_of = vec![0usize; n];
    for (r, &p) in reference.iter().enumerate() {
        rank_of[p] = r;
    }
    // exact rank range of a pattern in THE suffix array (contiguous by definition)
    let range_of = |pat: &[u8]| -> (usize, usize) {
        let occ = occurrences(text, pat);
        if occ.is_empty() {
            return (0, 0);
        }
        let lo = occ.iter().map(|&p| rank_of[p]).min().unwrap();
        let hi = occ.iter().map(|&p| rank_of[p]).max().unwrap() + 1;
        debug_assert_eq!(hi - lo, occ.len());
        (lo, hi)
    };
    for input in patterns_of(c, text) {
        if ctx.saturated() {
            break;
        }
        if input.len() > max_len {
            continue;
        }
        let depth = longest_prefix_in(text, &input);
        let dc = if input.is_empty() {
            "empty_input"
        } else if depth == 0 {
            "no_match"
        } else if depth == input.len() {
            "whole_input"
        } else {
            "proper_prefix"
        };
        ctx.label(format!("dict_input_{dc}"));
        if depth >= 8 {
            ctx.label("dict_match_len>=8");
        }
        // ---- da_match_max_length: range + depth ------------------------------------------
        if let Some(st) = ctx.no_panic("da_match_max_length", || dict.da_match_max_length(&input)) {
            if input.is_empty() {
                ctx.eq("da_match_max_length", &wrong("empty_input"), &st.depth, &0);
            } else {
                ctx.eq("da_match_depth", &wrong(dc), &st.depth, &depth);
                if depth > 0 && st.depth == depth {
                    let want = range_of(&input[..depth]);
                    if occurrences(text, &input[..depth]).len() >= 2 {
                        ctx.label("dict_range>=2");
                    }
                    ctx.eq("da_match_range", &wrong(dc), &(st.lo, st.hi), &want);
                }
            }
        }
        // ---- sa_equal_range on the exact range of every proper prefix ----------------------
        if !input.is_empty() && depth > 0 {
            let pos = (c.knob as usize) % depth.min(8).max(1);
            let pos = pos.min(depth - 1).min(input.len() - 1);
            let (lo, hi) = if pos == 0 { (0, n) } else { range_of(&input[..pos]) };
            for ch in [input[pos], input[pos].wrapping_add(1), 0x00, 0xFF] {
                let mut p = input[..pos].to_vec();
                p.push(ch);
                let want = range_of(&p);
                if let Some((a, b)) = ctx.no_panic("sa_equal_range", || dict.sa_equal_range(lo, hi, pos, ch)) {
                    if want.0 == want.1 {
                        ctx.ensure("sa_equal_range", &wrong("absent"), a >= b, || format!("text x{} prefix x{} + {:#04x}: no suffix continues with that byte, got non-empty range ({a},{b})", show(text), show(&input[..pos]), ch));
                    } else {
                        ctx.eq("sa_equal_range", &wrong("present"), &(a, b), &want);
                    }
                }
            }
        }
        // ---- find_longest_match ---------------------------------------------------------------
        if !input.is_empty() {
            let lead = (c.knob / 27) as usize % 3;
            let mut buf = vec![0x5Au8; lead];
            buf.extend_from_slice(&input);
            let r = ctx.no_panic("find_longest_match", || dict.find_longest_match(&buf, lead, usize::MAX));
            match r {
                Some(Ok(m)) => {
                    let cls = wrong(if depth >= min_len { "match_expected" } else { "below_min_length" });
                    if depth >= min_len {
                        match m {
                            Some(m) => {
                                ctx.eq("longest_match_length", &cls, &m.length, &depth);
                                ctx.eq("longest_match_input_position", &cls, &m.input_position, &lead);
                                let real = m.dict_position + m.length <= n && m.length <= input.len() && text[m.dict_position..m.dict_position + m.length] == input[..m.length];
                                ctx.ensure("longest_match_occurrence", &cls, real, || format!("text x{} input x{}: match (dict_position {}, length {}) is not an occurrence", show(text), show(&input), m.dict_position, m.length));
                            }
                            None => ctx.fail("longest_match_length", "mismatch", &cls, format!("text x{} input x{}: no match reported, a prefix of length {depth} occurs (min_pattern_length {min_len})", show(text), show(&input))),
                        }
                        ctx.out.checks += 1;
                    } else {
                        ctx.ensure("longest_match_length", &cls, m.is_none(), || format!("text x{} input x{}: match of length {:?} reported but the longest occurring prefix has length {depth} < min_pattern_length {min_len}", show(text), show(&input), m.as_ref().map(|m| m.length)));
                    }
                }
                Some(Err(e)) => ctx.fail("find_longest_match", "err", &wrong(""), format!("{e}")),
                None => {}
            }
        }
        // ---- find_all_matches ----------------------------------------------------------------
        if !input.is_empty() {
            let max_matches = [usize::MAX, 1, 2, 0][(c.knob as usize / 5) % 4];
            let occ = occurrences(text, &input);
            match ctx.no_panic("find_all_matches", || dict.find_all_matches(&input, max_matches)) {
                Some(Ok(ms)) => {
                    let in_window = input.len() >= min_len && input.len() <= max_len;
                    let oc = wrong(occ_class(&input, occ.len()));
                    if !in_window {
                        // documented filter: patterns outside [min,max] pattern length give no matches
                        ctx.ensure("find_all_matches", "outside_length_window", ms.is_empty(), || "pattern shorter than min_pattern_length produced matches".into());
                    } else {
                        let got: BTreeSet<usize> = ms.iter().map(|m| m.dict_position).collect();
                        let want: BTreeSet<usize> = occ.iter().copied().collect();
                        ctx.ensure("find_all_matches", &oc, got.len() == ms.len(), || "the same dictionary position is reported twice".into());
                        if occ.len() <= max_matches {
                            ctx.eq("find_all_matches", &oc, &got, &want);
                        } else {
                            ctx.ensure("find_all_matches", &oc, ms.len() == max_matches && got.is_subset(&want), || {
                                format!("text x{} pattern x{} max_matches {max_matches}: got positions {:?}, real occurrences {:?}", show(text), show(&input), got, clip(&format!("{:?}", want), 100))
                            });
                        }
                        ctx.ensure("find_all_matches_length", &oc, ms.iter().all(|m| m.length == input.len()), || "match length differs from the pattern length".into());
                    }
                }
                Some(Err(e)) => ctx.fail("find_all_matches", "err", &wrong(""), format!("{e}")),
                None => {}
            }
        }
    }
}

// ---------------------------------------------------------------------------------------
// generators
// ---------------------------------------------------------------------------------------

fn tiny_alphabet() -> impl Strategy<Value = u8> {
    prop_oneof![Just(b'a'), Just(b'b'), Just(0x00u8), Just(0xFFu8)]
}

/// `big`: additionally texts just above the default adaptive threshold (10 000), where
/// `Adaptive` stops delegating to DC3
fn text_strategy(max_len: usize, big: bool, tier: Tier) -> BoxedStrategy<Text> {
    // quick: boundary-biased lengths up to max_len (2 000).  thorough: the same distribution for
    // most texts, 10 % up to 20 000 and 2 % up to max_len (100 000) -- the constructions under
    // test are quadratic in places, so the long texts are a fixed small share of the work
    let gen_len: BoxedStrategy<usize> = if max_len <= 2_000 {
        size_around(&[8, 64, 256, 1024], max_len)
    } else {
        prop_oneof![
            88 => size_around(&[8, 64, 256, 1024], 2_000),
            10 => 2_000usize..=20_000.min(max_len),
            2 => 20_000usize.min(max_len)..=max_len,
        ]
        .boxed()
    };
    let base = prop_oneof![
        3 => proptest::collection::vec(tiny_alphabet(), 0..=12).prop_map(|v| Text::Raw(Bytes(v))),
        1 => proptest::collection::vec(prop_oneof![Just(b'a'), Just(b'b')], 2..=40).prop_map(|v| Text::Raw(Bytes(v))),
        1 => proptest::collection::vec(any::<u8>(), 0..=24).prop_map(|v| Text::Raw(Bytes(v))),
        9 => (proptest::sample::select(SHAPES.to_vec()), gen_len, any::<u64>()).prop_map(|(shape, len, seed)| Text::Gen { shape, len, seed }),
    ];
    if big {
        let hi = tier.pick(10_400usize, 12_000usize);
        prop_oneof![
            12 => base,
            1 => (proptest::sample::select(SHAPES.to_vec()), 9_990usize..=hi, any::<u64>()).prop_map(|(shape, len, seed)| Text::Gen { shape, len, seed }),
        ]
        .boxed()
    } else {
        base.boxed()
    }
}

fn pat_strategy() -> BoxedStrategy<Pat> {
    let len = prop_oneof![4 => 1u8..=4, 2 => 5u8..=16, 1 => 17u8..=200];
    prop_oneof![
        6 => (any::<u16>(), len.clone()).prop_map(|(at, len)| Pat::Sub { at, len }),
        3 => (any::<u16>(), len.clone(), prop_oneof![any::<u8>(), tiny_alphabet()]).prop_map(|(at, len, byte)| Pat::SubMut { at, len, byte }),
        2 => (any::<u16>(), len, proptest::collection::vec(prop_oneof![any::<u8>(), tiny_alphabet()], 1..=4)).prop_map(|(at, len, tail)| Pat::SubTail { at, len, tail: Bytes(tail) }),
        1 => Just(Pat::Whole),
        1 => prop_oneof![any::<u8>(), tiny_alphabet()].prop_map(Pat::WholePlus),
        1 => proptest::collection::vec(prop_oneof![any::<u8>(), tiny_alphabet()], 1..=3).prop_map(|v| Pat::Raw(Bytes(v))),
        1 => Just(Pat::Empty),
    ]
    .boxed()
}

fn case_strategy(max_len: usize, big: bool, tier: Tier) -> BoxedStrategy<Case> {
    (
        text_strategy(max_len, big, tier),
        prop_oneof![4 => Just(false), 1 => Just(true)],
        0u8..5,
        (any::<bool>(), any::<bool>(), prop_oneof![4 => Just(true), 1 => Just(false)], 0u8..3, any::<u8>()),
        proptest::collection::vec(pat_strategy(), 1..=6),
    )
        .prop_map(|(text, term, algo, (par, par_low, small_alpha, thr, knob), pats)| Case { text: Some(text), term, algo, par, par_low, small_alpha, thr, knob, pats, all_pats: false, long: false })
        .boxed()
}

const SA_CELLS: &[(&str, usize)] = &[("sa_sais", 0), ("sa_divsufsort", 1), ("sa_dc3", 2), ("sa_larsson_sadakane", 3), ("sa_adaptive", 4)];
const COMPRESSOR_CELLS: &[(&str, &str)] = &[
    ("compressor_default", "default"),
    ("compressor_dictionary", "dictionary"),
    ("compressor_large_text", "large_text"),
    ("compressor_realtime", "realtime"),
];

fn tiny_texts(tier: Tier) -> Vec<Vec<u8>> {
    let mut v: Vec<Vec<u8>> = vec![vec![]];
    let al = [b'a', b'b', 0x00u8, 0xFFu8];
    let mut layer: Vec<Vec<u8>> = vec![vec![]];
    for _ in 0..3 {
        let mut next = vec![];
        for t in &layer {
            for &b in &al {
                let mut u = t.clone();
                u.push(b);
                next.push(u);
            }
        }
        v.extend(next.iter().cloned());
        layer = next;
    }
    if tier == Tier::Thorough {
        for len in 4..=6usize {
            for bits in 0..(1u32 << len) {
                v.push((0..len).map(|i| if bits >> i & 1 == 0 { b'a' } else { b'b' }).collect());
            }
        }
    }
    v
}

// ---------------------------------------------------------------------------------------
// the property
// ---------------------------------------------------------------------------------------

impl Prop for P {
    fn id(&self) -> &'static str {
        "C12"
    }
    fn rule(&self) -> &'static str {
        "per cell (construction algorithm / API layer) proptest generates a text (raw bytes over {a,b,00,FF}, or shape x length x seed: single symbol, runs, periodic 1-7, Fibonacci and Thue-Morse words, random over alphabets of 1,2,3,4,16,256 symbols, text-like, 00/FF heavy; optionally terminated by a unique smallest byte; lengths boundary-biased around 8/64/256/1024 up to 2 000 in quick, in thorough 10 % up to 20 000 and 2 % up to 100 000, repetitive shapes capped at 20 000; the default-configuration cells also get texts just above the adaptive threshold of 10 000), construction flags, and 1-6 patterns (substrings, mutated substrings, substring+tail, whole text, text+1 byte, raw, empty); plus the exhaustively enumerated texts of length 0-3 over {a,b,00,FF} (thorough: also length 4-6 over {a,b}) for every cell with every substring (and every substring + 1 byte) as pattern. Non-trivial = n >= 4 with >= 2 distinct symbols, or n >= 8; labels maxlcp>=8 and pat_occ>=2 show the LCP / multi-occurrence coverage. Distinct by hash of the case JSON"
    }
    fn assumptions(&self) -> Vec<String> {
        vec![
            "Err from a constructor is counted as 'refused' (label build_refused), not as a violation".into(),
            "BWT: bwt[i] = text[sa[i]-1] is asserted for sa[i] > 0; the byte stored for the suffix starting at 0 is undocumented and not asserted".into(),
            "lcp[0] = 0 (asserted by zipora's own unit test test_lcp_array)".into(),
            "SuffixArray::search returns (start, count) of the range search_range returns (how PatternMatcher uses it)".into(),
            "compression::suffix_array: the empty pattern is exercised but its answer is not asserted (doc silent); find_pattern is compared with the sorted list of all occurrences as documented".into(),
            "when the built array is not the suffix array, LCP and search are only checked structurally (values relative to the array actually built, returned ranks hold real occurrences) under the input class wrong_sa".into(),
            "SuffixArrayDictionary: inputs are at most max_pattern_length (256) bytes and max_length = usize::MAX, so the unused max_length argument of find_longest_match is not part of the check".into(),
            "SuffixArrayDictionary::sa_equal_range is only called with the exact rank range of the prefix of length pos (its precondition); for an absent byte only emptiness of the result is asserted".into(),
            "select_algorithm: only 'a fixed request is returned unchanged' and 'Adaptive resolves to a concrete construction' are asserted; which one is chosen is recorded as a label".into(),
        ]
    }
    fn cpu_budget_s(&self) -> u64 {
        60
    }
    fn plans(&self, tier: Tier) -> Vec<Plan> {
        let q = |a, b| tier.pick(a, b);
        let max_len = q(2_000, 100_000);
        let mut v = vec![];
        for (cell, _) in SA_CELLS {
            v.push(Plan::new(cell, q(24_000, 450_000), q(600, 12_000), case_strategy(max_len, false, tier)));
        }
        v.push(Plan::new("sa_new", q(14_000, 300_000), q(400, 8_000), case_strategy(max_len, true, tier)));
        v.push(Plan::new("builder", q(24_000, 450_000), q(600, 12_000), case_strategy(max_len, false, tier)));
        v.push(Plan::new("lcp_array", q(16_000, 300_000), q(400, 8_000), case_strategy(max_len, false, tier)));
        v.push(Plan::new("enhanced_lcp", q(10_000, 180_000), q(300, 5_000), case_strategy(max_len, true, tier)));
        v.push(Plan::new("enhanced_bwt", q(10_000, 180_000), q(300, 5_000), case_strategy(max_len, true, tier)));
        for (cell, _) in COMPRESSOR_CELLS {
            // the compressor owns a SecureMemoryPool and stores the array in an IntVec: flavour B too
            v.push(Plan::new(cell, q(9_000, 150_000), q(300, 6_000), case_strategy(max_len, false, tier)));
        }
        v.push(Plan::new("dict", q(30_000, 600_000), q(500, 10_000), case_strategy(q(1_200, 20_000), false, tier)));
        // texts just above 2^16 bytes whose adjacent suffixes share more than 65 535 bytes (the
        // quick tier's ordinary texts end at 2 000 bytes): LCP values, ranks and positions that
        // need more than 16 bits, for the cells that keep LCP / BWT / packed arrays
        let long_rep = || {
            (
                (proptest::sample::select(vec![Shape::Single, Shape::Periodic, Shape::Runs, Shape::Fib, Shape::ThueMorse, Shape::Rand1]), 65_530usize..=72_000, any::<u64>())
                    .prop_map(|(shape, len, seed)| Text::Gen { shape, len, seed }),
                any::<bool>(),
                proptest::collection::vec(pat_strategy(), 1..=3),
            )
                .prop_map(|(text, term, pats)| Case { text: Some(text), term, algo: 0, par: false, par_low: false, small_alpha: true, thr: 2, knob: 0, pats, all_pats: false, long: true })
                .boxed()
        };
        for cell in ["lcp_array", "enhanced_lcp", "enhanced_bwt", "compressor_dictionary", "compressor_large_text"] {
            v.push(Plan::new(cell, q(8, 120), q(1, 8), long_rep()));
        }
        v
    }

    fn enumerated(&self, tier: Tier) -> Vec<Value> {
        let mut out = vec![];
        let texts = tiny_texts(tier);
        let mut push = |cell: &str, c: Case| {
            out.push(json!({"cell": cell, "c": serde_json::to_value(&c).unwrap()}));
        };
        for t in &texts {
            let base = Case { text: Some(Text::Raw(Bytes(t.clone()))), small_alpha: true, thr: 2, all_pats: true, ..Default::default() };
            for (cell, _) in SA_CELLS {
                push(cell, base.clone());
            }
            // SA-IS with the alternative alphabet sizing, Adaptive with the analysis path (threshold 0)
            push("sa_sais", Case { small_alpha: false, ..base.clone() });
            push("sa_adaptive", Case { thr: 0, ..base.clone() });
            push("sa_new", base.clone());
            for a in 0..5u8 {
                push("builder", Case { algo: a, par: true, par_low: true, ..base.clone() });
            }
            push("lcp_array", base.clone());
            push("enhanced_lcp", base.clone());
            push("enhanced_bwt", base.clone());
            for (cell, _) in COMPRESSOR_CELLS {
                push(cell, base.clone());
            }
            push("dict", Case { knob: 0, ..base.clone() });
            push("dict", Case { knob: 2 + 3 * 2 + 9 * 2, ..base.clone() });
        }
        out
    }

    fn run(&self, case: &Value, ctx: &mut Ctx) {
        let c: Case = decode(case);
        let (text, shape) = c.text_bytes(ctx.tier);
        describe_text(ctx, &text, &shape);
        let cell = ctx.cell.clone();
        if let Some((_, ai)) = SA_CELLS.iter().find(|(n, _)| *n == cell) {
            run_sa_cell(ctx, &c, &text, ALGOS[*ai].1);
        } else if cell == "sa_new" {
            run_sa_new(ctx, &c, &text);
        } else if cell == "builder" {
            run_builder(ctx, &c, &text);
        } else if cell == "lcp_array" {
            // LcpArray::new over the constructions that are plain comparison sorts
            let algorithm = [SuffixArrayAlgorithm::DivSufSort, SuffixArrayAlgorithm::LarssonSadakane, SuffixArrayAlgorithm::DC3][c.algo as usize % 3];
            run_sa_cell(ctx, &c, &text, algorithm);
        } else if cell == "enhanced_lcp" {
            run_enhanced(ctx, &c, &text, false);
        } else if cell == "enhanced_bwt" {
            run_enhanced(ctx, &c, &text, true);
        } else if let Some((_, preset)) = COMPRESSOR_CELLS.iter().find(|(n, _)| *n == cell) {
            run_compressor(ctx, &c, &text, preset);
        } else if cell == "dict" {
            run_dict(ctx, &c, &text);
        } else {
            ctx.skip(format!("unknown cell {cell}"));
        }
    }
}
